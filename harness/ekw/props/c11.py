"""C11 — graph transformations preserve the computation the graph denotes.

Tie: the REAL copy_graph / rename_nodes / deduplicate_nodes / split_graph / expand_graph / fuse_nodes on
random DAGs against Model/Graph.lean, one transformation per case, results compared in a structural
canonical form (ekw.c11_lib.canon).
Generators (ekw.c11_lib.gen_graph / gen_chainy, gen_expansion here): besides adversarial fixed names, node names are built
from other nodes' names, output names and input names (`<node>.<output>`, `<node>.0`, several dots, a dotted name's prefix
declaring the rest as an output), name-collision clusters put equal-payload consumers on outputs that render alike, and
sub-graphs draw ALL their node names from the expanded node's input/output names and the outer graph's node names, with
None / explicit / partial / empty maps and independent sources outside the input map.
Oracle (from the property text only, independent of the model): a symbolic interpreter computes every
sink's term before and after; dedup: no two nodes with equal (payload, outputs, inputs), idempotent;
split: every node in exactly one part (the one of its key), re-joining the parts along the reported cut
edges gives back the original; expand: every consumer is wired to the leaf the output map selects, every spliced
node is (by name) what the documentation of expand_graph/Splicer says (mapped sources on the node's inputs per input
map, inner edges, leaves with a default output), the sinks have the same VALUES under a concrete numeric
interpretation in which each sub-graph denotes the node it replaces, names stay unique where the code can guarantee
it; all transformations: the result has no dangling input and no cycle; the traversal hands every reachable node to
the callbacks exactly once, parents first (Transformer docstring).
The model runs its own traversal loop: the case is sent as listed (creation order); the finishing orders (graph and
sub-graphs) and, for expand, the decidable domain are compared as well; the inputs of every node are compared in the order
of the inputs dict (canon(ordered=True)); outcome kinds are compared un-collapsed (outcome_mismatch).
"""
import collections
import glob
import json

from ekw import c11_lib as L

PROPERTY = "C11"
LEVEL_TEXT = ("Lean theorems over Model/Graph.lean (graph = topologically ordered node list + sinks; den = term over payloads, eval = value "
              "under an interpretation of the payloads, both by recursion on the order; the `while todo:` traversal loop of Transformer.transform "
              "itself, the generic callback fold + output lookup; _Copier, _Renamer, join_namespaced/Graph.__add__, _DedupTransformer, "
              "Splitter/CutEdge, Splicer (also subclasses overriding splice_source/splice_sink)/_Subgraph/_Expander, _FuseTransformer with "
              "fresh-node and with current-mutating callbacks), unbounded in graph size and - EXCEPT where a clause below names its own condition on "
              "names (split re-join, expand names) or on the predicate (dedup uniqueness) - for all node/input/output names: the traversal loop "
              "terminates on every well-formed graph within |sinks| + 2*|nodes| iterations and finishes exactly the nodes reachable from the "
              "sinks, once each, parents first; the graph re-listed in that order is well formed with the same sink terms and values; copy "
              "and rename return the same structure (names mapped) with identical sink terms (c11_copy/c11_copy_iso say that rebuilding every "
              "node through the traversal and the output lookup reproduces the node list: the model's copy is the identity on the list, its "
              "content is that it never fails and re-wires every input to the right image); join_namespaced/+ concatenate the operands' sink "
              "terms; dedup: c11_dedup_sinks - one image map node->node, every node's image has the same outputs and term, the result's sinks are "
              "exactly the images of the input's sinks, so every input sink has ITS corresponding sink with the same term (c11_dedup_den is the "
              "set form: the code returns a Python set of sinks); dedup is idempotent; c11_dedup_unique (no two nodes with equal "
              "payload/outputs/inputs) needs the hypothesis `hc`, i.e. is proved ONLY for predicates that hold whenever the payloads are equal "
              "(same_payload, the default); c11_dedup_unique_pred: for ANY reflexive predicate implying equal payloads (also the payload+name and "
              "payload+name-length predicates the tie runs, where `hc` fails) no two result nodes have equal outputs, equal inputs and "
              "pred(later, earlier); split gives "
              "every node exactly one image, in the part of its key, and - c11_split_rejoin, ONLY for graphs whose node names are pairwise "
              "different (Nodup) and cut names that are injective in the cut edge and different from every node name - re-joining by name along "
              "the reported cut edges restores every node, the wiring, the sinks and all denotations (with equal node names or colliding cut "
              "names nothing is proved about the re-join; the harness generates unique names for split); expand is TOTAL on the decidable domain expandOK (sub-graphs are graphs, input maps "
              "name existing inputs, every consumed output selects a usable leaf), for Splicer and for every sane override (SpliceOK): it "
              "returns a well-formed (no dangling input, acyclic) graph whose node list is given in closed form - every kept node re-wired "
              "through get_output of its parents' images, every expanded node replaced by the block sub.nodes.map(splicedNode): prefixed names, "
              "mapped sources turned into processors on the node's re-wired input per input map, inner edges shifted into the block, mapped "
              "sinks given the default output, leaves = the last sink of the selected name, inner sinks = the unselected sinks - and, for every "
              "interpretation and every expander whose sub-graphs denote the nodes they replace (ExpandSound), every kept node (so every kept "
              "sink) keeps its value and every usable output of an expanded sink is carried by a leaf that is a sink of the result; "
              "c11_expand_leaf_value: an expanded sink's consumer-visible output is the leaf the output map selects (fixed by graph and expander "
              "alone, before the interpretation), it is a sink of the result and carries the value under every sound interpretation; "
              "c11_expand_names: names stay unique ONLY when the input's names are unique and contain no '.' and each sub-graph's are unique "
              "(c11_expand_names_clash is a decided witness that with dots two result nodes can share a name); "
              "fuse is TOTAL with a well-formed result and keeps every sink's value for every callback whose answers are sound in content "
              "(FuseSound + outputs kept / FuseSoundM), whether an answer is a fresh node or `current` itself, mutated; the fresh-only model is "
              "proved to be an instance of the mutating one and the harness' callbacks (any accept / in-place choice) are proved sound; plus "
              "removeprefix vs lstrip-as-character-set with the decided witness main/mean. Tied to the real code by a per-transformation "
              "correspondence check on random adversarially named DAGs (result graphs with every node's inputs IN THE ORDER of its inputs dict, "
              "visiting orders of graph and sub-graphs, decidable domain of expand, outcome kinds un-collapsed: exception class against the "
              "model's Err constructor) and independent oracles (symbolic terms, numeric values, by-name wiring incl. inside "
              "sub-graphs, order of the inputs dict kept, traversal order, no dangling input / cycle).")
LEVEL_NOTE = ("modelled, not verified: graph/{nodes,graph,visit,transform,copy,rename,deduplicate,split,expand,fuse}.py. Object identity is "
              "modelled by indices into a node store; the object graph handed to the model is the node list in creation order (inputs refer to "
              "earlier entries - what Node(...) guarantees) and the model runs its own traversal; payload equality, CutEdge hashing (cut names), "
              "and the user callbacks (key, expander, fusion, splice overrides) are parameters. Restrictions: fusion callbacks are functions of "
              "the two nodes they are given that answer with a fresh node or with `current` mutated - answering with another existing node "
              "(e.g. the parent, mutated) or changing `parent` is not modelled (the store would no longer be topologically ordered); splice "
              "overrides answer with a fresh node of the given name whose inputs are (a renaming/selection of) what they are given; sub-graphs "
              "are values: after the fix 0e32f4b Splicer copies the sub-graph's nodes, so handing out one Graph object for several nodes is the "
              "same as fresh copies (exercised); copy_graph and, since the fix 6e7c613, deduplicate_nodes work on copies of the nodes, so 'the "
              "input graph denotes what it did' is demanded of copy and dedup; rename, split, expand (kept nodes) and fuse re-use and re-wire "
              "the INPUT graph's node objects in place (documented by the XXX comments) and nothing is demanded of the input there. Known model "
              "mismatch outside the domain of expand: asking for an output that does not exist makes the model stop with noOutput at the lookup, "
              "whereas the real __transform_output falls through getattr to a (node, output) tuple or to an attribute of the Node / _Subgraph "
              "and fails later or not at all; there the comparison accepts exactly model-noOutput against real ok / KeyError / AttributeError / "
              "BadGraph (the junk is never looked at / overtaken by a later Splicer.__init__ / handed to Node(...) / found when the result is "
              "read back), real TypeError only when the missing output is named like an attribute (the junk is a class or bound method), and "
              "model-keyError against real KeyError; every other pair, and ANY error inside the domain or in another transformation, is a "
              "mismatch; the domain flag is compared on every case. "
              "Not proved (checked by correspondence and oracle only, or not at all): custom Splitter.cut_edge overrides and other splicer "
              "factories; sub-graphs with duplicate node names or the same node twice in `sinks` (the model files the LAST sink of a name as the "
              "leaf, as the code does: other sinks of that name are then not sinks of the result; generated at a low rate, compared by the tie, "
              "the oracle demanding only that no foreign sink appears); the ORDER of a node's inputs dict is not part of the denotation "
              "(inputs are named) and no theorem speaks about it - the model's input lists define it, the tie compares it and the oracle demands "
              "that copy, rename, join, dedup, split and expand keep it (fuse_nodes offers the inputs to its callback in that order); "
              "Node.copy's own order of the inputs is unobservable (every caller overwrites `.inputs`); inner sinks of an expanded node that is not itself a sink are not sinks of the result (modelled as "
              "the code does it, nothing is claimed about them); fluent.Node graphs are run (both tiers: copy, rename, dedup) but "
              "fluent.Node.copy rebuilding from constructor arguments is not modelled beyond that; the expand value theorem needs the semantic "
              "premise ExpandSound, which is not decidable in general.")
TECHNIQUE = "Lean 4 proof by induction over the topological order of the graph (simulation invariant of the generic Transformer fold; closed form of the splice; potential argument for the traversal loop) + differential correspondence with the real transforms + symbolic-term / numeric / by-name wiring / traversal-order oracles"
LEAN_PROPS = ["EkwVerif.Props.C11"]
LEAN_DRIVERS = ["C11"]
RULE = ("corpus of minimised past failures first, then random DAGs (1..9 nodes quick, ..14 thorough; a few more with a collision cluster): shared sub-expressions, multi-output nodes (up to 6 outputs; output lists that are "
        "permutations of each other), 10% of the freshly drawn nodes with 4-6 inputs, exact duplicates incl. permuted input "
        "order, twins that differ ONLY in the order of their outputs, and near-duplicates (of wide nodes: one of the 4-6 inputs re-pointed), several sinks incl. non-terminal ones and (6%) the same node twice in Graph.sinks, adversarial names (prefixes/character overlap with parents, "
        "dots, digits, output names equal to Node attributes, input names equal to callback parameter names), node names BUILT FROM other "
        "nodes' names, output names and input names (<node>.<output>, <node>.0, several dots, a dotted name's prefix that declares the "
        "rest as an output, names equal to output / input names, equal names of different nodes), name-collision clusters (one dotted "
        "string split in several ways into node name + output name, so that str(Output) / '<node>.<output>' of different outputs "
        "coincide) with equal-payload, equal-outputs, equal-input-name consumers on the colliding outputs, and twins of existing nodes "
        "re-pointed to outputs that render alike; 55% of the graphs (45% of the sub-graphs) are LISTED (= their node objects created) in a "
        "random topological order that is not the order in which the traversal finishes nodes; 1.5% (quick) / 12% (thorough) of the copy/rename/dedup "
        "graphs are built from fluent.Node objects; dedup also with custom predicates (payload+name, payload+name length); split keys also "
        "by role (colliding producers in one part, consumers in others) and as equal keys of different Python types (1 / 1.0 / True); "
        "join: 1-3 graphs under adversarial namespaces; "
        "expand: sub-graph node names (sources, inner nodes, leaves, extra sinks) from one pool with the expanded node's input names, "
        "output names, own name, the outer graph's node names and <node>.<x> forms; input map None / explicit full / partial / empty / "
        "two sources on one input, independent sources outside the map (also named like an input of the node); output map None / "
        "explicit / partial / shared leaf / keys that are no outputs / values None; 30%: ONE sub-graph object handed out for several nodes; "
        "40%: a Splicer subclass overriding splice_source / splice_sink (extra output + wrapped payload + input connected twice / renamed "
        "inputs; only the first input kept); sub-graph nodes with 3-5 inputs (15%); expander answers bare Graph, 3-tuple, Graph([]) (3%), a sub-graph with two nodes of one name "
        "(4%) or the same node twice in its sinks (4%), and (outside the documented domain; outcome kind compared with the ValueError of the "
        "unpacking) 1-/2-tuples; fuse: callback answers fresh nodes, `current` mutated in place, or a mix chosen per parent; one case = one "
        "transformation (copy, rename, dedup, split, expand, fuse, join) of one DAG with random parameters. non-trivial = the DAG has >= 3 nodes "
        "and a shared sub-expression, a multi-output node or several sinks; distinct by content hash of (transformation, DAG, parameters)")
ASSUMPTIONS = [
    "graphs are built with Node(...)/get_output (inputs refer to declared outputs of existing nodes, acyclic); input names name/outputs/payload/self are rejected by Node(...) itself and are outside the domain",
    "the node list given to the model is the creation order of the node objects; the order in which Transformer.transform finishes nodes is computed by the model (travLoop) and compared with the observed one, for the graph and for every sub-graph",
    "split and expand cases use graphs with unique node names (CutEdge and the expander identify nodes by name; Splicer files leaves by name); sub-graphs have unique node names except for the 4% generated with two nodes of one name, where the oracle's by-name clauses skip the shared names and, if a selected leaf name is shared by several sinks, only inclusion of the sink terms/values is demanded; cut names (hash based) are treated as injective and compared through the reported cut edges",
    "payloads are compared with == only (same_payload); the harness uses payload values for which == is an equivalence; custom dedup predicates are reflexive and imply equal payloads",
    "an expander answers None, a Graph or a 3-tuple (graph, input map | None, output map | None) as documented; maps that select a leaf or an input that does not exist (outside the model's decidable domain expandOK, which is compared with the harness' own notion on every case) are generated and their outcome kinds compared pair by pair (exception class / model Err constructor, table at outcome_mismatch), but the oracle demands nothing of them; 1-/2-tuples must end in the ValueError of the unpacking (or in an out-of-domain stop before it)",
    "fusion callbacks and splice overrides are functions of their arguments that answer with a fresh node or (fusion) with `current` mutated; they do not touch other nodes",
]

TRANSFORMS = ["copy", "rename", "dedup", "split", "expand", "fuse", "join"]


# ----------------------------------------------------------------------------- real side + oracle

def _exc(e):
    return type(e).__name__


ORDER_WHAT = ("the ORDER of a node's `inputs` dict is not the order the input graph's node has (the order is observable: "
              "fuse_nodes offers the inputs to its callback in that order, and serialise/iteration follow it)")


def _fail(kind, what):
    return {"kind": kind, "what": what}



# ----------------------------------------------------------------------------- result is a graph / values

def _assert_acyclic(sinks):
    """Raise L.BadGraph if the object graph hanging off `sinks` has a cycle (extract would not return)."""
    WHITE, GREY, BLACK = 0, 1, 2
    colour = {}
    keep = []
    for s0 in sinks:
        stack = [(s0, iter(list(getattr(s0, "inputs", {}).values()) if isinstance(getattr(s0, "inputs", None), dict) else []))]
        if colour.get(id(s0), WHITE) != WHITE:
            continue
        colour[id(s0)] = GREY
        keep.append(s0)
        while stack:
            n, it = stack[-1]
            nxt = next(it, None)
            if nxt is None:
                colour[id(n)] = BLACK
                stack.pop()
                continue
            p = getattr(nxt, "parent", None)
            if p is None:
                continue
            c = colour.get(id(p), WHITE)
            if c == GREY:
                raise L.BadGraph(f"cycle through {getattr(p, 'name', '?')!r}")
            if c == WHITE:
                colour[id(p)] = GREY
                keep.append(p)
                ins = getattr(p, "inputs", None)
                stack.append((p, iter(list(ins.values()) if isinstance(ins, dict) else [])))


def _fl0(*a, **k):
    return ("f0", a)


def _fl1(*a, **k):
    return ("f1", a)


def _fl2(*a, **k):
    return ("f2", a)


def _fl3(*a, **k):
    return ("f3", a)


def _fl4(*a, **k):
    return ("f4", a)


FLUENT_FUNCS = [_fl0, _fl1, _fl2, _fl3, _fl4]


def _pid(v):
    """payload value -> payload id, also for the payload tuples (func, args, kwargs) of fluent.Node objects"""
    if isinstance(v, tuple) and len(v) == 3 and callable(v[0]) and v[0] in FLUENT_FUNCS:
        return FLUENT_FUNCS.index(v[0])
    return L.payload_id(v)


def build_fluent(ag):
    """AG (inputs named input0.., outputs "0".."k-1", a `base` name per node) -> graph of earthkit.workflows.fluent.Node
    objects: a Node subclass whose `copy()` is overridden and rebuilds the node from its constructor arguments."""
    from earthkit.workflows.graph import Graph
    from earthkit.workflows.fluent import Node as FluentNode
    objs = []
    for n in ag["nodes"]:
        ins = [objs[j].get_output(o) for _, j, o in n["inputs"]]
        objs.append(FluentNode(FLUENT_FUNCS[n["payload"] % len(FLUENT_FUNCS)], ins, num_outputs=len(n["outputs"]), name=n["base"]))
    return Graph([objs[i] for i in ag["sinks"]]), objs


def fluent_ag(rng, nmax):
    """A random AG in the shape fluent.Node allows, with the names the constructor really gives (`base:hash`)."""
    ag = L.gen_graph(rng, nmax, adversarial=False, unique_names=rng.random() < 0.7)
    nodes = []
    for n in ag["nodes"]:
        k = len(n["outputs"])
        nodes.append({"base": n["name"], "name": n["name"], "payload": n["payload"] % len(FLUENT_FUNCS),
                      "outputs": [str(i) for i in range(k)],
                      "inputs": [["input%d" % i, j, str(ag["nodes"][j]["outputs"].index(o))] for i, (_, j, o) in enumerate(n["inputs"])]})
    shaped = {"nodes": nodes, "sinks": list(ag["sinks"])}
    g, objs = build_fluent(shaped)
    for n, o in zip(nodes, objs):
        n["name"] = o.name
    return shaped


def _extract(sinks):
    _assert_acyclic(sinks)
    return L.extract(sinks, pid=_pid)


def graph_fails(res, what):
    """Oracle clause (all transformations): the result is a graph — every input is connected to an output its
    parent DECLARES (no dangling input; acyclicity is checked before extraction)."""
    for n in res["nodes"]:
        for k, j, o in n["inputs"]:
            if o not in res["nodes"][j]["outputs"]:
                return [_fail("dangling-input", f"{what}: input {k!r} of {n['name']!r} is connected to output {o!r} "
                              f"which {res['nodes'][j]['name']!r} does not declare")]
    return []


_P = (1 << 61) - 1


def _h(*xs):
    import hashlib
    return int.from_bytes(hashlib.blake2b(repr(xs).encode(), digest_size=8).digest(), "big") % _P


def num_val(payload, ins, o):
    """A concrete interpretation of the payloads into numbers: value at output `o` (None = the node itself)
    from the values at the inputs {input name: number}."""
    return _h("V", L.hp(payload), o, tuple(sorted(ins.items())))


def num_graph(ag):
    """Values of an AG under num_val: per node {output: value} (+ None for the node as a whole)."""
    vals = []
    for n in ag["nodes"]:
        ins = {k: vals[j][o] for k, j, o in n["inputs"]}
        vals.append({o: num_val(n["payload"], ins, o) for o in list(n["outputs"]) + [None]})
    return vals


def relist(rng, ag):
    """The same AG with its nodes listed in another (random) topological order: the order of the Node(...) calls,
    which is NOT the order in which Transformer.transform finishes nodes."""
    nodes = ag["nodes"]
    n = len(nodes)
    placed = []
    pos = {}
    left = set(range(n))
    while left:
        ready = sorted(i for i in left if all(j in pos for _, j, _ in nodes[i]["inputs"]))
        i = rng.choice(ready)
        pos[i] = len(placed)
        placed.append(i)
        left.discard(i)
    return {"nodes": [dict(nodes[i], inputs=[[k, pos[j], o] for k, j, o in nodes[i]["inputs"]]) for i in placed],
            "sinks": [pos[s_] for s_ in ag["sinks"]]}


def real_copy(case):
    from earthkit.workflows.graph import copy_graph
    g, objs = _build_input(case["g"])
    before = L.Sym(_pid).sinks(g)
    before_o = L.Sym(_pid, ordered=True).sinks(g)
    try:
        c = copy_graph(g)
        res = _extract(c.sinks)
    except Exception as e:
        return {"err": _exc(e)}, [_fail("raises", f"copy_graph raised {_exc(e)}: {e}")]
    fails = graph_fails(res, "copy")
    after = L.Sym(_pid).sinks(c)
    if after != before:
        fails.append(_fail("sink-terms-changed", "a sink of the copy denotes a different term than the corresponding sink of the input"))
    if L.Sym(_pid).sinks(g) != before:
        fails.append(_fail("input-changed", "copy_graph changed what the input graph's sinks denote"))
    if after == before and L.Sym(_pid, ordered=True).sinks(c) != before_o:
        fails.append(_fail("input-order-changed", "copy: " + ORDER_WHAT))
    return {"ok": res}, fails


def _rename_fn(case):
    table = dict(map(tuple, case.get("table", [])))
    pre = case.get("prefix", "")
    return lambda s: table[s] if s in table else pre + s


def real_rename(case):
    from earthkit.workflows.graph import rename_nodes
    g, objs = _build_input(case["g"])
    before = L.Sym(_pid).sinks(g)
    before_o = L.Sym(_pid, ordered=True).sinks(g)
    try:
        r = rename_nodes(_rename_fn(case), g)
        res = _extract(r.sinks)
    except Exception as e:
        return {"err": _exc(e)}, [_fail("raises", f"rename_nodes raised {_exc(e)}: {e}")]
    fails = graph_fails(res, "rename")
    if L.Sym(_pid).sinks(r) != before:
        fails.append(_fail("sink-terms-changed", "a sink of the renamed graph denotes a different term than the corresponding sink of the input"))
    elif L.Sym(_pid, ordered=True).sinks(r) != before_o:
        fails.append(_fail("input-order-changed", "rename: " + ORDER_WHAT))
    fn = _rename_fn(case)
    if sorted(n["name"] for n in res["nodes"]) != sorted(fn(n["name"]) for n in case["g"]["nodes"]):
        fails.append(_fail("rename-names", "the nodes of the result are not named func(name) for the nodes of the input"))
    return {"ok": res}, fails


def _dup_key(n):
    return (L.hp(_pid(n.payload)), tuple(n.outputs), tuple(sorted((k, id(s.parent), s.name) for k, s in n.inputs.items())))


DEDUP_PREDS = {
    # custom predicates (reflexive, imply equal payloads: the hypotheses of c11_dedup_den / c11_dedup_idem)
    "payload+name": lambda a, b: a.payload == b.payload and a.name == b.name,
    "payload+name-length": lambda a, b: a.payload == b.payload and len(a.name) == len(b.name),
}


def real_dedup(case):
    from earthkit.workflows.graph import deduplicate_nodes
    g, objs = _build_input(case["g"])
    before = L.Sym(_pid).sinks(g)
    pred = DEDUP_PREDS.get(case.get("pred"))
    dedup = (lambda gr: deduplicate_nodes(gr)) if pred is None else (lambda gr: deduplicate_nodes(gr, pred))
    extra = {None: lambda n: (), "payload+name": lambda n: (n.name,), "payload+name-length": lambda n: (len(n.name),)}[case.get("pred")]
    shapes_before = {(L.hp(_pid(n.payload)), tuple(n.outputs), tuple(n.inputs)) for n in objs}
    try:
        d = dedup(g)
        res = _extract(d.sinks)
    except Exception as e:
        return {"err": _exc(e)}, [_fail("raises", f"deduplicate_nodes raised {_exc(e)}: {e}")]
    fails = graph_fails(res, "dedup")
    if set(L.Sym(_pid).sinks(d)) != set(before):
        fails.append(_fail("sink-terms-changed", "the set of sink terms after de-duplication differs from the input's"))
    if L.Sym(_pid).sinks(g) != before:
        fails.append(_fail("input-changed", "deduplicate_nodes changed what the input graph's sinks denote (it works on copies since the fix 6e7c613)"))
    nodes = list(d.nodes())
    if not fails and any((L.hp(_pid(n.payload)), tuple(n.outputs), tuple(n.inputs)) not in shapes_before for n in nodes):
        # every node of the result is (a copy of) a node of the input re-wired: its payload, outputs and SEQUENCE of input names are that node's
        fails.append(_fail("input-order-changed", "dedup: " + ORDER_WHAT))
    keys = collections.Counter(_dup_key(n) + extra(n) for n in nodes)
    if any(v > 1 for v in keys.values()):
        fails.append(_fail("dedup-not-unique", "two result nodes have equal payload, outputs and inputs (and are equal under the predicate)"))
    try:
        c1 = L.canon(res, sort_sinks=True)
        g2, _ = L.build(res)
        d2 = dedup(g2)
        c2 = L.canon(_extract(d2.sinks), sort_sinks=True)
        if c1 != c2:
            fails.append(_fail("dedup-not-idempotent", "de-duplicating the result again changes it"))
    except Exception as e:
        fails.append(_fail("dedup-not-idempotent", f"second de-duplication raised {_exc(e)}: {e}"))
    return {"ok": res}, fails


def cut_canon_name(c):
    """Canonical (hash-free) name for the sink/source pair of a cut edge."""
    return "__cut|%s|%s|%s|%s|%s|%s__" % (c[0], c[1], c[2], c[3], c[4], c[5])


_KEY_TYPES = {"int": int, "float": float, "bool": bool}


def _key_num(k):
    """A key reported by split_graph -> the number it is, WITHOUT converting: only int / float / bool values that are
    integral are keys the harness' key functions return (1, 1.0, True are one key for ==, hash and dict lookup; "1",
    Decimal(1), numpy scalars or a tuple are not something a key function of the harness returned)."""
    if type(k) not in (int, float, bool) or k != int(k):
        raise L.BadGraph(f"split reports the key {k!r} of type {type(k).__name__}: not a value the key function returned")
    return int(k)


def _key_fn(case):
    """The key function: by node name.  case["keytypes"] makes it answer with equal keys of DIFFERENT Python types
    (1, 1.0, True are one key for `==`, hash and dict lookup; the model's keys are numbers)."""
    table = dict(map(tuple, case.get("keys", [])))
    types = dict(map(tuple, case.get("keytypes", [])))
    dflt = case.get("default", 0)
    return lambda n: _KEY_TYPES[types.get(n.name, "int")](table.get(n.name, dflt))


def real_split(case):
    from earthkit.workflows.graph import split_graph
    ag = case["g"]
    g, objs = _build_input(ag)
    key = _key_fn(case)
    try:
        parts, cuts = split_graph(key, g)
        cutt = [(_key_num(c.source_key), c.source_node, c.source_output, _key_num(c.dest_key), c.dest_node, c.dest_input) for c in cuts]
        ren = {c.name: cut_canon_name(t) for c, t in zip(cuts, cutt)}
        res_parts = {}
        for k, pg in parts.items():
            a = _extract(pg.sinks)
            for n in a["nodes"]:
                n["name"] = ren.get(n["name"], n["name"])
            if _key_num(k) in res_parts:
                raise L.BadGraph(f"two parts have equal keys {k!r}")
            res_parts[_key_num(k)] = a
    except Exception as e:
        return {"err": _exc(e)}, [_fail("raises", f"split_graph raised {_exc(e)}: {e}")]
    fails = [f for k, a in res_parts.items() for f in graph_fails(a, f"split part {k}")][:1]
    # --- oracle: the keys the result reports ARE the values the key function returned (same Python type, not a
    # conversion of them): a cut edge carries the key of its source node and of its destination node
    ktypes = dict(map(tuple, case.get("keytypes", [])))
    if len({n["name"] for n in ag["nodes"]}) == len(ag["nodes"]):
        for c in cuts:
            for kv, nm, side in ((c.source_key, c.source_node, "source"), (c.dest_key, c.dest_node, "destination")):
                if type(kv).__name__ != ktypes.get(nm, "int"):
                    fails.append(_fail("split-key-type", f"cut edge {c.source_node!r}->{c.dest_node!r}: the {side} key is {kv!r} "
                                       f"({type(kv).__name__}), the key function returned a {ktypes.get(nm, 'int')} for {nm!r}"))
                    break
            if fails:
                break
    # --- oracle (property text): every node in exactly one part, the part of its key
    tab = dict(map(tuple, case.get("keys", [])))
    dflt = case.get("default", 0)
    cutnames = set(ren.values())
    where = collections.defaultdict(list)
    for k, a in res_parts.items():
        for n in a["nodes"]:
            if n["name"] not in cutnames:
                where[n["name"]].append(k)
    for n in ag["nodes"]:
        ks = where.get(n["name"], [])
        want = tab.get(n["name"], dflt)
        if len(ks) != 1:
            fails.append(_fail("split-not-partition", f"node {n['name']!r} occurs in parts {ks} (exactly one expected)"))
            break
        if ks[0] != want:
            fails.append(_fail("split-wrong-part", f"node {n['name']!r} with key {want} is in part {ks[0]}"))
            break
    if not fails:
        seqs = {n["name"]: [k for k, _, _ in n["inputs"]] for n in ag["nodes"]}
        for k, a in res_parts.items():
            for n in a["nodes"]:
                if n["name"] not in cutnames and [kk for kk, _, _ in n["inputs"]] != seqs.get(n["name"]):
                    fails.append(_fail("input-order-changed", f"split: node {n['name']!r} has the inputs {[kk for kk, _, _ in n['inputs']]}, the input graph's node has "
                                       f"{seqs.get(n['name'])}: " + ORDER_WHAT))
                    break
            if fails:
                break
    extra = set(where) - {n["name"] for n in ag["nodes"]}
    if extra:
        fails.append(_fail("split-not-partition", f"parts contain nodes that are not in the input: {sorted(extra)}"))
    # --- oracle: re-join along the reported cut edges
    if not fails:
        rj = _rejoin(res_parts, cutt)
        if isinstance(rj, str):
            fails.append(_fail("split-rejoin", rj))
        else:
            want = _by_name(ag)
            if rj != want:
                fails.append(_fail("split-rejoin", "re-joining the parts along the reported cut edges does not give back the input graph"))
    return {"ok": {"parts": sorted([k, a] for k, a in res_parts.items()), "cuts": sorted(cutt)}}, fails


def _by_name(ag):
    """Name-keyed structure of an AG with unique names (+ multiset of sink names)."""
    nodes = ag["nodes"]
    return ({n["name"]: (n["payload"], tuple(n["outputs"]), tuple(sorted((k, nodes[j]["name"], o) for k, j, o in n["inputs"]))) for n in nodes},
            sorted(nodes[s]["name"] for s in ag["sinks"]))


def _rejoin(parts, cuts):
    """Re-join split parts along the cut edges; returns the name-keyed structure or an error string."""
    cutname = {cut_canon_name(c): c for c in cuts}
    if len(cutname) != len(cuts):
        return "two reported cut edges are identical"
    nodes = {}
    sinks = []
    src_seen = collections.Counter()
    snk_seen = collections.Counter()
    for k, a in parts.items():
        for i, n in enumerate(a["nodes"]):
            if n["name"] in cutname:
                c = cutname[n["name"]]
                if n["inputs"]:      # the sink half: lives in the source part, fed by the cut's source
                    snk_seen[n["name"]] += 1
                    if k != c[0] or n["outputs"] or len(n["inputs"]) != 1:
                        return f"cut sink {n['name']} malformed or in part {k}"
                    _, j, o = n["inputs"][0]
                    if (a["nodes"][j]["name"], o) != (c[1], c[2]):
                        return f"cut sink of {c} is fed by {(a['nodes'][j]['name'], o)}"
                    if i not in a["sinks"]:
                        return f"cut sink of {c} is not a sink of part {k}"
                else:
                    src_seen[n["name"]] += 1
                    if k != c[3]:
                        return f"cut source of {c} is in part {k}"
                continue
            ins = []
            for kk, j, o in n["inputs"]:
                pn = a["nodes"][j]["name"]
                if pn in cutname:
                    c = cutname[pn]
                    if (c[4], c[5]) != (n["name"], kk) or o != "0":
                        return f"input {kk!r} of {n['name']!r} is connected to the source of cut {c}"
                    ins.append((kk, c[1], c[2]))
                else:
                    ins.append((kk, pn, o))
            if n["name"] in nodes:
                return f"node {n['name']!r} twice"
            nodes[n["name"]] = (n["payload"], tuple(n["outputs"]), tuple(sorted(ins)))
        for s in a["sinks"]:
            if a["nodes"][s]["name"] not in cutname:
                sinks.append(a["nodes"][s]["name"])
    for name in cutname:
        if src_seen[name] != 1 or snk_seen[name] != 1:
            return f"cut {cutname[name]}: {snk_seen[name]} sink halves, {src_seen[name]} source halves"
    return nodes, sorted(sinks)


# ----------------------------------------------------------------------------- Splicer subclasses (splice_source / splice_sink overridden)

def _wrap(v, d):
    """payload value -> the wrapped payload value (ids shifted by d; only the atoms used in sub-graphs)"""
    return L.payload_value(L.payload_id(v) + d)


_SPLICER_CLASSES = {}


def splicer_factory(kind):
    """The real `splicer=` argument of expand_graph for case["splicer"] (mirrored by tapSplice / firstSplice in Model/Graph.lean
    and by SPLICE_HOOKS below for the oracle)."""
    from earthkit.workflows.graph import Node
    from earthkit.workflows.graph.expand import Splicer
    if kind in (None, "default"):
        return Splicer
    if kind not in _SPLICER_CLASSES:
        class TapSplicer(Splicer):
            def splice_source(self, name, s, input):
                outs = list(s.outputs) if "tap" in s.outputs else list(s.outputs) + ["tap"]
                return Node(name, outs, _wrap(s.payload, 1000), src=input, ctl=input)

            def splice_sink(self, name, s, /, **inputs):
                return Node(name, ["0", "aux"], _wrap(s.payload, 2000), **{k + "_": v for k, v in inputs.items()})

        class FirstSplicer(Splicer):
            def splice_sink(self, name, s, /, **inputs):
                first = dict(list(inputs.items())[:1])
                return Node(name, outputs=None, payload=s.payload, **first)

        _SPLICER_CLASSES.update(tap=TapSplicer, first=FirstSplicer)
    return _SPLICER_CLASSES[kind]


# what the overrides build, on AG nodes: src(m) -> (outputs, payload, input names all connected to `input`);
# snk(m, given input names) -> (outputs, payload, None = inputs as given | [(new name, given name)])
SPLICE_HOOKS = {
    "default": {"src": lambda m: (list(m["outputs"]), m["payload"], ["input"]),
                "snk": lambda m, keys: (["0"], m["payload"], None)},
    "tap": {"src": lambda m: (list(m["outputs"]) if "tap" in m["outputs"] else list(m["outputs"]) + ["tap"], m["payload"] + 1000, ["src", "ctl"]),
            "snk": lambda m, keys: (["0", "aux"], m["payload"] + 2000, [(k + "_", k) for k in keys])},
    "first": {"src": lambda m: (list(m["outputs"]), m["payload"], ["input"]),
              "snk": lambda m, keys: (["0"], m["payload"], [(k, k) for k in keys[:1]])},
}


class Invalid(Exception):
    """The expander's answer selects something that does not exist (no meaning is defined)."""


def expected_expand(ag, table, splicer="default"):
    """Reference semantics of expansion, from the documentation of expand_graph: sorted sink terms of the
    expanded graph + the wiring of every consumer of an expanded node [(consumer, input, parent name)]."""
    nodes = ag["nodes"]
    T = L.INTERN
    memo_n, memo_s = {}, {}
    hooks = SPLICE_HOOKS[splicer or "default"]

    def spliced(j, q):
        """(payload, outputs, [(input name, ("edge", outer j, o) | ("sub", sub-graph node, o))]) of sub-graph node q of the
        sub-graph that replaces outer node j, as the splicer builds it"""
        m = table[nodes[j]["name"]]["sub"]["nodes"][q]
        if not m["inputs"]:
            src = src_input(j, m["name"])
            if src is None:
                return m["payload"], list(m["outputs"]), []
            outs, pay, keys = hooks["src"](m)
            return pay, outs, [(k, ("edge",) + tuple(src)) for k in keys]
        inner = [(k, ("sub", jj, o)) for k, jj, o in m["inputs"]]
        if not m["outputs"] and m["name"] in leaf_names(j):
            outs, pay, sel = hooks["snk"](m, [k for k, _, _ in m["inputs"]])
            if sel is not None:
                d = dict(inner)
                inner = [(new, d[old]) for new, old in sel if old in d]
            return pay, outs, inner
        return m["payload"], list(m["outputs"]), inner

    def leaf_of(j, o):
        e = table[nodes[j]["name"]]
        omap = dict(map(tuple, e["omap"])) if e["omap"] is not None else None
        lname = o if omap is None else omap.get(o, o)
        sub = e["sub"]
        cands = [q for q in sub["sinks"] if sub["nodes"][q]["name"] == lname]
        if not cands:
            raise Invalid(f"output {o!r} of {nodes[j]['name']!r} selects sink {lname!r} which the sub-graph does not have")
        return lname, cands[-1]

    def leaf_names(j):
        e = table[nodes[j]["name"]]
        omap = dict(map(tuple, e["omap"])) if e["omap"] is not None else None
        return {(o if omap is None else omap.get(o, o)) for o in nodes[j]["outputs"]}

    def out_term(j, o):
        if nodes[j]["name"] not in table:
            return (o, node_term(j))
        lname, q = leaf_of(j, o)
        outs = sub_outputs(j, q)
        if "0" not in outs:
            raise Invalid(f"leaf {lname!r} has no default output")
        return ("0", sub_term(j, q))

    def node_term(i):
        if i not in memo_n:
            n = nodes[i]
            memo_n[i] = T(("T", n["payload"], tuple(n["outputs"]),
                           tuple(sorted((k,) + out_term(j, o) for k, j, o in n["inputs"]))))
        return memo_n[i]

    def src_input(j, m):
        """The input of outer node j a source named m of its sub-graph is connected to (or None)."""
        e = table[nodes[j]["name"]]
        ins = {k: (jj, o) for k, jj, o in nodes[j]["inputs"]}
        if e["imap"] is None:
            return ins.get(m)
        imap = dict(map(tuple, e["imap"]))
        for src, iname in imap.items():
            if iname not in ins:
                raise Invalid(f"input map of {nodes[j]['name']!r} names input {iname!r} which the node does not have")
        if m in imap:
            return ins[imap[m]]
        return None

    def sub_outputs(j, q):
        return list(spliced(j, q)[1])

    def sub_term(j, q):
        if (j, q) not in memo_s:
            pay, outs, conn = spliced(j, q)
            ins = tuple(sorted(((k,) + out_term(c[1], c[2])) if c[0] == "edge" else (k, c[2], sub_term(j, c[1])) for k, c in conn))
            memo_s[(j, q)] = T(("T", pay, tuple(outs), ins))
        return memo_s[(j, q)]

    sinks = []
    for s in ag["sinks"]:
        if nodes[s]["name"] in table:
            src_input(s, "")     # validates the input map
            sinks += [sub_term(s, q) for q in table[nodes[s]["name"]]["sub"]["sinks"]]
        else:
            sinks.append(node_term(s))
    wiring = []
    for i, n in enumerate(nodes):
        if n["name"] in table:
            src_input(i, "")
            for k, j, o in n["inputs"]:
                out_term(j, o)        # validity: every input edge must select something, used or not
            for q in range(len(table[n["name"]]["sub"]["nodes"])):
                sub_term(i, q)
            continue
        node_term(i)
        for k, j, o in n["inputs"]:
            if nodes[j]["name"] in table:
                lname, _ = leaf_of(j, o)
                wiring.append((n["name"], k, nodes[j]["name"] + "." + lname, "0"))

    # --- the same meaning in NUMBERS (interpretation num_val): an expanded node's output carries what the default
    # output of the selected leaf computes when the sub-graph's mapped sources are fed from the node's inputs
    nmemo_n, nmemo_s = {}, {}

    def out_num(j, o):
        if nodes[j]["name"] not in table:
            return node_num(j)[o]
        _, q = leaf_of(j, o)
        return sub_num(j, q)["0"]

    def node_num(i):
        if i not in nmemo_n:
            n = nodes[i]
            ins = {k: out_num(j, o) for k, j, o in n["inputs"]}
            nmemo_n[i] = {o: num_val(n["payload"], ins, o) for o in list(n["outputs"]) + [None]}
        return nmemo_n[i]

    def sub_num(j, q):
        if (j, q) not in nmemo_s:
            pay, outs, conn = spliced(j, q)
            ins = {k: (out_num(c[1], c[2]) if c[0] == "edge" else sub_num(j, c[1])[c[2]]) for k, c in conn}
            nmemo_s[(j, q)] = {o: num_val(pay, ins, o) for o in list(outs) + [None]}
        return nmemo_s[(j, q)]

    nums = []
    for s in ag["sinks"]:
        if nodes[s]["name"] in table:
            nums += [sub_num(s, q)[None] for q in table[nodes[s]["name"]]["sub"]["sinks"]]
        else:
            nums.append(node_num(s)[None])

    # --- the wiring INSIDE every spliced sub-graph, by name (documentation of expand_graph / Splicer): prefixed
    # names, payloads kept, a mapped source becomes a processor whose single input `input` is the image of the
    # node's input, unmapped sources and sinks stay, a mapped sink gets the default output, inner edges stay
    def edge_image(j, o):
        if nodes[j]["name"] not in table:
            return (nodes[j]["name"], o)
        lname, _ = leaf_of(j, o)
        return (nodes[j]["name"] + "." + lname, "0")

    inner = {}
    ambiguous = set()        # `<node>.<sub-graph node>` strings that two different spliced nodes share: not identifiable by name
    for i, n in enumerate(nodes):
        if n["name"] not in table:
            continue
        sub = table[n["name"]]["sub"]
        for q, m in enumerate(sub["nodes"]):
            pay, outs, conn = spliced(i, q)
            want_ins = tuple(((k,) + edge_image(c[1], c[2])) if c[0] == "edge"
                             else (k, n["name"] + "." + sub["nodes"][c[1]]["name"], c[2]) for k, c in conn)     # in the ORDER of the inputs
            full = n["name"] + "." + m["name"]
            if full in inner:
                ambiguous.add(full)
            inner[full] = (L.hp(pay), tuple(outs), want_ins)
    for full in ambiguous:
        del inner[full]
    # an expanded SINK whose sub-graph lists several sinks under one selected leaf name (two nodes of one name, or one node
    # twice in `sinks`): the documentation ("connected to the corresponding transformed sink") does not say which one is
    # meant and Node names "should be unique within a graph"; the code files the LAST one as the leaf and the others are
    # not sinks of the result (modelled: spliceLeaves / dictSet, compared by the tie).  The oracle then demands only that
    # no foreign sink appears (set inclusion), not the multiset.
    amb_leaf = False
    for s in set(ag["sinks"]):
        if nodes[s]["name"] in table:
            sub = table[nodes[s]["name"]]["sub"]
            cnt = collections.Counter(sub["nodes"][q]["name"] for q in sub["sinks"])
            if any(cnt[ln] > 1 for ln in leaf_names(s)):
                amb_leaf = True
    return sorted(sinks), sorted(wiring), sorted(nums), inner, amb_leaf


def real_expand(case):
    from earthkit.workflows.graph import expand_graph
    ag = case["g"]
    table = {nm: e for nm, e in case["exp"]}
    g, objs = _build_input(ag)

    def ex(n):
        e = table.get(n.name)
        if e is None:
            return None
        if e.get("share") is not None:
            # the expander hands out ONE Graph object for several nodes (a cached template sub-graph)
            cache = _BUILT.setdefault("shared", {})
            key = (e["share"], json.dumps(e["sub"], sort_keys=True))
            if key not in cache:
                cache[key] = L.build(e["sub"])
            sg, sobjs = cache[key]
        else:
            sg, sobjs = L.build(e["sub"])
            _BUILT.setdefault("subs", {})[n.name] = sobjs
        if e["imap"] is None and e["omap"] is None and e.get("bare"):
            return sg
        if e.get("shape") == 1:
            return (sg,)
        if e.get("shape") == 2:
            return (sg, dict(map(tuple, e["imap"])) if e["imap"] is not None else None)
        return (sg, dict(map(tuple, e["imap"])) if e["imap"] is not None else None,
                dict(map(tuple, e["omap"])) if e["omap"] is not None else None)

    bad_shape = any(e.get("shape") in (1, 2) for nm, e in table.items() if any(n["name"] == nm for n in ag["nodes"]))
    try:
        if bad_shape:
            raise Invalid("the expander answers with a 1- or 2-tuple (documented: None, a Graph or a 3-tuple)")
        want = expected_expand(ag, table, case.get("splicer"))
    except Invalid as e:
        want = None
    dom = {"bad_shape": True} if bad_shape else {"domain": want is not None}     # compared with the model's decidable domain `expandOK`
    try:
        r = expand_graph(ex, g, splicer_factory(case.get("splicer")))
        res = _extract(r.sinks)
    except Exception as e:
        if want is None:
            return {"err": _exc(e), "msg": str(e)[:160], "invalid": not isinstance(e, KeyError), **dom}, []
        return {"err": _exc(e), "msg": str(e)[:160], **dom}, [_fail("raises", f"expand_graph raised {_exc(e)}: {e}")]
    if want is None:
        # meaningless expansion (selects a leaf / input that does not exist): whether the junk it produces is
        # ever looked at depends on the rest of the graph; outside the domain, nothing is compared
        return {"ok": res, "invalid": True, **dom}, []
    fails = []
    if want is not None:
        got = sorted(L.Sym(_pid).sinks(r))
        if (not set(got) <= set(want[0])) if want[4] else (got != want[0]):
            fails.append(_fail("sink-terms-changed", "the sinks of the expanded graph do not denote the sinks of the input with every "
                               "expanded node replaced by its sub-graph (leaf selected by the output map, sources connected per input map)"))
        names = [n["name"] for n in res["nodes"]]
        spliced = {nm + "." + m["name"] for nm, e in table.items() for m in e["sub"]["nodes"]}
        outer = {n["name"] for n in ag["nodes"]}
        # by-name clauses: a node is identified by its name, so exactly the names that two nodes of the result share, or that
        # are both an outer node's name and a `<node>.<sub-graph node>` string, are skipped - not the whole case
        ncount = collections.Counter(names)
        clash = {nm for nm, c_ in ncount.items() if c_ > 1} | (spliced & outer)
        if True:
            byname = {n["name"]: n for n in res["nodes"] if n["name"] not in clash}
            for cname, k, pname, o in want[1]:
                n = byname.get(cname)
                if n is None:
                    continue      # the consumer is not reachable from the result's sinks
                ok = any(kk == k and res["nodes"][j]["name"] == pname and oo == o for kk, j, oo in n["inputs"])
                if not ok:
                    fails.append(_fail("expand-miswired", f"input {k!r} of {cname!r} is not connected to the default output of leaf {pname!r}"))
                    break
            # the wiring inside the spliced sub-graphs
            for fname, (pay, outs, wins) in sorted(want[3].items()):
                n = byname.get(fname)
                if n is None:
                    continue      # not reachable from the result's sinks (e.g. an inner sink of a non-terminal expansion)
                got = (L.hp(n["payload"]), tuple(n["outputs"]), tuple((kk, res["nodes"][j]["name"], oo) for kk, j, oo in n["inputs"]))
                if (got[0], got[1], tuple(sorted(got[2]))) != (pay, outs, tuple(sorted(wins))):
                    fails.append(_fail("expand-inner-miswired", f"spliced node {fname!r} is (payload, outputs, inputs) = {got}, "
                                       f"the documented splice gives {(pay, outs, tuple(sorted(wins)))}"))
                    break
                if got[2] != tuple(wins):
                    fails.append(_fail("input-order-changed", f"expand: spliced node {fname!r} has its inputs in the order {[x[0] for x in got[2]]}, the sub-graph's "
                                       f"node (through the splice callbacks) has {[x[0] for x in wins]}: " + ORDER_WHAT))
                    break
            # kept nodes keep the order of their inputs
            if not fails:
                for n0 in ag["nodes"]:
                    n = byname.get(n0["name"])
                    if n0["name"] in table or n is None:
                        continue
                    if [kk for kk, _, _ in n["inputs"]] != [kk for kk, _, _ in n0["inputs"]]:
                        fails.append(_fail("input-order-changed", f"expand: kept node {n0['name']!r}: " + ORDER_WHAT))
                        break
        # values under a concrete interpretation of the payloads
        gf = graph_fails(res, "expand")
        fails += gf
        gotv = [] if gf else sorted(v[None] for v in (num_graph(res)[s_] for s_ in res["sinks"]))
        if not gf and ((not set(gotv) <= set(want[2])) if want[4] else (gotv != want[2])):
            fails.append(_fail("expand-values-changed", "under the interpretation num_val the sinks of the expanded graph do not compute "
                               "what the sinks of the input compute when every sub-graph denotes the node it replaces"))
        # names stay unique where the code can guarantee it: unique outer names without '.', unique names in each sub-graph
        if (len(outer) == len(ag["nodes"]) and not any("." in nm for nm in outer)
                and all(len({m["name"] for m in e["sub"]["nodes"]}) == len(e["sub"]["nodes"]) for e in table.values())
                and len(set(names)) != len(names)):
            fails.append(_fail("expand-names-not-unique", "two nodes of the expanded graph have the same name although the input's names "
                               "are unique and dot-free and each sub-graph's names are unique"))
    return {"ok": res, **dom,
            "stats": {"expand:wired_consumer_inputs": len(want[1]),
                      "expand:byname_oracle:" + ("some_names_clash_and_are_skipped" if clash else "all_names_identify_a_node"): 1,
                      "expand:expanded_sinks": sum(1 for s_ in ag["sinks"] if ag["nodes"][s_]["name"] in table),
                      "expand:expansions": len(table),
                      "expand:oracle:ambiguous_leaf_sinks_only_inclusion_demanded": int(want[4]),
                      "expand:spliced_nodes_checked": sum(1 for nm_ in want[3] if any(n["name"] == nm_ for n in res["nodes"])),
                      "expand:splicer:" + str(case.get("splicer") or "default"): 1}}, fails


def _accept_fn(case):
    mode = case.get("mode", "all")
    names = set(case.get("accept", []))

    def accept(parent, pout, cur, cin):
        if mode == "all":
            return True
        if mode == "table":
            return parent.name in names
        if mode == "linear":
            return (parent.is_processor() and cur.is_processor() and pout == "0" and len(parent.outputs) == 1
                    and len(cur.inputs) == 1)
        return False
    return accept


def inline_fuse(accept, inplace=lambda parent, pout, cur, cin: False):
    """The harness' fusion callback ("inline the parent"), mirrored by `inlineFuse` / `inlineFuseM` in Model/Graph.lean.
    Where `inplace(...)` holds the answer is `cur` ITSELF, mutated (name, payload, inputs), not a fresh node."""
    from earthkit.workflows.graph import Node

    def f(parent, pout, cur, cin):
        if not accept(parent, pout, cur, cin):
            return None
        if cin not in cur.inputs:
            return None
        kept = {k: v for k, v in cur.inputs.items() if k != cin}
        taken = {cin + "." + k: v for k, v in parent.inputs.items()}
        if any(k in kept for k in taken):
            return None
        payload = ("fuse", cur.payload, cin, parent.payload, pout, tuple(parent.inputs), tuple(parent.outputs))
        if inplace(parent, pout, cur, cin):
            cur.name = cur.name + "+" + parent.name
            cur.payload = payload
            cur.inputs = {**kept, **taken}
            return cur
        return Node(cur.name + "+" + parent.name, list(cur.outputs), payload, **kept, **taken)
    return f


def _inplace_fn(case):
    mode = case.get("inplace", "none")
    names = set(case.get("inplace_for", []))
    return lambda parent, pout, cur, cin: mode == "all" or (mode == "table" and parent.name in names)


def _pterm(p, env, outs):
    """Term of a payload applied to an input environment {input name: (output name, term)}: a fused payload is
    un-fused (the child applied to its inputs, the parent's result inlined at `cin`)."""
    if isinstance(p, tuple) and len(p) == 7 and p[0] == "fuse":
        _, cp, cin, pp, pout, pins, pouts = p
        pkeys = {cin + "." + k for k in pins}
        pt = _pterm(pp, {k: env[cin + "." + k] for k in pins}, tuple(pouts))
        cenv = {k: v for k, v in env.items() if k not in pkeys}
        cenv[cin] = (pout, pt)
        return _pterm(cp, cenv, outs)
    return L.INTERN(("T", L.hp(L.payload_id(p)), outs, tuple(sorted((k, o, t) for k, (o, t) in env.items()))))


def _fterm(n, memo, keep):
    t = memo.get(id(n))
    if t is None:
        env = {k: (src.name, _fterm(src.parent, memo, keep)) for k, src in n.inputs.items()}
        t = memo[id(n)] = _pterm(n.payload, env, tuple(n.outputs))
        keep.append(n)
    return t


def real_fuse(case):
    from earthkit.workflows.graph import fuse_nodes
    ag = case["g"]
    g, objs = _build_input(ag)
    before = L.Sym(_pid).sinks(g)
    cons = collections.Counter(j for n in ag["nodes"] for _, j, _ in n["inputs"])
    origin = {id(o): i for i, o in enumerate(objs)}
    inner = inline_fuse(_accept_fn(case), _inplace_fn(case))
    calls = []
    keep = []

    def cb(parent, pout, cur, cin):
        calls.append((origin.get(id(parent)), pout, origin.get(id(cur)), cin))
        r = inner(parent, pout, cur, cin)
        if r is not None:
            origin[id(r)] = origin.get(id(cur))
            keep.append(r)
        return r

    try:
        r = fuse_nodes(cb, g)
        res = _extract(r.sinks)
    except Exception as e:
        return {"err": _exc(e)}, [_fail("raises", f"fuse_nodes raised {_exc(e)}: {e}")]
    fails = graph_fails(res, "fuse")
    memo = {}
    try:
        after = [_fterm(s_, memo, keep) for s_ in r.sinks]
    except KeyError as e:
        after = None      # a fused node lacks an input its fused payload needs: it cannot denote the original term
        fails.append(_fail("sink-terms-changed", f"a fused node of the result lacks the input {e} its payload refers to"))
    if after is not None and after != before:
        fails.append(_fail("sink-terms-changed", "a sink of the fused graph (fused payloads un-fused) denotes a different term than the corresponding sink of the input"))
    for pi, pout, ci, cin in calls:
        if pi is None or cons[pi] != 1:
            fails.append(_fail("fuse-shared-parent", f"the fusion callback was offered a parent that has {cons.get(pi)} consuming edges (exactly one expected)"))
            break
    nf = sum(1 for n in res["nodes"] if isinstance(n["payload"], list))
    return {"ok": res, "stats": {"fuse:callback_calls": len(calls), "fuse:fused_nodes_in_result": nf}}, fails


def real_join(case):
    """join_namespaced(**{namespace: graph}) = reduce(Graph.__add__, rename_nodes(prefix) ...)"""
    from earthkit.workflows.graph import join_namespaced
    g, objs = _build_input(case["g"])
    graphs = {case["ns"]: g}
    others = []
    for ns, a in case.get("more", []):
        g2, o2 = L.build(a)
        others.append(o2)
        graphs[ns] = g2
    before = [t for gr in graphs.values() for t in L.Sym(_pid).sinks(gr)]
    before_o = [t for gr in graphs.values() for t in L.Sym(_pid, ordered=True).sinks(gr)]
    want_names = sorted(ns + "." + n["name"] for ns, a in [[case["ns"], case["g"]]] + case.get("more", []) for n in a["nodes"])
    try:
        r = join_namespaced(**graphs)
        res = _extract(r.sinks)
    except Exception as e:
        return {"err": _exc(e)}, [_fail("raises", f"join_namespaced raised {_exc(e)}: {e}")]
    fails = graph_fails(res, "join")
    if L.Sym(_pid).sinks(r) != before:
        fails.append(_fail("sink-terms-changed", "the sinks of the joined graph do not denote, in order, what the sinks of the operands denote"))
    elif L.Sym(_pid, ordered=True).sinks(r) != before_o:
        fails.append(_fail("input-order-changed", "join: " + ORDER_WHAT))
    if sorted(n["name"] for n in res["nodes"]) != want_names:
        fails.append(_fail("join-names", "the nodes of the joined graph are not named <namespace>.<name> for the nodes of the operands"))
    return {"ok": res}, fails


REAL = {"join": real_join, "fuse": real_fuse, "copy": real_copy, "rename": real_rename, "dedup": real_dedup, "split": real_split, "expand": real_expand}


_VISITED = []


def _install_recorder():
    """Record the order in which Transformer.transform finishes nodes (module global `node_visit` of
    graph/transform.py is wrapped; no hook in the repo). The model is given the nodes in that order."""
    import earthkit.workflows.graph.transform as T
    if getattr(T.node_visit, "_c11_recorder", False):
        return
    orig = T.node_visit

    def node_visit(impl, node, inputs):
        _VISITED.append(node)
        return orig(impl, node, inputs)
    node_visit._c11_recorder = True
    T.node_visit = node_visit


def traversal_fails(ag, seq, complete, what="graph"):
    """Oracle clause from the Transformer docstring ("the graph will be visited in topological order. A callback
    method will be called on each node"): every node is handed to the callbacks at most once, after all the nodes
    its inputs refer to; if the transformation returned, every node reachable from the sinks was."""
    nodes = ag["nodes"]
    seen = set()
    for i in seq:
        if i in seen:
            return [_fail("traversal-order", f"{what}: node {nodes[i]['name']!r} was handed to the callbacks twice")]
        for _, j, _ in nodes[i]["inputs"]:
            if j not in seen:
                return [_fail("traversal-order", f"{what}: node {nodes[i]['name']!r} was visited before its parent {nodes[j]['name']!r}")]
        seen.add(i)
    if complete:
        reach = set()
        stack = list(ag["sinks"])
        while stack:
            i = stack.pop()
            if i not in reach:
                reach.add(i)
                stack += [j for _, j, _ in nodes[i]["inputs"]]
        if reach - seen:
            return [_fail("traversal-order", f"{what}: reachable nodes {sorted(nodes[i]['name'] for i in reach - seen)} were never visited")]
    return []


def run_case(case):
    """Real code + oracle on one case. Never raises. Adds out["order"] = observed visiting order of the
    input graph's nodes (a permutation of range(n)) when the whole graph was visited."""
    try:
        _install_recorder()
        del _VISITED[:]
        n = len(case["g"]["nodes"])
        _BUILT.clear()
        out, fails = REAL[case["t"]](case)
        objs = _BUILT.get("objs")
        if objs is not None:
            idx = {id(o): i for i, o in enumerate(objs)}
            seq = [idx[id(o)] for o in _VISITED if id(o) in idx]
            order = list(dict.fromkeys(seq))
            if sorted(order) == list(range(n)):
                out["order"] = order
            fails = fails + traversal_fails(case["g"], seq, complete="ok" in out)
            subs = {}
            for nm, sobjs in _BUILT.get("subs", {}).items():
                sidx = {id(o): i for i, o in enumerate(sobjs)}
                sseq = [sidx[id(o)] for o in _VISITED if id(o) in sidx]
                e = next((e for a, e in case.get("exp", []) if a == nm), None)
                if e is not None:
                    if "ok" in out and not out.get("invalid"):
                        fails = fails + traversal_fails(e["sub"], sseq, complete=True, what=f"sub-graph of {nm!r}")
                    if sorted(sseq) == list(range(len(sobjs))):
                        subs[nm] = sseq
            if subs:
                out["suborders"] = subs
        del _VISITED[:]
        return out, fails
    except Exception as e:   # harness trouble is reported as a failure of the case, not a crash
        return {"err": "harness:" + _exc(e)}, [_fail("harness-error", f"{_exc(e)}: {e}")]


_BUILT = {}


def _build_input(ag):
    """Build the input graph of a case and remember its node objects (for the visiting order)."""
    g, objs = build_fluent(ag) if ag["nodes"] and all("base" in n for n in ag["nodes"]) else L.build(ag)
    _BUILT["objs"] = objs
    return g, objs


# ----------------------------------------------------------------------------- classification / shrinking

def classify(case):
    """Cause class of a (shrunk) failing case, from its input features only."""
    ag = case["g"]
    f = L.features(ag)
    if f["attr_output"]:
        return "attr-output"
    if f["param_input"]:
        return "param-input"
    if case["t"] == "expand":
        names = {n["name"]: n for n in ag["nodes"]}
        for nm, e in case.get("exp", []):
            sf = L.features(e["sub"])
            if sf["attr_output"]:
                return "attr-output"
            if sf["param_input"]:
                return "param-input"
        shared = collections.Counter((e["share"], json.dumps(e["sub"], sort_keys=True)) for nm, e in case.get("exp", [])
                                     if nm in names and e.get("share") is not None)
        if any(v > 1 for v in shared.values()):
            return "shared-subgraph"
        for nm, e in case.get("exp", []):
            if nm not in names:
                continue
            omap = dict(map(tuple, e["omap"])) if e["omap"] is not None else {}
            for o in names[nm]["outputs"]:
                ln = omap.get(o, o)
                if ln is not None and (nm + "." + ln).lstrip(nm + ".") != ln:      # where str.lstrip and str.removeprefix differ
                    return "lstrip"
        for s_ in ag["sinks"]:
            n = ag["nodes"][s_]
            if n["name"] in dict(map(tuple, ((a, 1) for a, _ in case.get("exp", [])))) and n["outputs"]:
                return "terminal-expansion"
    return "other"


def neighbors(case):
    for ag, change in L.ag_neighbors(case["g"]):
        try:
            ag = L.normalise(ag)
        except Exception:
            continue
        c = dict(case, g=ag)
        if change and change[0] == "rename-node":
            _, old, new = change
            if "keys" in c:
                c["keys"] = [[new if a == old else a, b] for a, b in c["keys"]]
            if "table" in c:
                c["table"] = [[new if a == old else a, b] for a, b in c["table"]]
            if "exp" in c:
                c["exp"] = [[new if a == old else a, e] for a, e in c["exp"]]
            if "accept" in c:
                c["accept"] = [new if a == old else a for a in c["accept"]]
            if "inplace_for" in c:
                c["inplace_for"] = [new if a == old else a for a in c["inplace_for"]]
        if change and change[0] == "rename-output" and "exp" in c:
            _, nm, old, new = change
            exp2 = []
            for a, e in c["exp"]:
                if a == nm:
                    outs_old = [o for n in case["g"]["nodes"] if n["name"] == nm for o in n["outputs"]]
                    om = dict(map(tuple, e["omap"])) if e["omap"] is not None else {}
                    full = {o: om.get(o, o) for o in outs_old}
                    e = dict(e, omap=[[new if o == old else o, l] for o, l in full.items()])
                exp2.append([a, e])
            c["exp"] = exp2
        yield c
    if case["t"] == "rename":
        if case.get("table"):
            yield dict(case, table=[])
        if case.get("prefix") not in ("r.",):
            yield dict(case, prefix="r.")
    if case["t"] == "expand":
        ex = case.get("exp", [])
        for i in range(len(ex)):
            yield dict(case, exp=ex[:i] + ex[i + 1:])
        for i, (nm, e) in enumerate(ex):
            for sub2, change in L.ag_neighbors(e["sub"]):
                e2 = dict(e, sub=sub2)
                if change and change[0] == "rename-node":
                    _, old, new = change
                    if e["imap"] is not None:
                        e2["imap"] = [[new if a == old else a, b] for a, b in e["imap"]]
                    elif any(k == old for n in case["g"]["nodes"] if n["name"] == nm for k, _, _ in n["inputs"]):
                        continue
                    if e["omap"] is not None:
                        e2["omap"] = [[a, new if b == old else b] for a, b in e["omap"]]
                    else:
                        outs = [o for n in case["g"]["nodes"] if n["name"] == nm for o in n["outputs"]]
                        e2["omap"] = [[o, new if o == old else o] for o in outs]
                yield dict(case, exp=ex[:i] + [[nm, e2]] + ex[i + 1:])
    if case["t"] == "fuse":
        ac = case.get("accept", [])
        for i in range(len(ac)):
            yield dict(case, accept=ac[:i] + ac[i + 1:])
        if case.get("mode") != "all":
            yield dict(case, mode="all")
    if case["t"] == "split":
        ks = case.get("keys", [])
        for i in range(len(ks)):
            yield dict(case, keys=ks[:i] + ks[i + 1:])


def shrink(case, kind, budget=600):
    cur = case
    tries = 0
    changed = True
    while changed and tries < budget:
        changed = False
        for cand in neighbors(cur):
            tries += 1
            if tries > budget:
                break
            _, fails = run_case(cand)
            if any(f["kind"] == kind for f in fails):
                cur = cand
                changed = True
                break
    return cur


# ----------------------------------------------------------------------------- generation

FLUENT_P = 0.0      # share of copy/rename/dedup cases on fluent.Node graphs; set by correspond(): importing
                    # earthkit.workflows.fluent (xarray, pandas) costs several seconds, so thorough tier only


def gen_case(rng, t, nmax, adversarial=True):
    unique = t in ("split", "expand") or rng.random() < (0.7 if t in ("dedup", "fuse") else 0.85)
    if t in ("copy", "rename", "dedup") and FLUENT_P > 0 and rng.random() < FLUENT_P:
        # a graph of fluent.Node objects (Node subclass with its own `copy`, names `base:hash`, inputs input0..)
        ag = fluent_ag(rng, nmax)
    else:
        ag = L.gen_graph(rng, nmax, adversarial=adversarial, unique_names=unique)
    case = {"t": t, "g": ag}
    names = [n["name"] for n in ag["nodes"]]
    if t == "rename":
        case["prefix"] = rng.choice(["main.", "r.", "", "a.b.", "m"])
        tab = []
        for nm in sorted(set(names)):
            if rng.random() < 0.3:
                other = rng.choice(ag["nodes"])
                tab.append([nm, rng.choice(["x", "main", nm + ".", rng.choice(names), "zz" + nm,
                                            other["name"] + "." + rng.choice(other["outputs"] + ["0"]),
                                            rng.choice(other["outputs"] + [k for k, _, _ in other["inputs"]] + ["0"])])])
        case["table"] = tab
    if t == "dedup" and rng.random() < 0.3:
        case["pred"] = rng.choice(sorted(DEDUP_PREDS))
    if t == "fuse":
        if rng.random() < 0.6:
            case["g"] = ag = L.gen_chainy(rng, nmax, adversarial=adversarial)
            names = [n["name"] for n in ag["nodes"]]
        case["mode"] = rng.choice(["all", "all", "table", "linear"])
        case["accept"] = [nm for nm in sorted(set(names)) if rng.random() < 0.6]
        r = rng.random()
        if r < 0.25:
            case["inplace"] = "all"                   # the callback mutates `current` and returns it
        elif r < 0.5:
            case["inplace"] = "table"                 # ... for some parents only: fresh and mutated answers mixed
            case["inplace_for"] = [nm for nm in sorted(set(names)) if rng.random() < 0.5]
    if t == "expand":
        exp = []
        for n in ag["nodes"]:
            if rng.random() < 0.35:
                exp.append([n["name"], gen_expansion(rng, n, adversarial=adversarial, ag=ag)])
        if not exp:
            n = rng.choice(ag["nodes"])
            exp.append([n["name"], gen_expansion(rng, n, adversarial=adversarial, ag=ag)])
        if rng.random() < 0.3:
            # one sub-graph OBJECT for several nodes: the expander answers with the same Graph for every node that has
            # the outputs of the first one (the maps are per node: an explicit input map keeps the entries that name
            # an input the node has)
            nm0, e0 = rng.choice(exp)
            n0 = next(n for n in ag["nodes"] if n["name"] == nm0)
            twins = [n for n in ag["nodes"] if n["name"] != nm0 and n["outputs"] == n0["outputs"]]
            rng.shuffle(twins)
            for n in twins[:rng.choice([1, 1, 2, 3])]:
                inames = {k for k, _, _ in n["inputs"]}
                e1 = {"sub": e0["sub"], "omap": e0["omap"], "share": 0,
                      "imap": None if e0["imap"] is None else [[a, b] for a, b in e0["imap"] if b in inames]}
                if e0.get("bare") and e1["imap"] is None and e1["omap"] is None:
                    e1["bare"] = True
                exp = [[a, e] for a, e in exp if a != n["name"]] + [[n["name"], e1]]
                e0["share"] = 0
        case["exp"] = exp
        sp = rng.choice(["default", "default", "default", "tap", "first"])
        if sp != "default":
            case["splicer"] = sp          # a Splicer subclass overriding splice_source / splice_sink
    if t == "join":
        nss = rng.sample(["a", "main", "a.b", "g1", "x.", "0", "n"], rng.randint(1, 3))
        case["ns"] = nss[0]
        case["more"] = [[ns, L.gen_graph(rng, max(1, nmax // 2), adversarial=adversarial, unique_names=rng.random() < 0.8)] for ns in nss[1:]]
    if t == "split":
        nk = rng.randint(1, 4)
        case["default"] = 0
        case["keys"] = [[nm, rng.randrange(nk)] for nm in names if rng.random() < 0.8]
        if rng.random() < 0.3:
            # keys by role: producers whose outputs render alike (`<node>.<output>` collisions) in one part, their
            # consumers spread over the others, so that the colliding edges are the ones that are cut
            cons = {j for n in ag["nodes"] for _, j, _ in n["inputs"]}
            case["keys"] = [[n["name"], 0 if i in cons else rng.randint(1, max(1, nk - 1))] for i, n in enumerate(ag["nodes"])]
        if rng.random() < 0.25:
            # equal keys of different Python types: 0 / 0.0 / False and 1 / 1.0 / True
            case["keytypes"] = [[nm, rng.choice(["float", "bool"] if k in (0, 1) else ["float"])] for nm, k in case["keys"] if rng.random() < 0.5]
    # the listing (= creation order of the node objects) is mostly NOT the order in which the traversal finishes
    # nodes; the model computes that order itself (travLoop) and is compared with the real one
    r = rng.random()
    if r < 0.55:
        case["g"] = relist(rng, case["g"])
    if r < 0.06 and case["g"]["sinks"]:
        g2 = case["g"]
        case["g"] = dict(g2, sinks=g2["sinks"] + [rng.choice(g2["sinks"])])      # the same node twice in Graph.sinks
    return case


LEAF_NAMES = ["mean", "m", "a", "main", "n", "i", "ma.in", ".x", "leaf", "out", "w", "0", "a.b", "nim", "x"]
SUB_MISC = ["src", "reader", "s", "in", "free", "const", "f", "proc", "p", "mid", "process-0", "inner", "writer", "dump", "input"]


def gen_expansion(rng, node, adversarial=True, ag=None):
    """A sub-graph + maps for outer node `node` (mostly meaningful: every output has a leaf).

    Names of ALL sub-graph nodes (sources, inner nodes, leaves, extra sinks) come from one pool: the expanded
    node's input names, its output names, its own name, the parent graph's node names, `<node>.<x>` forms and
    a few plain words.  Input map: None (sources matched by name), explicit (full / partial / empty / two
    sources on one input), with independent sources NOT in the map that may be named like an input of the
    node.  Output map: None, explicit, partial, two outputs on one leaf, keys that are no outputs.
    Shape of the expander's answer: bare Graph, 3-tuple, and (rarely) 1-/2-tuples (not a documented shape)."""
    inames = [k for k, _, _ in node["inputs"]]
    onames = list(node["outputs"])
    gnames = ([n["name"] for n in ag["nodes"]] if ag else []) + [node["name"]]
    pool_in = L.INPUT_NAMES if adversarial else L.PLAIN_INPUT_NAMES
    outsets = [["0"], ["0"], ["o1", "o2"], ["0", "1"]] + ([["name"], ["leaves", "0"], ["payload"]] if adversarial else [])
    if adversarial and onames:
        outsets = outsets + [list(onames)]
    derived = [node["name"] + "." + x for x in inames + onames + ["0"]] + [x + ".0" for x in inames + onames]
    nodes = []
    used = set()

    def fresh(base):
        nm = base
        c = 0
        while nm in used:
            nm = base + str(c)
            c += 1
        used.add(nm)
        return nm

    def pick(bias_inputs=False):
        r = rng.random()
        if adversarial:
            if bias_inputs and inames and r < 0.6:
                return rng.choice(inames)
            if r < 0.25 and inames:
                return rng.choice(inames)
            if r < 0.40 and onames:
                return rng.choice(onames)
            if r < 0.55:
                return rng.choice(gnames)
            if r < 0.65:
                return rng.choice(derived)
            if r < 0.80:
                return rng.choice(LEAF_NAMES)
        return rng.choice(SUB_MISC)

    def source(nm):
        nodes.append({"name": nm, "outputs": list(rng.choice(outsets)), "payload": rng.randint(0, 4), "inputs": []})

    use_imap = rng.random() < 0.55
    imap = [] if use_imap else None
    p_map = rng.choice([0.0, 0.4, 0.75, 0.75, 1.0])       # empty / partial / full maps
    for k in inames:
        if rng.random() < p_map:
            if use_imap:
                nm = fresh(pick())
                imap.append([nm, k])
                source(nm)
                if rng.random() < 0.1:                     # a second source on the same input
                    nm = fresh(pick())
                    imap.append([nm, k])
                    source(nm)
            else:
                nm = fresh(k)
                if nm != k:
                    used.discard(nm)
                    continue
                source(nm)
    # independent sources: not in the explicit map (may be NAMED like an input), or not named like an input
    for _ in range(rng.choice([0, 1, 1, 2]) if nodes else rng.choice([1, 1, 2])):
        source(fresh(pick(bias_inputs=use_imap)))
    if use_imap and rng.random() < 0.04:
        imap.append([fresh("ghost"), "no-such-input"])        # invalid: KeyError
    for _ in range(rng.choice([0, 0, 1, 1, 2, 3])):
        cands = [(j, o) for j, x in enumerate(nodes) for o in x["outputs"]]
        if not cands:
            break
        ks = rng.sample(pool_in, rng.randint(3, 5) if rng.random() < 0.15 else rng.randint(1, min(2, len(cands))))    # 15%: 3-5 inputs
        nodes.append({"name": fresh(pick()), "outputs": list(rng.choice(outsets)),
                      "payload": rng.randint(0, 4), "inputs": [[kn] + list(rng.choice(cands)) for kn in ks]})
    use_omap = rng.random() < 0.6
    omap = [] if use_omap else None
    p_list = rng.choice([0.3, 0.8, 0.8, 1.0])               # partial / full output maps
    leaves = {}
    for o in node["outputs"]:
        if use_omap and leaves and rng.random() < 0.15:
            omap.append([o, rng.choice(list(leaves))])      # two outputs share one leaf
            continue
        if use_omap and rng.random() < p_list:
            ln = fresh(pick())
            omap.append([o, ln])
        else:
            ln = fresh(o)
            if ln != o:
                if use_omap:
                    omap.append([o, ln])
                else:
                    used.discard(ln)
                    continue      # cannot give this output a leaf without a map: left unmapped (invalid if consumed)
        cands = [(j, oo) for j, x in enumerate(nodes) for oo in x["outputs"]]
        kind = rng.random()
        outs = [] if kind < 0.8 else (["0"] if kind < 0.95 else ["o1"])
        if not cands or rng.random() < 0.05:
            # a leaf that is a source of the sub-graph as well (only meaningful with a default output)
            nodes.append({"name": ln, "outputs": ["0"] if kind < 0.9 else [], "payload": rng.randint(0, 4), "inputs": []})
        else:
            ks = rng.sample(pool_in, rng.randint(3, 4) if rng.random() < 0.12 else rng.randint(1, min(2, len(cands))))    # 12%: a leaf with 3-4 inputs
            nodes.append({"name": ln, "outputs": outs, "payload": rng.randint(0, 4), "inputs": [[kn] + list(rng.choice(cands)) for kn in ks]})
        leaves[ln] = len(nodes) - 1
    if use_omap and rng.random() < 0.12:
        omap.append([fresh("no-such-output"), rng.choice(list(leaves) + [pick()])])     # key that is no output: ignored
    if use_omap and omap and rng.random() < 0.08:
        i = rng.randrange(len(omap))
        omap[i] = [omap[i][0], None]            # `dict[str, str | None]`: this output is connected to nothing
    if use_omap and omap:
        rng.shuffle(omap)
    for _ in range(rng.choice([0, 0, 0, 1, 1, 2])):
        cands = [(j, oo) for j, x in enumerate(nodes) for oo in x["outputs"]]
        if cands:
            nodes.append({"name": fresh(pick()), "outputs": [] if rng.random() < 0.8 else ["0"], "payload": rng.randint(0, 4),
                          "inputs": [[rng.choice(pool_in)] + list(rng.choice(cands))]})
    consumed = {j for x in nodes for _, j, _ in x["inputs"]}
    sinks = [i for i in range(len(nodes)) if i not in consumed]
    for ln, i in leaves.items():
        if i not in sinks:
            sinks.append(i)
    for i in range(len(nodes)):
        if i not in sinks and rng.random() < 0.06:
            sinks.append(i)                                   # a non-terminal node of the sub-graph that is a sink too
    rng.shuffle(sinks)
    sub = L.normalise({"nodes": nodes, "sinks": sinks})
    if rng.random() < 0.45:
        sub = relist(rng, sub)         # Splicer.transform traverses the sub-graph: listing order != finishing order
    r = rng.random()
    if r < 0.03:
        sub = {"nodes": [], "sinks": []}                                  # the expander answers Graph([])
    elif r < 0.07 and len(sub["nodes"]) >= 2:
        # two sub-graph nodes with ONE name (Splicer matches sources, sinks and leaves by name: the last sink of a name is the leaf)
        i, j = rng.sample(range(len(sub["nodes"])), 2)
        sub = dict(sub, nodes=[dict(m, name=sub["nodes"][j]["name"]) if t == i else m for t, m in enumerate(sub["nodes"])])
    elif r < 0.11 and sub["sinks"]:
        sub = dict(sub, sinks=sub["sinks"] + [rng.choice(sub["sinks"])])    # the same node twice in the sub-graph's `sinks`
    e = {"sub": sub, "imap": imap, "omap": omap}
    if imap is None and omap is None and rng.random() < 0.5:
        e["bare"] = True
    elif rng.random() < 0.02:
        e["shape"] = rng.choice([1, 2])                      # (graph,) / (graph, input_map): not a documented answer
    return e


def expansion_features(case):
    """Counters for the evidence distribution: which corners of the expander domain a case touches."""
    f = collections.Counter()
    byname = {n["name"]: n for n in case["g"]["nodes"]}
    gnames = set(byname)
    for nm, e in case.get("exp", []):
        n = byname.get(nm)
        if n is None:
            continue
        inames = {k for k, _, _ in n["inputs"]}
        sub = e["sub"]
        f["exp:shape:" + ("bare" if e.get("bare") else str(e.get("shape", 3)) + "-tuple")] += 1
        if e.get("share") is not None:
            f["exp:shared_subgraph_object"] += 1
        if not sub["nodes"]:
            f["exp:sub:empty_graph"] += 1
        if len({m["name"] for m in sub["nodes"]}) < len(sub["nodes"]):
            f["exp:sub:duplicate_node_names"] += 1
        if len(set(sub["sinks"])) < len(sub["sinks"]):
            f["exp:sub:same_node_twice_in_sinks"] += 1
        if any(len(m["inputs"]) >= 3 for m in sub["nodes"]):
            f["exp:sub:node_with_3plus_inputs"] += 1
        f["exp:imap:" + ("none" if e["imap"] is None else "empty" if not e["imap"] else
                         "full" if {b for _, b in e["imap"]} >= inames else "partial")] += 1
        outs = set(n["outputs"])
        f["exp:omap:" + ("none" if e["omap"] is None else "empty" if not e["omap"] else
                         "full" if {a for a, _ in e["omap"]} >= outs else "partial")] += 1
        mapped = None if e["imap"] is None else {a for a, _ in e["imap"]}
        for m in sub["nodes"]:
            if not m["inputs"]:
                if mapped is not None and m["name"] not in mapped:
                    f["exp:independent_source"] += 1
                    if m["name"] in inames:
                        f["exp:independent_source_named_like_input"] += 1
                elif mapped is None and m["name"] not in inames:
                    f["exp:independent_source"] += 1
            elif m["name"] in inames:
                f["exp:inner_node_named_like_input"] += 1
            if m["name"] in outs:
                f["exp:sub_node_named_like_output"] += 1
            if m["name"] in gnames:
                f["exp:sub_node_named_like_outer_node"] += 1
            if nm + "." + m["name"] in gnames:
                f["exp:spliced_name_equals_outer_node"] += 1
    return f


def _nontrivial(ag):
    f = L.features(ag)
    return len(ag["nodes"]) >= 3 and (f["shared"] or f["multi_output"] or f["multi_sink"])


# ----------------------------------------------------------------------------- model side

NO_LEAF = "\u0001<None>"      # stands for the output-map value None on the model side: a name no sub-graph node has


def _for_model(case):
    if case["t"] != "expand" or not any(e["omap"] and any(b is None for _, b in e["omap"]) for _, e in case.get("exp", [])):
        return case
    return dict(case, exp=[[a, dict(e, omap=None if e["omap"] is None else [[x, NO_LEAF if y is None else y] for x, y in e["omap"]])]
                           for a, e in case["exp"]])


def model_outs(cases):
    from ekw.core import lean_drive
    res = lean_drive("C11", [json.dumps(_for_model(c)) for c in cases])
    return [json.loads(x) for x in res]


# Outcome kinds are compared UN-COLLAPSED: the Python exception class against the model's Err constructor.
#  * copy / rename / dedup / split / fuse / join, and expand INSIDE the decidable domain (expandOK): neither side can fail
#    (c11_*_total, c11_expand_total); ANY error on either side is a mismatch, whatever its class.
#  * expand OUTSIDE the domain - exactly these pairs are accepted, everything else is a mismatch:
#      model keyError  / real KeyError        `Splicer.__init__`: the input map names an input the node does not have
#      model noOutput  / real ok | KeyError | AttributeError | BadGraph
#          an output that does not exist was asked for.  The model is EAGER: it stops with `noOutput` at the lookup.  The real
#          `__transform_output` never raises there - it falls through `get_output` and `getattr` to the `(node, output)`
#          tuple (for a `_Subgraph`/`Node`: to whatever attribute has that name), and that junk is either never looked at
#          (ok), overtaken by the KeyError of a later `Splicer.__init__`, handed to `Node(...)` by splice_source /
#          splice_sink (AttributeError: the junk has no `get_output`), or stored as an input of a kept node and found when
#          the result is read back (BadGraph)
#      model noOutput  / real TypeError       only when the missing output is NAMED like an attribute of Node / _Subgraph
#          (`__class__`, `get_output`, `copy`, ...): the junk is then a class or a bound method and calling its
#          `get_output()` is a TypeError, not an AttributeError
_JUNK_ATTRS = None


def _junk_attr_names():
    global _JUNK_ATTRS
    if _JUNK_ATTRS is None:
        from earthkit.workflows.graph.expand import _Subgraph
        _JUNK_ATTRS = set(L._node_attrs()) | set(dir(_Subgraph("x", {}, {}, []))) | {"name", "leaves", "output_map", "inner_sinks"}
    return _JUNK_ATTRS


def _asks_attr_named_output(case):
    return any(o in _junk_attr_names() for n in case["g"]["nodes"] for _, _, o in n["inputs"])


def err_name(out):
    return str(out.get("err")) if "err" in out else "ok"


def outcome_mismatch(t, io, mo, case=None):
    """None if the outcomes of the real code (io) and of the model (mo) agree in kind, else a description (table above)."""
    ie, me = "err" in io, "err" in mo
    if not ie and not me:
        return None
    ic, mc = err_name(io), err_name(mo)
    if t == "expand" and mo.get("domain") is False:
        if mc == "keyError" and ic == "KeyError":
            return None
        if mc == "noOutput" and ic in ("ok", "KeyError", "AttributeError", "BadGraph"):
            return None
        if mc == "noOutput" and ic == "TypeError" and case is not None and _asks_attr_named_output(case):
            return None
        return f"outside the domain of expand: real outcome {ic} ({io.get('msg', '')}), model outcome {mc}: not one of the documented pairs"
    return f"real outcome {ic} ({io.get('msg', '')}), model outcome {mc}: no error is possible here on either side"


def canon_out(t, out):
    """Canonical comparable form of an outcome (model or impl)."""
    if "err" in out:
        return {"err": err_name(out)}
    o = out["ok"]
    if t in ("copy", "rename", "expand", "fuse", "join"):
        return {"ok": L.canon(o)}
    if t == "dedup":
        return {"ok": L.canon(o, sort_sinks=True)}
    if t == "split":
        return {"ok": {"parts": sorted([k, L.canon(a, sort_sinks=True)] for k, a in o["parts"]), "cuts": sorted(map(list, o["cuts"]))}}
    raise ValueError(t)


def model_split_view(o):
    """Model split result (shared store) -> per-part AGs like the real side."""
    store = {"nodes": o["nodes"], "sinks": []}
    parts = []
    for k, sinks in o["parts"]:
        parts.append([k, L.restrict(store, sinks)])
    return {"parts": parts, "cuts": o["cuts"]}


# ----------------------------------------------------------------------------- check

def _load_corpus():
    from ekw.core import CORPUS_DIR
    out, bad = [], []
    for f in sorted(glob.glob(str(CORPUS_DIR / "C11_*.json"))):
        try:
            case = json.load(open(f))["case"]
            if not (isinstance(case, dict) and case.get("t") in TRANSFORMS and isinstance(case.get("g"), dict)):
                raise ValueError("no case with a transformation `t` and a graph `g`")
            out.append(case)
        except Exception as e:
            bad.append((f, f"{_exc(e)}: {e}"))
    return out, bad


def correspond(ctx):
    global FLUENT_P
    n = ctx.budget(7000, 60000)
    nmax = ctx.budget(9, 14)
    FLUENT_P = ctx.budget(1.5, 12) / 100.0       # quick tier too (about 45 cases): the import cost (3-10 s) is paid once
    cases, bad_corpus = _load_corpus()
    ctx.count("corpus_cases_loaded", len(cases))
    for f, why in bad_corpus:
        # a minimised past failure that can no longer be read is a regression test that silently stopped running:
        # counted and reported as a broken correspondence (exit 1, the replay names the file), never skipped
        ctx.count("corpus_files_unreadable")
        ctx.disagree("corpus-file-unreadable", {"file": f}, "every corpus/C11_*.json holds a case {t, g, ...}", why)
    for i in range(n):
        t = TRANSFORMS[i % len(TRANSFORMS)]
        cases.append(gen_case(ctx.rng, t, nmax, adversarial=ctx.rng.random() < 0.7))
    impl = []
    reported = set()
    for case in cases:
        out, fails = run_case(case)
        impl.append(out)
        ag = case["g"]
        f = L.features(ag)
        ctx.case({"t": case["t"], "g": ag, **{k: v for k, v in case.items() if k not in ("t", "g")}}, nontrivial=_nontrivial(ag))
        ctx.count("cases")
        ctx.count("t:" + case["t"])
        if ag["nodes"] and all("base" in x for x in ag["nodes"]):
            ctx.count("fluent_node_graph:" + case["t"])
        for fld in ("pred", "inplace"):
            if case.get(fld):
                ctx.count(f"{case['t']}:{fld}:{case[fld]}")
        if case.get("keytypes"):
            ctx.count("split:keys_of_mixed_python_types")
        if case["t"] == "expand" and any(e["omap"] and any(b is None for _, b in e["omap"]) for _, e in case.get("exp", [])):
            ctx.count("expand:output_map_value_None")
        ctx.count("nodes", len(ag["nodes"]))
        for k, v in f.items():
            if v:
                ctx.count("feature:" + k)
        if "err" in out:
            ctx.count("impl_error:" + str(out["err"]))
        for k, v in out.get("stats", {}).items():
            ctx.count(k, v)
        if case["t"] == "expand":
            for k, v in expansion_features(case).items():
                ctx.count(k, v)
        for fl in fails:
            key = (case["t"], fl["kind"])
            if key in reported and len(reported) > 0 and ctx.dist.get("viol:" + "/".join(key), 0) >= 3:
                ctx.count("viol:" + "/".join(key))
                continue
            ctx.count("viol:" + "/".join(key))
            reported.add(key)
            small = shrink(case, fl["kind"])
            _, f2 = run_case(small)
            what = next((x["what"] for x in f2 if x["kind"] == fl["kind"]), fl["what"])
            ctx.violation({"kind": fl["kind"], "t": case["t"], "cause": classify(small)}, small, f"{case['t']}: {what}")
    # the model runs its OWN traversal (visitOrder / reorder, c11_traverse_terminates) on the graph as listed; the
    # order it computes is compared with the order in which the real Transformer finished the nodes
    mouts = model_outs(cases)
    for case, io, mo in zip(cases, impl, mouts):
        ctx.traces += 1
        t = case["t"]
        if "order" in io:
            ctx.count("orders_compared")
            if io["order"] != list(range(len(io["order"]))):
                ctx.count("orders_compared:not_listing_order")
            if mo.get("order") != io["order"]:
                ctx.disagree(t + "-order", case, mo.get("order"), io["order"])
                continue
        if t == "expand":
            msub = {a: o for a, o in (mo.get("suborders") or []) if o is not None}
            for nm, so in (io.get("suborders") or {}).items():
                ctx.count("suborders_compared")
                if so != list(range(len(so))):
                    ctx.count("suborders_compared:not_listing_order")
                if msub.get(nm) != so:
                    ctx.disagree("expand-suborder", case, msub.get(nm), so)
            if "domain" in io:
                ctx.count("expand:domain_compared:" + ("in" if io["domain"] else "out"))
                if mo.get("domain") != io["domain"]:
                    ctx.disagree("expand-domain", case, mo.get("domain"), io["domain"])
                    continue
                if io["domain"] and "err" in io:
                    ctx.disagree("expand-total", case, mo, io)      # in the domain the real code must return (c11_expand_total)
                    continue
        if t == "expand" and "domain" not in io:
            # 1-/2-tuple answers (not a documented shape; the model has none): the OUTCOME KIND is compared with what the
            # unpacking `expanded, input_map, output_map = expanded` must do - every node of a case is reachable, so the
            # expander is asked about the node and the real code must raise ValueError, unless the run stopped earlier for
            # one of the reasons that exist outside the domain of the 3-tuple-completed case (model: not ok there)
            ic = err_name(io)
            ctx.count("expand:undocumented_answer_shape:outcome_kind_compared:" + ic)
            if not (ic == "ValueError" or ("err" in mo and mo.get("domain") is False and outcome_mismatch(t, io, mo, case) is None and ic != "ok")):
                ctx.disagree("expand-answer-shape", case, "ValueError from unpacking a 1-/2-tuple (or an out-of-domain stop before it)",
                             f"real outcome {ic} ({io.get('msg', '')})")
            continue
        bad = outcome_mismatch(t, io, mo, case)
        if bad is not None:
            ctx.disagree(t + "-outcome", case, mo, bad)
            continue
        if "err" in io or "err" in mo:
            ctx.count("outcome_kinds_compared:" + err_name(io) + "/" + err_name(mo))
            continue
        if io.get("invalid"):
            # outside the domain both returned: the graphs are compared as well (nothing is demanded by the oracle)
            ctx.count("invalid_expansion_both_returned_compared")
        try:
            if t == "split" and "ok" in mo:
                mo = {"ok": model_split_view(mo["ok"])}
            a = canon_out(t, io)
            b = canon_out(t, mo)
        except Exception as e:
            ctx.disagree(t, case, mo, f"canonicalisation failed: {_exc(e)}: {e}")
            continue
        if a != b:
            ctx.disagree(t, case, mo, io)


def search(ctx, why):
    """Proof or correspondence broken: larger oracle-only search around the disagreeing cases and fresh ones."""
    seen = {json.dumps(v["signature"], sort_keys=True) for v in ctx.violations}
    pool = [d["case"] for d in ctx.disagreements[:20] if isinstance(d.get("case"), dict) and "g" in d["case"]]
    for i in range(ctx.budget(3000, 20000)):
        t = TRANSFORMS[i % len(TRANSFORMS)]
        pool.append(gen_case(ctx.rng, t, ctx.budget(9, 14)))
    shrunk = collections.Counter()
    for case in pool:
        _, fails = run_case(case)
        for fl in fails:
            if shrunk[(case["t"], fl["kind"])] >= 4:
                continue
            shrunk[(case["t"], fl["kind"])] += 1
            small = shrink(case, fl["kind"])
            sig = {"kind": fl["kind"], "t": case["t"], "cause": classify(small)}
            s = json.dumps(sig, sort_keys=True)
            if s in seen:
                continue
            seen.add(s)
            ctx.violation(sig, small, f"{case['t']}: {fl['what']}")


def replay(payload):
    case = payload["case"]
    out, fails = run_case(case)
    print("case:", json.dumps(case))
    print("impl:", json.dumps(out, default=str)[:2000])
    for f in fails:
        print("oracle:", f["kind"], "-", f["what"])
    return 1 if fails else 0
