"""C11 — graph transformations preserve the computation the graph denotes.

Tie: the REAL copy_graph / rename_nodes / deduplicate_nodes / split_graph / expand_graph / fuse_nodes on
random DAGs against Model/Graph.lean, one transformation per case, results compared in a structural
canonical form (ekw.c11_lib.canon).
Generators (ekw.c11_lib.gen_graph / gen_chainy, gen_expansion here): besides adversarial fixed names, node names are built
from other nodes' names, output names and input names (`<node>.<output>`, `<node>.0`, several dots, a dotted name's prefix
declaring the rest as an output), name-collision clusters put equal-payload consumers on outputs that render alike, and
sub-graphs draw ALL their node names from the expanded node's input/output names and the outer graph's node names, with
None / explicit / partial / empty maps and independent sources outside the input map.
Oracle (from the property text only, independent of the model): a symbolic interpreter computes every
sink's term before and after; dedup: no two nodes with equal (payload, outputs, inputs), idempotent;
split: every node in exactly one part (the one of its key), re-joining the parts along the reported cut
edges gives back the original; expand: every consumer is wired to the leaf the output map selects.
"""
import collections
import glob
import json

from ekw import c11_lib as L

PROPERTY = "C11"
LEVEL_TEXT = ("Lean theorems over Model/Graph.lean (graph = topologically ordered node list + sinks; den = term over payloads, eval = value "
              "under an interpretation of the payloads, both by recursion on the order; the generic Transformer traversal + output lookup; "
              "_Copier, _Renamer, _DedupTransformer, Splitter/CutEdge, Splicer/_Subgraph/_Expander, _FuseTransformer), unbounded in graph size "
              "and for all node/input/output names: copy and rename return the same structure (names mapped) with identical sink terms; dedup "
              "keeps the set of sink terms, leaves no two nodes with equal payload/outputs/inputs and is idempotent; split gives every node "
              "exactly one image, in the part of its key (reachability from the part's sinks), and re-joining by name along the reported cut "
              "edges restores every node, the wiring, the sinks and all denotations; expand (whenever it returns) connects every consumer of an "
              "expanded node to the default output of the prefixed copy of the sub-graph sink the output map selects and keeps leaves of "
              "expanded sinks; fuse (whenever it returns) keeps every sink's value for every callback satisfying FuseSound, and the callback "
              "used by the harness is proved sound; plus removeprefix vs lstrip-as-character-set with the decided witness main/mean. Tied to "
              "the real transforms by a per-transformation correspondence check on random adversarially named DAGs and an independent "
              "symbolic-interpreter oracle.")
LEVEL_NOTE = ("modelled, not verified: graph/{nodes,graph,visit,transform,copy,rename,deduplicate,split,expand,fuse}.py. Object identity is "
              "modelled by indices into a node store; the node order handed to the model is the order in which the real Transformer finishes "
              "nodes (observed); payload equality, CutEdge hashing (cut names), and the user callbacks (key, expander, fusion) are parameters; "
              "fusion callbacks are restricted to functions of the two nodes they are given that answer with a fresh node. Not proved (checked "
              "by correspondence and oracle only): the wiring INSIDE a spliced sub-graph (mapped sources per input map), total correctness of "
              "expand/fuse (the theorems are conditional on the transformation returning), custom Splitter.cut_edge / Splicer.splice_* overrides.")
TECHNIQUE = "Lean 4 proof by induction over the topological order of the graph (simulation invariant of the generic Transformer fold) + differential correspondence with the real transforms + symbolic-interpreter oracle"
LEAN_PROPS = ["EkwVerif.Props.C11"]
LEAN_DRIVERS = ["C11"]
RULE = ("corpus of minimised past failures first, then random DAGs (1..9 nodes quick, ..14 thorough; a few more with a collision cluster): shared sub-expressions, multi-output nodes, exact duplicates incl. permuted input "
        "order and near-duplicates, several sinks incl. non-terminal ones, adversarial names (prefixes/character overlap with parents, "
        "dots, digits, output names equal to Node attributes, input names equal to callback parameter names), node names BUILT FROM other "
        "nodes' names, output names and input names (<node>.<output>, <node>.0, several dots, a dotted name's prefix that declares the "
        "rest as an output, names equal to output / input names, equal names of different nodes), name-collision clusters (one dotted "
        "string split in several ways into node name + output name, so that str(Output) / '<node>.<output>' of different outputs "
        "coincide) with equal-payload, equal-outputs, equal-input-name consumers on the colliding outputs, and twins of existing nodes "
        "re-pointed to outputs that render alike; split keys also by role (colliding producers in one part, consumers in others); "
        "expand: sub-graph node names (sources, inner nodes, leaves, extra sinks) from one pool with the expanded node's input names, "
        "output names, own name, the outer graph's node names and <node>.<x> forms; input map None / explicit full / partial / empty / "
        "two sources on one input, independent sources outside the map (also named like an input of the node); output map None / "
        "explicit / partial / shared leaf / keys that are no outputs; expander answers bare Graph, 3-tuple and (outside the documented "
        "domain, only counted) 1-/2-tuples; one case = one "
        "transformation (copy, rename, dedup, split, expand, fuse) of one DAG with random parameters. non-trivial = the DAG has >= 3 nodes "
        "and a shared sub-expression, a multi-output node or several sinks; distinct by content hash of (transformation, DAG, parameters)")
ASSUMPTIONS = [
    "graphs are built with Node(...)/get_output (inputs refer to declared outputs of existing nodes, acyclic); input names name/outputs/payload/self are rejected by Node(...) itself and are outside the domain",
    "the node order given to the model is the order in which Transformer.transform finishes nodes (DFS post-order from the sinks)",
    "split and expand cases use graphs with unique node names (CutEdge and the expander identify nodes by name); cut names (hash based) are treated as injective and compared through the reported cut edges",
    "payloads are compared with == only (same_payload); the harness uses payload values for which == is an equivalence",
    "an expander answers None, a Graph or a 3-tuple (graph, input map | None, output map | None) as documented; 1-/2-tuples and maps that select a leaf or an input that does not exist are generated and counted but nothing is demanded of them",
]

TRANSFORMS = ["copy", "rename", "dedup", "split", "expand", "fuse"]


# ----------------------------------------------------------------------------- real side + oracle

def _exc(e):
    return type(e).__name__


def _fail(kind, what):
    return {"kind": kind, "what": what}


def real_copy(case):
    from earthkit.workflows.graph import copy_graph
    g, objs = _build_input(case["g"])
    before = L.Sym().sinks(g)
    try:
        c = copy_graph(g)
        res = L.extract(c.sinks)
    except Exception as e:
        return {"err": _exc(e)}, [_fail("raises", f"copy_graph raised {_exc(e)}: {e}")]
    fails = []
    after = L.Sym().sinks(c)
    if after != before:
        fails.append(_fail("sink-terms-changed", "a sink of the copy denotes a different term than the corresponding sink of the input"))
    if L.Sym().sinks(g) != before:
        fails.append(_fail("input-changed", "copy_graph changed what the input graph's sinks denote"))
    return {"ok": res}, fails


def _rename_fn(case):
    table = dict(map(tuple, case.get("table", [])))
    pre = case.get("prefix", "")
    return lambda s: table[s] if s in table else pre + s


def real_rename(case):
    from earthkit.workflows.graph import rename_nodes
    g, objs = _build_input(case["g"])
    before = L.Sym().sinks(g)
    try:
        r = rename_nodes(_rename_fn(case), g)
        res = L.extract(r.sinks)
    except Exception as e:
        return {"err": _exc(e)}, [_fail("raises", f"rename_nodes raised {_exc(e)}: {e}")]
    fails = []
    if L.Sym().sinks(r) != before:
        fails.append(_fail("sink-terms-changed", "a sink of the renamed graph denotes a different term than the corresponding sink of the input"))
    fn = _rename_fn(case)
    if sorted(n["name"] for n in res["nodes"]) != sorted(fn(n["name"]) for n in case["g"]["nodes"]):
        fails.append(_fail("rename-names", "the nodes of the result are not named func(name) for the nodes of the input"))
    return {"ok": res}, fails


def _dup_key(n):
    return (L.payload_id(n.payload), tuple(n.outputs), tuple(sorted((k, id(s.parent), s.name) for k, s in n.inputs.items())))


def real_dedup(case):
    from earthkit.workflows.graph import deduplicate_nodes
    g, objs = _build_input(case["g"])
    before = L.Sym().sinks(g)
    try:
        d = deduplicate_nodes(g)
        res = L.extract(d.sinks)
    except Exception as e:
        return {"err": _exc(e)}, [_fail("raises", f"deduplicate_nodes raised {_exc(e)}: {e}")]
    fails = []
    if set(L.Sym().sinks(d)) != set(before):
        fails.append(_fail("sink-terms-changed", "the set of sink terms after de-duplication differs from the input's"))
    nodes = list(d.nodes())
    keys = collections.Counter(_dup_key(n) for n in nodes)
    if any(v > 1 for v in keys.values()):
        fails.append(_fail("dedup-not-unique", "two result nodes have equal payload, outputs and inputs"))
    try:
        c1 = L.canon(res, sort_sinks=True)
        g2, _ = L.build(res)
        d2 = deduplicate_nodes(g2)
        c2 = L.canon(L.extract(d2.sinks), sort_sinks=True)
        if c1 != c2:
            fails.append(_fail("dedup-not-idempotent", "de-duplicating the result again changes it"))
    except Exception as e:
        fails.append(_fail("dedup-not-idempotent", f"second de-duplication raised {_exc(e)}: {e}"))
    return {"ok": res}, fails


def cut_canon_name(c):
    """Canonical (hash-free) name for the sink/source pair of a cut edge."""
    return "__cut|%s|%s|%s|%s|%s|%s__" % (c[0], c[1], c[2], c[3], c[4], c[5])


def _key_fn(case):
    table = dict(map(tuple, case.get("keys", [])))
    dflt = case.get("default", 0)
    return lambda n: table.get(n.name, dflt)


def real_split(case):
    from earthkit.workflows.graph import split_graph
    ag = case["g"]
    g, objs = _build_input(ag)
    key = _key_fn(case)
    try:
        parts, cuts = split_graph(key, g)
        cutt = [(c.source_key, c.source_node, c.source_output, c.dest_key, c.dest_node, c.dest_input) for c in cuts]
        ren = {c.name: cut_canon_name(t) for c, t in zip(cuts, cutt)}
        res_parts = {}
        for k, pg in parts.items():
            a = L.extract(pg.sinks)
            for n in a["nodes"]:
                n["name"] = ren.get(n["name"], n["name"])
            res_parts[k] = a
    except Exception as e:
        return {"err": _exc(e)}, [_fail("raises", f"split_graph raised {_exc(e)}: {e}")]
    fails = []
    # --- oracle (property text): every node in exactly one part, the part of its key
    tab = dict(map(tuple, case.get("keys", [])))
    dflt = case.get("default", 0)
    cutnames = set(ren.values())
    where = collections.defaultdict(list)
    for k, a in res_parts.items():
        for n in a["nodes"]:
            if n["name"] not in cutnames:
                where[n["name"]].append(k)
    for n in ag["nodes"]:
        ks = where.get(n["name"], [])
        want = tab.get(n["name"], dflt)
        if len(ks) != 1:
            fails.append(_fail("split-not-partition", f"node {n['name']!r} occurs in parts {ks} (exactly one expected)"))
            break
        if ks[0] != want:
            fails.append(_fail("split-wrong-part", f"node {n['name']!r} with key {want} is in part {ks[0]}"))
            break
    extra = set(where) - {n["name"] for n in ag["nodes"]}
    if extra:
        fails.append(_fail("split-not-partition", f"parts contain nodes that are not in the input: {sorted(extra)}"))
    # --- oracle: re-join along the reported cut edges
    if not fails:
        rj = _rejoin(res_parts, cutt)
        if isinstance(rj, str):
            fails.append(_fail("split-rejoin", rj))
        else:
            want = _by_name(ag)
            if rj != want:
                fails.append(_fail("split-rejoin", "re-joining the parts along the reported cut edges does not give back the input graph"))
    return {"ok": {"parts": sorted([k, a] for k, a in res_parts.items()), "cuts": sorted(cutt)}}, fails


def _by_name(ag):
    """Name-keyed structure of an AG with unique names (+ multiset of sink names)."""
    nodes = ag["nodes"]
    return ({n["name"]: (n["payload"], tuple(n["outputs"]), tuple(sorted((k, nodes[j]["name"], o) for k, j, o in n["inputs"]))) for n in nodes},
            sorted(nodes[s]["name"] for s in ag["sinks"]))


def _rejoin(parts, cuts):
    """Re-join split parts along the cut edges; returns the name-keyed structure or an error string."""
    cutname = {cut_canon_name(c): c for c in cuts}
    if len(cutname) != len(cuts):
        return "two reported cut edges are identical"
    nodes = {}
    sinks = []
    src_seen = collections.Counter()
    snk_seen = collections.Counter()
    for k, a in parts.items():
        for i, n in enumerate(a["nodes"]):
            if n["name"] in cutname:
                c = cutname[n["name"]]
                if n["inputs"]:      # the sink half: lives in the source part, fed by the cut's source
                    snk_seen[n["name"]] += 1
                    if k != c[0] or n["outputs"] or len(n["inputs"]) != 1:
                        return f"cut sink {n['name']} malformed or in part {k}"
                    _, j, o = n["inputs"][0]
                    if (a["nodes"][j]["name"], o) != (c[1], c[2]):
                        return f"cut sink of {c} is fed by {(a['nodes'][j]['name'], o)}"
                    if i not in a["sinks"]:
                        return f"cut sink of {c} is not a sink of part {k}"
                else:
                    src_seen[n["name"]] += 1
                    if k != c[3]:
                        return f"cut source of {c} is in part {k}"
                continue
            ins = []
            for kk, j, o in n["inputs"]:
                pn = a["nodes"][j]["name"]
                if pn in cutname:
                    c = cutname[pn]
                    if (c[4], c[5]) != (n["name"], kk) or o != "0":
                        return f"input {kk!r} of {n['name']!r} is connected to the source of cut {c}"
                    ins.append((kk, c[1], c[2]))
                else:
                    ins.append((kk, pn, o))
            if n["name"] in nodes:
                return f"node {n['name']!r} twice"
            nodes[n["name"]] = (n["payload"], tuple(n["outputs"]), tuple(sorted(ins)))
        for s in a["sinks"]:
            if a["nodes"][s]["name"] not in cutname:
                sinks.append(a["nodes"][s]["name"])
    for name in cutname:
        if src_seen[name] != 1 or snk_seen[name] != 1:
            return f"cut {cutname[name]}: {snk_seen[name]} sink halves, {src_seen[name]} source halves"
    return nodes, sorted(sinks)


class Invalid(Exception):
    """The expander's answer selects something that does not exist (no meaning is defined)."""


def expected_expand(ag, table):
    """Reference semantics of expansion, from the documentation of expand_graph: sorted sink terms of the
    expanded graph + the wiring of every consumer of an expanded node [(consumer, input, parent name)]."""
    nodes = ag["nodes"]
    T = L.INTERN
    memo_n, memo_s = {}, {}

    def leaf_of(j, o):
        e = table[nodes[j]["name"]]
        omap = dict(map(tuple, e["omap"])) if e["omap"] is not None else None
        lname = o if omap is None else omap.get(o, o)
        sub = e["sub"]
        cands = [q for q in sub["sinks"] if sub["nodes"][q]["name"] == lname]
        if not cands:
            raise Invalid(f"output {o!r} of {nodes[j]['name']!r} selects sink {lname!r} which the sub-graph does not have")
        return lname, cands[-1]

    def leaf_names(j):
        e = table[nodes[j]["name"]]
        omap = dict(map(tuple, e["omap"])) if e["omap"] is not None else None
        return {(o if omap is None else omap.get(o, o)) for o in nodes[j]["outputs"]}

    def out_term(j, o):
        if nodes[j]["name"] not in table:
            return (o, node_term(j))
        lname, q = leaf_of(j, o)
        outs = sub_outputs(j, q)
        if "0" not in outs:
            raise Invalid(f"leaf {lname!r} has no default output")
        return ("0", sub_term(j, q))

    def node_term(i):
        if i not in memo_n:
            n = nodes[i]
            memo_n[i] = T(("T", n["payload"], tuple(n["outputs"]),
                           tuple(sorted((k,) + out_term(j, o) for k, j, o in n["inputs"]))))
        return memo_n[i]

    def src_input(j, m):
        """The input of outer node j a source named m of its sub-graph is connected to (or None)."""
        e = table[nodes[j]["name"]]
        ins = {k: (jj, o) for k, jj, o in nodes[j]["inputs"]}
        if e["imap"] is None:
            return ins.get(m)
        imap = dict(map(tuple, e["imap"]))
        for src, iname in imap.items():
            if iname not in ins:
                raise Invalid(f"input map of {nodes[j]['name']!r} names input {iname!r} which the node does not have")
        if m in imap:
            return ins[imap[m]]
        return None

    def sub_outputs(j, q):
        m = table[nodes[j]["name"]]["sub"]["nodes"][q]
        if m["inputs"] and not m["outputs"] and m["name"] in leaf_names(j):
            return ["0"]
        return list(m["outputs"])

    def sub_term(j, q):
        if (j, q) not in memo_s:
            sub = table[nodes[j]["name"]]["sub"]
            m = sub["nodes"][q]
            if not m["inputs"]:
                src = src_input(j, m["name"])
                ins = () if src is None else ((("input",) + out_term(*src)),)
            else:
                ins = tuple(sorted((k, o, sub_term(j, jj)) for k, jj, o in m["inputs"]))
            memo_s[(j, q)] = T(("T", m["payload"], tuple(sub_outputs(j, q)), ins))
        return memo_s[(j, q)]

    sinks = []
    for s in ag["sinks"]:
        if nodes[s]["name"] in table:
            src_input(s, "")     # validates the input map
            sinks += [sub_term(s, q) for q in table[nodes[s]["name"]]["sub"]["sinks"]]
        else:
            sinks.append(node_term(s))
    wiring = []
    for i, n in enumerate(nodes):
        if n["name"] in table:
            src_input(i, "")
            for k, j, o in n["inputs"]:
                out_term(j, o)        # validity: every input edge must select something, used or not
            for q in range(len(table[n["name"]]["sub"]["nodes"])):
                sub_term(i, q)
            continue
        node_term(i)
        for k, j, o in n["inputs"]:
            if nodes[j]["name"] in table:
                lname, _ = leaf_of(j, o)
                wiring.append((n["name"], k, nodes[j]["name"] + "." + lname, "0"))
    return sorted(sinks), sorted(wiring)


def real_expand(case):
    from earthkit.workflows.graph import expand_graph
    ag = case["g"]
    table = {nm: e for nm, e in case["exp"]}
    g, objs = _build_input(ag)

    def ex(n):
        e = table.get(n.name)
        if e is None:
            return None
        sg, _ = L.build(e["sub"])
        if e["imap"] is None and e["omap"] is None and e.get("bare"):
            return sg
        if e.get("shape") == 1:
            return (sg,)
        if e.get("shape") == 2:
            return (sg, dict(map(tuple, e["imap"])) if e["imap"] is not None else None)
        return (sg, dict(map(tuple, e["imap"])) if e["imap"] is not None else None,
                dict(map(tuple, e["omap"])) if e["omap"] is not None else None)

    try:
        if any(e.get("shape") in (1, 2) for nm, e in table.items() if any(n["name"] == nm for n in ag["nodes"])):
            raise Invalid("the expander answers with a 1- or 2-tuple (documented: None, a Graph or a 3-tuple)")
        want = expected_expand(ag, table)
    except Invalid as e:
        want = None
    try:
        r = expand_graph(ex, g)
        res = L.extract(r.sinks)
    except Exception as e:
        if want is None:
            return {"err": _exc(e), "invalid": not isinstance(e, KeyError)}, []
        return {"err": _exc(e)}, [_fail("raises", f"expand_graph raised {_exc(e)}: {e}")]
    if want is None:
        # meaningless expansion (selects a leaf / input that does not exist): whether the junk it produces is
        # ever looked at depends on the rest of the graph; outside the domain, nothing is compared
        return {"ok": res, "invalid": True}, []
    fails = []
    if want is not None:
        got = sorted(L.Sym().sinks(r))
        if got != want[0]:
            fails.append(_fail("sink-terms-changed", "the sinks of the expanded graph do not denote the sinks of the input with every "
                               "expanded node replaced by its sub-graph (leaf selected by the output map, sources connected per input map)"))
        names = [n["name"] for n in res["nodes"]]
        spliced = {nm + "." + m["name"] for nm, e in table.items() for m in e["sub"]["nodes"]}
        outer = {n["name"] for n in ag["nodes"]}
        if len(set(names)) == len(names) and not (spliced & outer):     # nodes can be told apart by name
            byname = {n["name"]: n for n in res["nodes"]}
            for cname, k, pname, o in want[1]:
                n = byname.get(cname)
                if n is None:
                    continue      # the consumer is not reachable from the result's sinks
                ok = any(kk == k and res["nodes"][j]["name"] == pname and oo == o for kk, j, oo in n["inputs"])
                if not ok:
                    fails.append(_fail("expand-miswired", f"input {k!r} of {cname!r} is not connected to the default output of leaf {pname!r}"))
                    break
    return {"ok": res, "stats": {"expand:wired_consumer_inputs": len(want[1]),
                                 "expand:expanded_sinks": sum(1 for s_ in ag["sinks"] if ag["nodes"][s_]["name"] in table),
                                 "expand:expansions": len(table)}}, fails


def _accept_fn(case):
    mode = case.get("mode", "all")
    names = set(case.get("accept", []))

    def accept(parent, pout, cur, cin):
        if mode == "all":
            return True
        if mode == "table":
            return parent.name in names
        if mode == "linear":
            return (parent.is_processor() and cur.is_processor() and pout == "0" and len(parent.outputs) == 1
                    and len(cur.inputs) == 1)
        return False
    return accept


def inline_fuse(accept):
    """The harness' fusion callback ("inline the parent"), mirrored by `inlineFuse` in Model/Graph.lean."""
    from earthkit.workflows.graph import Node

    def f(parent, pout, cur, cin):
        if not accept(parent, pout, cur, cin):
            return None
        if cin not in cur.inputs:
            return None
        kept = {k: v for k, v in cur.inputs.items() if k != cin}
        taken = {cin + "." + k: v for k, v in parent.inputs.items()}
        if any(k in kept for k in taken):
            return None
        payload = ("fuse", cur.payload, cin, parent.payload, pout, tuple(parent.inputs), tuple(parent.outputs))
        return Node(cur.name + "+" + parent.name, list(cur.outputs), payload, **kept, **taken)
    return f


def _pterm(p, env, outs):
    """Term of a payload applied to an input environment {input name: (output name, term)}: a fused payload is
    un-fused (the child applied to its inputs, the parent's result inlined at `cin`)."""
    if isinstance(p, tuple) and len(p) == 7 and p[0] == "fuse":
        _, cp, cin, pp, pout, pins, pouts = p
        pkeys = {cin + "." + k for k in pins}
        pt = _pterm(pp, {k: env[cin + "." + k] for k in pins}, tuple(pouts))
        cenv = {k: v for k, v in env.items() if k not in pkeys}
        cenv[cin] = (pout, pt)
        return _pterm(cp, cenv, outs)
    return L.INTERN(("T", L.hp(L.payload_id(p)), outs, tuple(sorted((k, o, t) for k, (o, t) in env.items()))))


def _fterm(n, memo, keep):
    t = memo.get(id(n))
    if t is None:
        env = {k: (src.name, _fterm(src.parent, memo, keep)) for k, src in n.inputs.items()}
        t = memo[id(n)] = _pterm(n.payload, env, tuple(n.outputs))
        keep.append(n)
    return t


def real_fuse(case):
    from earthkit.workflows.graph import fuse_nodes
    ag = case["g"]
    g, objs = _build_input(ag)
    before = L.Sym().sinks(g)
    cons = collections.Counter(j for n in ag["nodes"] for _, j, _ in n["inputs"])
    origin = {id(o): i for i, o in enumerate(objs)}
    inner = inline_fuse(_accept_fn(case))
    calls = []
    keep = []

    def cb(parent, pout, cur, cin):
        calls.append((origin.get(id(parent)), pout, origin.get(id(cur)), cin))
        r = inner(parent, pout, cur, cin)
        if r is not None:
            origin[id(r)] = origin.get(id(cur))
            keep.append(r)
        return r

    try:
        r = fuse_nodes(cb, g)
        res = L.extract(r.sinks)
    except Exception as e:
        return {"err": _exc(e)}, [_fail("raises", f"fuse_nodes raised {_exc(e)}: {e}")]
    fails = []
    memo = {}
    after = [_fterm(s_, memo, keep) for s_ in r.sinks]
    if after != before:
        fails.append(_fail("sink-terms-changed", "a sink of the fused graph (fused payloads un-fused) denotes a different term than the corresponding sink of the input"))
    for pi, pout, ci, cin in calls:
        if pi is None or cons[pi] != 1:
            fails.append(_fail("fuse-shared-parent", f"the fusion callback was offered a parent that has {cons.get(pi)} consuming edges (exactly one expected)"))
            break
    nf = sum(1 for n in res["nodes"] if isinstance(n["payload"], list))
    return {"ok": res, "stats": {"fuse:callback_calls": len(calls), "fuse:fused_nodes_in_result": nf}}, fails


REAL = {"fuse": real_fuse, "copy": real_copy, "rename": real_rename, "dedup": real_dedup, "split": real_split, "expand": real_expand}


_VISITED = []


def _install_recorder():
    """Record the order in which Transformer.transform finishes nodes (module global `node_visit` of
    graph/transform.py is wrapped; no hook in the repo). The model is given the nodes in that order."""
    import earthkit.workflows.graph.transform as T
    if getattr(T.node_visit, "_c11_recorder", False):
        return
    orig = T.node_visit

    def node_visit(impl, node, inputs):
        _VISITED.append(node)
        return orig(impl, node, inputs)
    node_visit._c11_recorder = True
    T.node_visit = node_visit


def run_case(case):
    """Real code + oracle on one case. Never raises. Adds out["order"] = observed visiting order of the
    input graph's nodes (a permutation of range(n)) when the whole graph was visited."""
    try:
        _install_recorder()
        del _VISITED[:]
        n = len(case["g"]["nodes"])
        _BUILT.clear()
        out, fails = REAL[case["t"]](case)
        objs = _BUILT.get("objs")
        if objs is not None:
            idx = {id(o): i for i, o in enumerate(objs)}
            order = []
            for o in _VISITED:
                i = idx.get(id(o))
                if i is not None and i not in order:
                    order.append(i)
            if sorted(order) == list(range(n)):
                out["order"] = order
        del _VISITED[:]
        return out, fails
    except Exception as e:   # harness trouble is reported as a failure of the case, not a crash
        return {"err": "harness:" + _exc(e)}, [_fail("harness-error", f"{_exc(e)}: {e}")]


_BUILT = {}


def _build_input(ag):
    """Build the input graph of a case and remember its node objects (for the visiting order)."""
    g, objs = L.build(ag)
    _BUILT["objs"] = objs
    return g, objs


def permute_case(case, order):
    """The same case with the nodes of the input graph listed in `order`."""
    if order is None or order == list(range(len(order))):
        return case
    ag = case["g"]
    pos = {old: new for new, old in enumerate(order)}
    nodes = [dict(ag["nodes"][old], inputs=[[k, pos[j], o] for k, j, o in ag["nodes"][old]["inputs"]]) for old in order]
    return dict(case, g={"nodes": nodes, "sinks": [pos[s] for s in ag["sinks"]]})


# ----------------------------------------------------------------------------- classification / shrinking

def classify(case):
    """Cause class of a (shrunk) failing case, from its input features only."""
    ag = case["g"]
    f = L.features(ag)
    if f["attr_output"]:
        return "attr-output"
    if f["param_input"]:
        return "param-input"
    if case["t"] == "expand":
        names = {n["name"]: n for n in ag["nodes"]}
        for nm, e in case.get("exp", []):
            sf = L.features(e["sub"])
            if sf["attr_output"]:
                return "attr-output"
            if sf["param_input"]:
                return "param-input"
        for nm, e in case.get("exp", []):
            if nm not in names:
                continue
            omap = dict(map(tuple, e["omap"])) if e["omap"] is not None else {}
            for o in names[nm]["outputs"]:
                ln = omap.get(o, o)
                if (nm + "." + ln).lstrip(nm + ".") != ln:      # where str.lstrip and str.removeprefix differ
                    return "lstrip"
        for s_ in ag["sinks"]:
            n = ag["nodes"][s_]
            if n["name"] in dict(map(tuple, ((a, 1) for a, _ in case.get("exp", [])))) and n["outputs"]:
                return "terminal-expansion"
    return "other"


def neighbors(case):
    for ag, change in L.ag_neighbors(case["g"]):
        try:
            ag = L.normalise(ag)
        except Exception:
            continue
        c = dict(case, g=ag)
        if change and change[0] == "rename-node":
            _, old, new = change
            if "keys" in c:
                c["keys"] = [[new if a == old else a, b] for a, b in c["keys"]]
            if "table" in c:
                c["table"] = [[new if a == old else a, b] for a, b in c["table"]]
            if "exp" in c:
                c["exp"] = [[new if a == old else a, e] for a, e in c["exp"]]
            if "accept" in c:
                c["accept"] = [new if a == old else a for a in c["accept"]]
        if change and change[0] == "rename-output" and "exp" in c:
            _, nm, old, new = change
            exp2 = []
            for a, e in c["exp"]:
                if a == nm:
                    outs_old = [o for n in case["g"]["nodes"] if n["name"] == nm for o in n["outputs"]]
                    om = dict(map(tuple, e["omap"])) if e["omap"] is not None else {}
                    full = {o: om.get(o, o) for o in outs_old}
                    e = dict(e, omap=[[new if o == old else o, l] for o, l in full.items()])
                exp2.append([a, e])
            c["exp"] = exp2
        yield c
    if case["t"] == "rename":
        if case.get("table"):
            yield dict(case, table=[])
        if case.get("prefix") not in ("r.",):
            yield dict(case, prefix="r.")
    if case["t"] == "expand":
        ex = case.get("exp", [])
        for i in range(len(ex)):
            yield dict(case, exp=ex[:i] + ex[i + 1:])
        for i, (nm, e) in enumerate(ex):
            for sub2, change in L.ag_neighbors(e["sub"]):
                e2 = dict(e, sub=sub2)
                if change and change[0] == "rename-node":
                    _, old, new = change
                    if e["imap"] is not None:
                        e2["imap"] = [[new if a == old else a, b] for a, b in e["imap"]]
                    elif any(k == old for n in case["g"]["nodes"] if n["name"] == nm for k, _, _ in n["inputs"]):
                        continue
                    if e["omap"] is not None:
                        e2["omap"] = [[a, new if b == old else b] for a, b in e["omap"]]
                    else:
                        outs = [o for n in case["g"]["nodes"] if n["name"] == nm for o in n["outputs"]]
                        e2["omap"] = [[o, new if o == old else o] for o in outs]
                yield dict(case, exp=ex[:i] + [[nm, e2]] + ex[i + 1:])
    if case["t"] == "fuse":
        ac = case.get("accept", [])
        for i in range(len(ac)):
            yield dict(case, accept=ac[:i] + ac[i + 1:])
        if case.get("mode") != "all":
            yield dict(case, mode="all")
    if case["t"] == "split":
        ks = case.get("keys", [])
        for i in range(len(ks)):
            yield dict(case, keys=ks[:i] + ks[i + 1:])


def shrink(case, kind, budget=600):
    cur = case
    tries = 0
    changed = True
    while changed and tries < budget:
        changed = False
        for cand in neighbors(cur):
            tries += 1
            if tries > budget:
                break
            _, fails = run_case(cand)
            if any(f["kind"] == kind for f in fails):
                cur = cand
                changed = True
                break
    return cur


# ----------------------------------------------------------------------------- generation

def gen_case(rng, t, nmax, adversarial=True):
    unique = t in ("split", "expand") or rng.random() < (0.7 if t in ("dedup", "fuse") else 0.85)
    ag = L.gen_graph(rng, nmax, adversarial=adversarial, unique_names=unique)
    case = {"t": t, "g": ag}
    names = [n["name"] for n in ag["nodes"]]
    if t == "rename":
        case["prefix"] = rng.choice(["main.", "r.", "", "a.b.", "m"])
        tab = []
        for nm in sorted(set(names)):
            if rng.random() < 0.3:
                other = rng.choice(ag["nodes"])
                tab.append([nm, rng.choice(["x", "main", nm + ".", rng.choice(names), "zz" + nm,
                                            other["name"] + "." + rng.choice(other["outputs"] + ["0"]),
                                            rng.choice(other["outputs"] + [k for k, _, _ in other["inputs"]] + ["0"])])])
        case["table"] = tab
    if t == "fuse":
        if rng.random() < 0.6:
            case["g"] = ag = L.gen_chainy(rng, nmax, adversarial=adversarial)
            names = [n["name"] for n in ag["nodes"]]
        case["mode"] = rng.choice(["all", "all", "table", "linear"])
        case["accept"] = [nm for nm in sorted(set(names)) if rng.random() < 0.6]
    if t == "expand":
        exp = []
        for n in ag["nodes"]:
            if rng.random() < 0.35:
                exp.append([n["name"], gen_expansion(rng, n, adversarial=adversarial, ag=ag)])
        if not exp:
            n = rng.choice(ag["nodes"])
            exp.append([n["name"], gen_expansion(rng, n, adversarial=adversarial, ag=ag)])
        case["exp"] = exp
    if t == "split":
        nk = rng.randint(1, 4)
        case["default"] = 0
        case["keys"] = [[nm, rng.randrange(nk)] for nm in names if rng.random() < 0.8]
        if rng.random() < 0.3:
            # keys by role: producers whose outputs render alike (`<node>.<output>` collisions) in one part, their
            # consumers spread over the others, so that the colliding edges are the ones that are cut
            cons = {j for n in ag["nodes"] for _, j, _ in n["inputs"]}
            case["keys"] = [[n["name"], 0 if i in cons else rng.randint(1, max(1, nk - 1))] for i, n in enumerate(ag["nodes"])]
    return case


LEAF_NAMES = ["mean", "m", "a", "main", "n", "i", "ma.in", ".x", "leaf", "out", "w", "0", "a.b", "nim", "x"]
SUB_MISC = ["src", "reader", "s", "in", "free", "const", "f", "proc", "p", "mid", "process-0", "inner", "writer", "dump", "input"]


def gen_expansion(rng, node, adversarial=True, ag=None):
    """A sub-graph + maps for outer node `node` (mostly meaningful: every output has a leaf).

    Names of ALL sub-graph nodes (sources, inner nodes, leaves, extra sinks) come from one pool: the expanded
    node's input names, its output names, its own name, the parent graph's node names, `<node>.<x>` forms and
    a few plain words.  Input map: None (sources matched by name), explicit (full / partial / empty / two
    sources on one input), with independent sources NOT in the map that may be named like an input of the
    node.  Output map: None, explicit, partial, two outputs on one leaf, keys that are no outputs.
    Shape of the expander's answer: bare Graph, 3-tuple, and (rarely) 1-/2-tuples (not a documented shape)."""
    inames = [k for k, _, _ in node["inputs"]]
    onames = list(node["outputs"])
    gnames = ([n["name"] for n in ag["nodes"]] if ag else []) + [node["name"]]
    pool_in = L.INPUT_NAMES if adversarial else L.PLAIN_INPUT_NAMES
    outsets = [["0"], ["0"], ["o1", "o2"], ["0", "1"]] + ([["name"], ["leaves", "0"], ["payload"]] if adversarial else [])
    if adversarial and onames:
        outsets = outsets + [list(onames)]
    derived = [node["name"] + "." + x for x in inames + onames + ["0"]] + [x + ".0" for x in inames + onames]
    nodes = []
    used = set()

    def fresh(base):
        nm = base
        c = 0
        while nm in used:
            nm = base + str(c)
            c += 1
        used.add(nm)
        return nm

    def pick(bias_inputs=False):
        r = rng.random()
        if adversarial:
            if bias_inputs and inames and r < 0.6:
                return rng.choice(inames)
            if r < 0.25 and inames:
                return rng.choice(inames)
            if r < 0.40 and onames:
                return rng.choice(onames)
            if r < 0.55:
                return rng.choice(gnames)
            if r < 0.65:
                return rng.choice(derived)
            if r < 0.80:
                return rng.choice(LEAF_NAMES)
        return rng.choice(SUB_MISC)

    def source(nm):
        nodes.append({"name": nm, "outputs": list(rng.choice(outsets)), "payload": rng.randint(0, 4), "inputs": []})

    use_imap = rng.random() < 0.55
    imap = [] if use_imap else None
    p_map = rng.choice([0.0, 0.4, 0.75, 0.75, 1.0])       # empty / partial / full maps
    for k in inames:
        if rng.random() < p_map:
            if use_imap:
                nm = fresh(pick())
                imap.append([nm, k])
                source(nm)
                if rng.random() < 0.1:                     # a second source on the same input
                    nm = fresh(pick())
                    imap.append([nm, k])
                    source(nm)
            else:
                nm = fresh(k)
                if nm != k:
                    used.discard(nm)
                    continue
                source(nm)
    # independent sources: not in the explicit map (may be NAMED like an input), or not named like an input
    for _ in range(rng.choice([0, 1, 1, 2]) if nodes else rng.choice([1, 1, 2])):
        source(fresh(pick(bias_inputs=use_imap)))
    if use_imap and rng.random() < 0.04:
        imap.append([fresh("ghost"), "no-such-input"])        # invalid: KeyError
    for _ in range(rng.choice([0, 0, 1, 1, 2, 3])):
        cands = [(j, o) for j, x in enumerate(nodes) for o in x["outputs"]]
        if not cands:
            break
        ks = rng.sample(pool_in, rng.randint(1, min(2, len(cands))))
        nodes.append({"name": fresh(pick()), "outputs": list(rng.choice(outsets)),
                      "payload": rng.randint(0, 4), "inputs": [[kn] + list(rng.choice(cands)) for kn in ks]})
    use_omap = rng.random() < 0.6
    omap = [] if use_omap else None
    p_list = rng.choice([0.3, 0.8, 0.8, 1.0])               # partial / full output maps
    leaves = {}
    for o in node["outputs"]:
        if use_omap and leaves and rng.random() < 0.15:
            omap.append([o, rng.choice(list(leaves))])      # two outputs share one leaf
            continue
        if use_omap and rng.random() < p_list:
            ln = fresh(pick())
            omap.append([o, ln])
        else:
            ln = fresh(o)
            if ln != o:
                if use_omap:
                    omap.append([o, ln])
                else:
                    used.discard(ln)
                    continue      # cannot give this output a leaf without a map: left unmapped (invalid if consumed)
        cands = [(j, oo) for j, x in enumerate(nodes) for oo in x["outputs"]]
        kind = rng.random()
        outs = [] if kind < 0.8 else (["0"] if kind < 0.95 else ["o1"])
        if not cands or rng.random() < 0.05:
            # a leaf that is a source of the sub-graph as well (only meaningful with a default output)
            nodes.append({"name": ln, "outputs": ["0"] if kind < 0.9 else [], "payload": rng.randint(0, 4), "inputs": []})
        else:
            ks = rng.sample(pool_in, rng.randint(1, min(2, len(cands))))
            nodes.append({"name": ln, "outputs": outs, "payload": rng.randint(0, 4), "inputs": [[kn] + list(rng.choice(cands)) for kn in ks]})
        leaves[ln] = len(nodes) - 1
    if use_omap and rng.random() < 0.12:
        omap.append([fresh("no-such-output"), rng.choice(list(leaves) + [pick()])])     # key that is no output: ignored
    if use_omap and omap:
        rng.shuffle(omap)
    for _ in range(rng.choice([0, 0, 0, 1, 1, 2])):
        cands = [(j, oo) for j, x in enumerate(nodes) for oo in x["outputs"]]
        if cands:
            nodes.append({"name": fresh(pick()), "outputs": [] if rng.random() < 0.8 else ["0"], "payload": rng.randint(0, 4),
                          "inputs": [[rng.choice(pool_in)] + list(rng.choice(cands))]})
    consumed = {j for x in nodes for _, j, _ in x["inputs"]}
    sinks = [i for i in range(len(nodes)) if i not in consumed]
    for ln, i in leaves.items():
        if i not in sinks:
            sinks.append(i)
    for i in range(len(nodes)):
        if i not in sinks and rng.random() < 0.06:
            sinks.append(i)                                   # a non-terminal node of the sub-graph that is a sink too
    rng.shuffle(sinks)
    sub = L.normalise({"nodes": nodes, "sinks": sinks})
    e = {"sub": sub, "imap": imap, "omap": omap}
    if imap is None and omap is None and rng.random() < 0.5:
        e["bare"] = True
    elif rng.random() < 0.02:
        e["shape"] = rng.choice([1, 2])                      # (graph,) / (graph, input_map): not a documented answer
    return e


def expansion_features(case):
    """Counters for the evidence distribution: which corners of the expander domain a case touches."""
    f = collections.Counter()
    byname = {n["name"]: n for n in case["g"]["nodes"]}
    gnames = set(byname)
    for nm, e in case.get("exp", []):
        n = byname.get(nm)
        if n is None:
            continue
        inames = {k for k, _, _ in n["inputs"]}
        sub = e["sub"]
        f["exp:shape:" + ("bare" if e.get("bare") else str(e.get("shape", 3)) + "-tuple")] += 1
        f["exp:imap:" + ("none" if e["imap"] is None else "empty" if not e["imap"] else
                         "full" if {b for _, b in e["imap"]} >= inames else "partial")] += 1
        outs = set(n["outputs"])
        f["exp:omap:" + ("none" if e["omap"] is None else "empty" if not e["omap"] else
                         "full" if {a for a, _ in e["omap"]} >= outs else "partial")] += 1
        mapped = None if e["imap"] is None else {a for a, _ in e["imap"]}
        for m in sub["nodes"]:
            if not m["inputs"]:
                if mapped is not None and m["name"] not in mapped:
                    f["exp:independent_source"] += 1
                    if m["name"] in inames:
                        f["exp:independent_source_named_like_input"] += 1
                elif mapped is None and m["name"] not in inames:
                    f["exp:independent_source"] += 1
            elif m["name"] in inames:
                f["exp:inner_node_named_like_input"] += 1
            if m["name"] in outs:
                f["exp:sub_node_named_like_output"] += 1
            if m["name"] in gnames:
                f["exp:sub_node_named_like_outer_node"] += 1
            if nm + "." + m["name"] in gnames:
                f["exp:spliced_name_equals_outer_node"] += 1
    return f


def _nontrivial(ag):
    f = L.features(ag)
    return len(ag["nodes"]) >= 3 and (f["shared"] or f["multi_output"] or f["multi_sink"])


# ----------------------------------------------------------------------------- model side

def model_outs(cases):
    from ekw.core import lean_drive
    res = lean_drive("C11", [json.dumps(c) for c in cases])
    return [json.loads(x) for x in res]


def canon_out(t, out):
    """Canonical comparable form of an outcome (model or impl)."""
    if "err" in out:
        return {"err": True}
    o = out["ok"]
    if t in ("copy", "rename", "expand", "fuse"):
        return {"ok": L.canon(o)}
    if t == "dedup":
        return {"ok": L.canon(o, sort_sinks=True)}
    if t == "split":
        return {"ok": {"parts": sorted([k, L.canon(a, sort_sinks=True)] for k, a in o["parts"]), "cuts": sorted(map(list, o["cuts"]))}}
    raise ValueError(t)


def model_split_view(o):
    """Model split result (shared store) -> per-part AGs like the real side."""
    store = {"nodes": o["nodes"], "sinks": []}
    parts = []
    for k, sinks in o["parts"]:
        parts.append([k, L.restrict(store, sinks)])
    return {"parts": parts, "cuts": o["cuts"]}


# ----------------------------------------------------------------------------- check

def _load_corpus():
    from ekw.core import CORPUS_DIR
    out = []
    for f in sorted(glob.glob(str(CORPUS_DIR / "C11_*.json"))):
        try:
            out.append(json.load(open(f))["case"])
        except Exception:
            pass
    return out


def correspond(ctx):
    n = ctx.budget(8400, 60000)
    nmax = ctx.budget(9, 14)
    cases = _load_corpus()
    for i in range(n):
        t = TRANSFORMS[i % len(TRANSFORMS)]
        cases.append(gen_case(ctx.rng, t, nmax, adversarial=ctx.rng.random() < 0.7))
    impl = []
    reported = set()
    for case in cases:
        out, fails = run_case(case)
        impl.append(out)
        ag = case["g"]
        f = L.features(ag)
        ctx.case({"t": case["t"], "g": ag, **{k: v for k, v in case.items() if k not in ("t", "g")}}, nontrivial=_nontrivial(ag))
        ctx.count("cases")
        ctx.count("t:" + case["t"])
        ctx.count("nodes", len(ag["nodes"]))
        for k, v in f.items():
            if v:
                ctx.count("feature:" + k)
        if "err" in out:
            ctx.count("impl_error:" + str(out["err"]))
        for k, v in out.get("stats", {}).items():
            ctx.count(k, v)
        if case["t"] == "expand":
            for k, v in expansion_features(case).items():
                ctx.count(k, v)
        for fl in fails:
            key = (case["t"], fl["kind"])
            if key in reported and len(reported) > 0 and ctx.dist.get("viol:" + "/".join(key), 0) >= 3:
                ctx.count("viol:" + "/".join(key))
                continue
            ctx.count("viol:" + "/".join(key))
            reported.add(key)
            small = shrink(case, fl["kind"])
            _, f2 = run_case(small)
            what = next((x["what"] for x in f2 if x["kind"] == fl["kind"]), fl["what"])
            ctx.violation({"kind": fl["kind"], "t": case["t"], "cause": classify(small)}, small, f"{case['t']}: {what}")
    mouts = model_outs([permute_case(c, io.get("order")) for c, io in zip(cases, impl)])
    for case, io, mo in zip(cases, impl, mouts):
        ctx.traces += 1
        t = case["t"]
        if io.get("invalid"):
            ctx.count("invalid_expansion_not_compared")
            continue
        try:
            if t == "split" and "ok" in mo:
                mo = {"ok": model_split_view(mo["ok"])}
            a = canon_out(t, io)
            b = canon_out(t, mo)
        except Exception as e:
            ctx.disagree(t, case, mo, f"canonicalisation failed: {_exc(e)}: {e}")
            continue
        if a != b:
            ctx.disagree(t, case, mo, io)


def search(ctx, why):
    """Proof or correspondence broken: larger oracle-only search around the disagreeing cases and fresh ones."""
    seen = {json.dumps(v["signature"], sort_keys=True) for v in ctx.violations}
    pool = [d["case"] for d in ctx.disagreements[:20] if isinstance(d.get("case"), dict) and "g" in d["case"]]
    for i in range(ctx.budget(3000, 20000)):
        t = TRANSFORMS[i % len(TRANSFORMS)]
        pool.append(gen_case(ctx.rng, t, ctx.budget(9, 14)))
    shrunk = collections.Counter()
    for case in pool:
        _, fails = run_case(case)
        for fl in fails:
            if shrunk[(case["t"], fl["kind"])] >= 4:
                continue
            shrunk[(case["t"], fl["kind"])] += 1
            small = shrink(case, fl["kind"])
            sig = {"kind": fl["kind"], "t": case["t"], "cause": classify(small)}
            s = json.dumps(sig, sort_keys=True)
            if s in seen:
                continue
            seen.add(s)
            ctx.violation(sig, small, f"{case['t']}: {fl['what']}")


def replay(payload):
    case = payload["case"]
    out, fails = run_case(case)
    print("case:", json.dumps(case))
    print("impl:", json.dumps(out, default=str)[:2000])
    for f in fails:
        print("oracle:", f["kind"], "-", f["what"])
    return 1 if fails else 0
