"""C01 — see DESIGN.md section 5; shares Model/Ctrl.lean, Drive/Ctrl.lean and harness/ekw/sim_ctrl.py with C01–C04."""
from ekw import c01_real, ctrl_check

PROPERTY = "C01"
LEVEL_TEXT = ("Lean theorems over the small-step system controller x abstract executors (Model/Ctrl.lean, extended system Model/Sched.lean): in every reachable state every stored copy and every delivered output equals the sequential denotation `den` (c01_store_sound, c01_outputs_sound); EVERY REQUESTED DATASET IS DELIVERED: from every reachable state, for any job, feasible cluster, admissible heuristic choice, event order and interleaving, it is inevitable - on every maximal execution, after finitely many steps - that run() returns with every requested output delivered with the sequential value and every task run exactly once (c01_delivers, c01_run_returns_outputs; termination is a theorem: well-founded measure + deadlock freedom, Lemmas/SchedTerm*.lean); the same with no free hypothesis left - component map := the one C16's precompute yields for the job (WFC proved for it), WF and Feasible as Bool checks that the drivers evaluate on every replayed input (c01_delivers_checked); two finished runs on different clusters/placements/event orders agree (c01_independent); c01_outputs_sequential / c01_return_complete / c01_run_delivers as before. Props/C01.lean exhibits reachable finished states with non-empty requested sets (one host; two hosts with a transfer, a late transfer notice and purges). Tied to the real controller by per-phase state correspondence (SimBridge) and a sequential-interpreter oracle, incl. the results a gateway-driven run reports through the real Reporter; the path from the controller's commands to the execution of a task (runner argument binding, output publication, shm, data server, zmq) is not proved but sampled end to end on real local clusters. ")
LEVEL_NOTE = ("modelled, not verified: scheduler/api.py initialize/plan, scheduler/assign.py build_assignment + the pops of _assignment_heuristic, controller/act.py act/flush_queues, controller/notify.py notify/consider_*, impl.run loop skeleton (Model/Ctrl.lean, one Lean function per Python function). Abstracted as an oracle argument validated for admissibility by the model and supplied from what the real run chose: which (idle worker, computable task) pairs the distance/overhead heuristics and host->component migration pick per round, and which `available` host is the transmit source; theorems quantify over all admissible choices. Executors are abstract (Env; SimBridge mirrors it): a dispatched task runs once its inputs are on its host and publishes outputs in index order; transmit/fetch read the source store; purge is immediate. Hypothesis WF: tasks topologically numbered, inputs duplicate-free, >=1 output per task, requested outputs exist, worker ids distinct; WF, WFC (for the component map the real precompute/initialize produced) and Feasible are DECIDED by the Lean drivers on every replayed input (wfCheck/wfcCheck/feasCheck with soundness lemmas, Lemmas/CtrlWFCheck.lean; an input outside them is reported as a harness failure), not assumed of the generator. Fixed on the way: completion of a multi-output task was inferred from the notice of its LAST output, so under any-order delivery a run could spin, wait forever or exit early (fix commit d9c96b4, finding C01-last-output-overtakes now status fixed; corpus witnesses kept as regression inputs). Task values are uninterpreted terms: argument binding inside a task is C10, byte-faithful copies are C07, real (cloud)pickle is sampled only. Sampled, not modelled (harness/ekw/c01_real.py, 10 runs quick / 48 thorough, one per family: dense multi-host, GPU incl. 11-13 workers on one host, custom serdes, ndarray values, many positional arguments, replicated ndarray outputs, …): executor/runner/runner.py run (statics, positional and keyword edges, keyword edges into defaulted parameters, generator outputs in declaration order), runner/memory.py, runner/entrypoint.py, executor/executor.py, data_server.py and the zmq/shm transport, by end-to-end runs of the real controller.impl.run + Bridge + forked executors on 1-3 hosts x 1-3 workers (and 1 host x 11-13 GPU workers) against a sequential interpreter. Since the audit response: commands are interpreted with what they carry (TaskSequence.publish: a body publishes only the outputs named; the controller names all), termination is proved (Lemmas/SchedTerm*.lean; hypotheses WF, WFC, Feasible), the transmit source the real run took is additionally compared with the model's scan over the recorded iteration order of ds2host (another `available` host than the first is tolerated and counted).")
TECHNIQUE = "Lean 4 inductive system invariant (StoreSound + fetch pipeline) over a small-step transition system, with differential state correspondence against the real controller driven through SimBridge"
LEAN_PROPS = ["EkwVerif.Props.C01"]
LEAN_DRIVERS = ["Ctrl"]
RULE = ctrl_check.RULE + (" || real-cluster runs (10 quick / 48 thorough, three at a time in background threads): random jobs of 2-8 real callables (12-16 in the "
                          "wide family) whose values are ints/strings/tuples/bytes/NumPy arrays (int64/float64/uint16/big-endian, 0-d to 2-d, "
                          "non-contiguous views)/Box (a type that refuses pickle and travels only through the serde pair the job registers in "
                          "JobInstance.serdes), built injectively from every bound parameter; static and upstream inputs by position and by keyword, "
                          "keyword edges into parameters with a default, 2-3-output generator tasks whose output names are declared in non-sorted "
                          "order, consumers of non-last outputs, fan-out, dotted task names, two datasets whose task+output names concatenate to the "
                          "same string, a random subset of requested outputs incl. non-sinks; built with TaskBuilder.from_callable/JobBuilder, run by "
                          "the real controller.impl.run + Bridge + forked executors (zmq tcp, shm) on 1-3 hosts x 1-3 workers (workers+1 source tasks "
                          "on several hosts, so that inter-host transfers happen), with CASCADE_GPU_COUNT set and needs_gpu tasks (family gpu; family "
                          "wide-gpu: 1 host x 11-13 GPU workers, one GPU task for each), a linear chain on one host (family chain: purges while later "
                          "tasks run), tasks called with 11-13 positional arguments (family many-pos: all static via with_values(*args), and statics "
                          "mixed with one or two positions fed by edges, a static at a position >= 10, no two static values equal), requested outputs "
                          "whose value is an ndarray of several elements and which are also consumed on another host (family nd-replicated: 2-3 hosts "
                          "x 1 worker, one array source per host, joins over pairs of them: the same dataset is replicated and fetched); one case of every family in the quick tier, topped up until the tier has seen an inter-host transfer and a "
                          "purge. Every requested value is compared (type, dtype and shape included) with a sequential interpreter of the "
                          "JobInstance; from a trace written by the task bodies, the harness-side executor launcher and a log of the Bridge commands "
                          "(nothing of the controller's State) the oracle also decides: a task body is entered at most once and in the process of "
                          "the worker the controller dispatched it to; a GPU task can use an existing device that no other worker running a GPU task "
                          "on that host can use; purges reach the workers (>= 3 sightings, >= 3/4 stale); and, over the commands issued to / events "
                          "returned by the real Bridge in the controller's order (C04's clauses on a real cluster): a transfer or fetch names a source "
                          "from which a DatasetPublished had arrived and whose purge had not been commanded, a purge comes only after every consumer "
                          "announced all its outputs, after the value of a requested dataset arrived, and not while a transfer/fetch commanded from "
                          "that host is unanswered; a DatasetTransmitFailure or a dead data server surfaces as real-cluster-error. Counts of "
                          "sequences/transfers/fetches/purges per run are printed; each run counts as a non-trivial case")
ASSUMPTIONS = list(ctrl_check.ASSUMPTIONS) + [
    "real-cluster runs: wrong or missing values and the trace verdicts (wrong worker, body entered twice, GPU device missing/shared, purge not applied) always count. "
    "A run that raises, or whose controller.impl.run does not return within 25 s of its start, is run again -- once the 1-minute load of the machine is below "
    "its number of cores (waiting at most 180 s) and with three times the patience (75 s: a starved process is slow, a deadlocked one stays deadlocked): the "
    "verdict is reported when it shows again, and ALSO when it does not show again but the job had started in the failing run (cluster past the start-up gate, a "
    "task body entered) -- then with \"reproduced\": false and both runs in the replay; only when the machine was oversubscribed around the first run (load > "
    "cores) a third run decides, and a verdict seen in the first run alone is dropped and counted (real:hang-under-load-not-reproduced-*). It is dropped (and "
    "counted as real:flaky-startup-*) when no task body had been entered. A cluster that is not up within 20 s (a forked helper can deadlock in "
    "fork-with-threads under heavy machine load; 11-13 forked workers need longer on an oversubscribed machine) is started again with 40, 80 and 160 s of "
    "patience; a cluster that never comes up is reported as real-cluster-hang where=start-up",
    "real-cluster runs: below the executor the code sends local messages (worker <-> executor, ipc) through fresh PUSH sockets with a 1 s linger and no "
    "acknowledgement (comms.callback): a process that is not scheduled for more than a second loses such a message and the job stalls. Machine load of that "
    "kind is outside C01; the check limits itself to three concurrent clusters and makes its deciding re-runs on a calmer machine (above)",
]


def correspond(ctx):
    real = c01_real.start_real(ctx)          # real-cluster runs: background threads (they wait for subprocesses) while the SimBridge part runs
    try:
        ctrl_check.correspond(ctx, PROPERTY)
    finally:
        c01_real.finish_real(ctx, real)


def replay(payload):
    if "real" in payload.get("case", {}):
        return c01_real.replay(payload["case"])
    return ctrl_check.replay(payload, PROPERTY)


def search(ctx, why):
    ctrl_check.search(ctx, why, PROPERTY)
