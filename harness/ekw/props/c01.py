"""C01 — see DESIGN.md section 5; shares Model/Ctrl.lean, Drive/Ctrl.lean and harness/ekw/sim_ctrl.py with C01–C04."""
from ekw import c01_real, ctrl_check

PROPERTY = "C01"
LEVEL_TEXT = ("Lean theorems over the small-step system controller x abstract executors (Model/Ctrl.lean, extended system Model/Sched.lean): in every reachable state every stored copy and every delivered output equals the sequential denotation `den` (c01_store_sound, c01_outputs_sound); EVERY REQUESTED DATASET IS DELIVERED: from every reachable state, for any job, feasible cluster, admissible heuristic choice, event order and interleaving, it is inevitable - on every maximal execution, after finitely many steps - that run() returns with every requested output delivered with the sequential value and every task run exactly once (c01_delivers, c01_run_returns_outputs; termination is a theorem: well-founded measure + deadlock freedom, Lemmas/SchedTerm*.lean); the same with no free hypothesis left - component map := the one C16's precompute yields for the job (WFC proved for it), WF and Feasible as Bool checks that the drivers evaluate on every replayed input (c01_delivers_checked); two finished runs on different clusters/placements/event orders agree (c01_independent); c01_outputs_sequential / c01_return_complete / c01_run_delivers as before. Props/C01.lean exhibits reachable finished states with non-empty requested sets (one host; two hosts with a transfer, a late transfer notice and purges). Tied to the real controller by per-phase state correspondence (SimBridge) and a sequential-interpreter oracle, incl. the results a gateway-driven run reports through the real Reporter; the path from the controller's commands to the execution of a task (runner argument binding, output publication, shm, data server, zmq) is not proved but sampled end to end on real local clusters. ")
LEVEL_NOTE = ("modelled, not verified: scheduler/api.py initialize/plan, scheduler/assign.py build_assignment + the pops of _assignment_heuristic, controller/act.py act/flush_queues, controller/notify.py notify/consider_*, impl.run loop skeleton (Model/Ctrl.lean, one Lean function per Python function). Abstracted as an oracle argument validated for admissibility by the model and supplied from what the real run chose: which (idle worker, computable task) pairs the distance/overhead heuristics and host->component migration pick per round, and which `available` host is the transmit source; theorems quantify over all admissible choices. Executors are abstract (Env; SimBridge mirrors it): a dispatched task runs once its inputs are on its host and publishes outputs in index order; transmit/fetch read the source store; purge is immediate. Hypothesis WF: tasks topologically numbered, inputs duplicate-free, >=1 output per task, requested outputs exist, worker ids distinct; WF, WFC (for the component map the real precompute/initialize produced) and Feasible are DECIDED by the Lean drivers on every replayed input (wfCheck/wfcCheck/feasCheck with soundness lemmas, Lemmas/CtrlWFCheck.lean; an input outside them is reported as a harness failure), not assumed of the generator. Fixed on the way: completion of a multi-output task was inferred from the notice of its LAST output, so under any-order delivery a run could spin, wait forever or exit early (fix commit d9c96b4, finding C01-last-output-overtakes now status fixed; corpus witnesses kept as regression inputs). Task values are uninterpreted terms: argument binding inside a task is C10, byte-faithful copies are C07, real (cloud)pickle is sampled only. Sampled, not modelled (harness/ekw/c01_real.py, 13 runs quick / 59 thorough, one per family: dense multi-host, GPU incl. 11-13 workers on one host, custom serdes, ndarray values, many positional arguments, replicated ndarray outputs, values of 64 KiB .. 2 MiB and one of 8 .. 24 MiB transferred / fetched / replicated, zero-length values (b"", "", (), [], empty arrays) and 0-d arrays requested and consumed on another host, task bodies that take 0.2-1.5 s; thorough tier also 4 hosts): executor/runner/runner.py run (statics, positional and keyword edges, keyword edges into defaulted parameters, generator outputs in declaration order), runner/memory.py, runner/entrypoint.py, executor/executor.py, data_server.py and the zmq/shm transport, by end-to-end runs of the real controller.impl.run + Bridge + forked executors on 1-3 hosts x 1-3 workers (and 1 host x 11-13 GPU workers; thorough tier: 4 hosts x 1-2 workers) against a sequential interpreter; an exception the tree's code raises while a run is set up (make_job, precompute, Bridge construction) is a verdict with the case as failing input (real-cluster-error where=set-up), only trouble of the machine (cannot fork, no port, start-up time-outs) is an infrastructure error. Not sampled by the real runs: values above 24 MiB, bodies longer than 1.5 s, more than 4 hosts, more than 13 workers per host, and anything that needs a process to be starved or killed (C05). Since the audit response: commands are interpreted with what they carry (TaskSequence.publish: a body publishes only the outputs named; the controller names all), termination is proved (Lemmas/SchedTerm*.lean; hypotheses WF, WFC, Feasible), the transmit source the real run took is additionally compared with the model's scan over the recorded iteration order of ds2host (another `available` host than the first is tolerated and counted).")
TECHNIQUE = "Lean 4 inductive system invariant (StoreSound + fetch pipeline) over a small-step transition system, with differential state correspondence against the real controller driven through SimBridge"
LEAN_PROPS = ["EkwVerif.Props.C01"]
LEAN_DRIVERS = ["Ctrl"]
RULE = ctrl_check.RULE + (" || real-cluster runs (13 quick / 59 thorough, up to three at a time in background threads; the runs that decide a hang / error verdict go alone): random jobs of 2-8 real callables (12-16 in the "
                          "wide family) whose values are ints/strings/tuples/bytes/NumPy arrays (int64/float64/uint16/big-endian, 0-d to 2-d, "
                          "non-contiguous views)/Box (a type that refuses pickle and travels only through the serde pair the job registers in "
                          "JobInstance.serdes), built injectively from every bound parameter; static and upstream inputs by position and by keyword, "
                          "keyword edges into parameters with a default, 2-3-output generator tasks whose output names are declared in non-sorted "
                          "order, consumers of non-last outputs, fan-out, dotted task names, two datasets whose task+output names concatenate to the "
                          "same string, a random subset of requested outputs incl. non-sinks; built with TaskBuilder.from_callable/JobBuilder, run by "
                          "the real controller.impl.run + Bridge + forked executors (zmq tcp, shm) on 1-3 hosts x 1-3 workers (workers+1 source tasks "
                          "on several hosts, so that inter-host transfers happen), with CASCADE_GPU_COUNT set and needs_gpu tasks (family gpu; family "
                          "wide-gpu: 1 host x 11-13 GPU workers, one GPU task for each), a linear chain on one host (family chain: purges while later "
                          "tasks run), tasks called with 11-13 positional arguments (family many-pos: all static via with_values(*args), and statics "
                          "mixed with one or two positions fed by edges, a static at a position >= 10, no two static values equal), requested outputs "
                          "whose value is an ndarray of several elements and which are also consumed on another host (family nd-replicated: 2-3 hosts "
                          "x 1 worker, one array source per host, joins over pairs of them: the same dataset is replicated and fetched), values of 64 KiB .. 2 MiB "
                          "(family big-values: every value a `bytes` or an ndarray -- int64 / float64 2-d / uint16 every-other-row view / int32 Fortran order / uint8 -- "
                          "of that size from a seeded PCG64 stream, but for the first source whose value (bytes or int64 array) has 8 .. 24 MiB, more than a socket buffer "
                          "holds; one source per host, all requested, joins over two sources on different hosts that return a big value "
                          "again: the value is transferred, fetched by the controller and held by two hosts; compared through length, dtype, shape and sha256), task bodies "
                          "that take 0.2-1.5 s of wall clock in their worker (family slow-bodies: time.sleep inside the body, 2-3 hosts, longest path <= 3.5 s, so that "
                          "heartbeats, resend / grace timers and the 1 s linger come due while tasks run), zero-length values (family zero-length: b\"\", \"\", (), [], "
                          "np.zeros(0), an int32 array of shape (0, 3), and a 0-d float32 array, as results of 3-5 sources -- one of them a 2-output generator -- on 2-3 "
                          "hosts x 1 worker, every one requested AND consumed by joins over sources of different hosts; b\"\" in every case), and in the thorough tier 4 hosts x 1-2 workers with more "
                          "sources than three hosts have workers (family four-hosts); one case of every family in the quick tier (no family is skipped because "
                          "others failed: after two cases with a hang / error in their first run the remaining cases are run once each, and a hang / error seen in such "
                          "a single run is reported when the same verdict is confirmed on another case, else decided by deciding runs for at most two cases, else "
                          "recorded in the evidence as unconfirmed), topped up until the tier has seen an inter-host transfer and a "
                          "purge. Every requested value is compared (type, dtype and shape included) with a sequential interpreter of the "
                          "JobInstance; from a trace written by the task bodies, the harness-side executor launcher and a log of the Bridge commands "
                          "(nothing of the controller's State) the oracle also decides: a task body is entered at most once and in the process of "
                          "the worker the controller dispatched it to; a GPU task can use an existing device that no other worker running a GPU task "
                          "on that host can use; purges reach the workers (>= 3 sightings, >= 3/4 stale); and, over the commands issued to / events "
                          "returned by the real Bridge in the controller's order (C04's clauses on a real cluster): a transfer or fetch names a source "
                          "from which a DatasetPublished had arrived and whose purge had not been commanded, a purge comes only after every consumer "
                          "announced all its outputs, after the value of a requested dataset arrived, and not while a transfer/fetch commanded from "
                          "that host is unanswered; a DatasetTransmitFailure or a dead data server surfaces as real-cluster-error; an exception raised while the run is "
                          "set up (imports of the tree, make_job, precompute, Bridge construction, get_environment) that is not of a kind the machine produces "
                          "(queue.Empty / time-outs of the harness, OSError / ZMQError with errno EAGAIN ENOMEM EMFILE ENFILE EADDRINUSE ...) is real-cluster-error "
                          "where=set-up with the case as failing input, confirmed by a second run with fresh ports (the step, the raise site and the frames under "
                          "<clone>/src are in the report). Counts of "
                          "sequences/transfers/fetches/purges per run are printed; each run counts as a non-trivial case")
ASSUMPTIONS = list(ctrl_check.ASSUMPTIONS) + [
    "real-cluster runs: wrong or missing values and the trace verdicts (wrong worker, body entered twice, GPU device missing/shared, purge not applied) always count. "
    "A run that raises, or whose controller.impl.run does not return within 25 s of its start (75 s when the machine has more runnable processes than cores at that "
    "moment: a healthy run took 20-45 s there, 0.3-6 s on a quiet machine), is decided by further runs of the same case (same hash seed, fresh "
    "ports): these start once the 1-minute load of the machine is below its number of cores (waiting at most 180 s; 20 s when such a wait has run out within the "
    "last ten minutes), have three times the patience (75 s: a starved "
    "process is slow, a deadlocked one stays deadlocked) and go ALONE (no other real run of the check meanwhile). `loaded` = load per core > 1.0 around the first run "
    "or still when the deciding run starts. NOT loaded: the verdict is reported when the second run shows it again, and ALSO when it does not but the job had started "
    "in the failing run (cluster past the start-up gate, a task body entered) -- then with \"reproduced\": false; it is dropped (counted as real:flaky-startup-*) "
    "when no task body had been entered. LOADED, and the verdict is one a starved machine can produce on a healthy tree (every hang; an error whose text speaks of a "
    "heartbeat, a time-out, a grace period or a connection -- NOT an exception object of the tree's code reported up, such as TaskFailure(... TypeError ...) or "
    "DatasetTransmitFailure(... BufferError ...), which follows the rules of the machine that is not loaded): the verdict is reported only when it shows in EVERY deciding run, the patient second AND a patient third one (a "
    "deterministic failure always reproduces); clean in either -> dropped, counted (real:hang-under-load-not-reproduced-*) and noted with the loads. The load figures "
    "and the summaries of all runs are part of the replay record and of the evidence (real_dropped_under_load). A cluster that is not up within 20 s (a forked "
    "helper can deadlock in fork-with-threads under heavy machine load; 11-13 forked workers need longer on an oversubscribed machine) is started again with 40, 80 "
    "and 160 s of patience; a cluster that never comes up is reported as real-cluster-hang where=start-up",
    "real-cluster runs: below the executor the code sends local messages (worker <-> executor, ipc) through fresh PUSH sockets with a 1 s linger and no "
    "acknowledgement (comms.callback): a process that is not scheduled for more than a second loses such a message and the job stalls. Machine load of that "
    "kind is outside C01; the check limits itself to three concurrent clusters (two when the machine has more runnable processes than cores, one when more than "
    "twice as many), makes its deciding re-runs alone and on a calmer machine (above), and runs the "
    "cluster processes at niceness -10 when it may (they mostly wait)",
    "real-cluster runs: infrastructure error (exit 2) only for trouble of the machine -- the runner cannot be forked, no free port range, a set-up exception of a "
    "kind the machine produces on every attempt without the same frames of the tree below it, the runner exiting without a result; an exception out of the tree's "
    "code in the set-up phase is a verdict (above). A set-up exception that does not show again on the second run is reported with \"reproduced\": false when it "
    "was raised by a line under <clone>/src or in make_job / precompute, else dropped and counted",
]


def correspond(ctx):
    real = c01_real.start_real(ctx)          # real-cluster runs: background threads (they wait for subprocesses) while the SimBridge part runs
    try:
        ctrl_check.correspond(ctx, PROPERTY)
    finally:
        c01_real.finish_real(ctx, real)


def replay(payload):
    if "real" in payload.get("case", {}):
        return c01_real.replay(payload["case"])
    return ctrl_check.replay(payload, PROPERTY)


def search(ctx, why):
    ctrl_check.search(ctx, why, PROPERTY)
