"""C01 — see DESIGN.md section 5; shares Model/Ctrl.lean, Drive/Ctrl.lean and harness/ekw/sim_ctrl.py with C01–C04."""
from ekw import c01_real, ctrl_check

PROPERTY = "C01"
LEVEL_TEXT = ("Lean theorems over the small-step system controller x abstract executors (Model/Ctrl.lean): in every reachable state every stored copy "
              "and every delivered output equals the sequential denotation `den` (seqEval: tasks in order); when run() returns every requested "
              "output has been delivered with that value and every task ran exactly once (c01_outputs_sequential, c01_return_complete); two finished runs on "
              "different clusters/placements/event orders agree (c01_independent); on every feasible cluster the run cannot spin (bounded loop iterations), never "
              "waits with nothing outstanding and never raises, for ANY event order (c01_run_delivers; executor fairness is the only assumption left to "
              "'every run returns the requested outputs'). "
              "Proved from the 7-tier system invariant (InvAll, ~90 conjuncts) by induction over steps, for any order/batching of events and any "
              "interleaving of executor steps. Tied to the real controller by per-phase state correspondence (SimBridge) and a sequential-"
              "interpreter oracle; the path from the controller's commands to the execution of a task (runner argument binding, output "
              "publication, shm, data server, zmq) is not proved but sampled end to end: random jobs of real callables run on real local "
              "clusters and every requested value is compared with a sequential interpreter of the JobInstance.")
LEVEL_NOTE = ("modelled, not verified: scheduler/api.py initialize/plan, scheduler/assign.py build_assignment + the pops of _assignment_heuristic, controller/act.py act/flush_queues, controller/notify.py notify/consider_*, impl.run loop skeleton (Model/Ctrl.lean, one Lean function per Python function). Abstracted as an oracle argument validated for admissibility by the model and supplied from what the real run chose: which (idle worker, computable task) pairs the distance/overhead heuristics and host->component migration pick per round, and which `available` host is the transmit source; theorems quantify over all admissible choices. Executors are abstract (Env; SimBridge mirrors it): a dispatched task runs once its inputs are on its host and publishes outputs in index order; transmit/fetch read the source store; purge is immediate. Hypothesis WF: tasks topologically numbered, inputs duplicate-free, >=1 output per task, requested outputs exist, worker ids distinct (the generator guarantees it). Fixed on the way: completion of a multi-output task was inferred from the notice of its LAST output, so under any-order delivery a run could spin, wait forever or exit early (fix commit d9c96b4, finding C01-last-output-overtakes now status fixed; corpus witnesses kept as regression inputs). Task values are uninterpreted terms: argument binding inside a task is C10, byte-faithful copies are C07, real (cloud)pickle is sampled only. Sampled, not modelled (harness/ekw/c01_real.py, 3 runs quick / 40 thorough): executor/runner/runner.py run (statics, positional and keyword edges, keyword edges into defaulted parameters, generator outputs in declaration order), runner/memory.py, runner/entrypoint.py, executor/executor.py, data_server.py and the zmq/shm transport, by end-to-end runs of the real controller.impl.run + Bridge + forked executors on 1-2 hosts x 1-2 workers against a sequential interpreter.")
TECHNIQUE = "Lean 4 inductive system invariant (StoreSound + fetch pipeline) over a small-step transition system, with differential state correspondence against the real controller driven through SimBridge"
LEAN_PROPS = ["EkwVerif.Props.C01"]
LEAN_DRIVERS = ["Ctrl"]
RULE = ctrl_check.RULE + (" || real-cluster runs: random jobs of 2-6 real callables (ints/strings/tuples built injectively from every bound parameter; static "
                          "and upstream inputs by position and by keyword, keyword edges into parameters with a default, 2-3-output generator tasks "
                          "whose output names are declared in non-sorted order, consumers of non-last outputs, fan-out, dotted task names, a random "
                          "subset of requested outputs incl. non-sinks) built with TaskBuilder.from_callable/JobBuilder, run by the real "
                          "controller.impl.run + Bridge + forked executors (zmq tcp, shm) on 1-2 hosts x 1-2 workers; every requested value is "
                          "compared with a sequential interpreter of the JobInstance; each run counts as a non-trivial case")
ASSUMPTIONS = list(ctrl_check.ASSUMPTIONS) + [
    "real-cluster runs: a run that does not end by the deadline (30 s) or raises counts only if an immediate re-run of the same case does not end cleanly either "
    "(a fork-with-threads deadlock at cluster start-up under heavy machine load is outside C01); wrong or missing values always count",
]


def correspond(ctx):
    ctrl_check.correspond(ctx, PROPERTY)
    c01_real.correspond_real(ctx)


def replay(payload):
    if "real" in payload.get("case", {}):
        return c01_real.replay(payload["case"])
    return ctrl_check.replay(payload, PROPERTY)
