"""C01 — see DESIGN.md section 5; shares Model/Ctrl.lean, Drive/Ctrl.lean and harness/ekw/sim_ctrl.py with C01–C04."""
from ekw import ctrl_check

PROPERTY = "C01"
LEVEL_TEXT = ("Lean theorems over the small-step system controller x abstract executors (Model/Ctrl.lean): in every reachable state every stored copy "
              "and every delivered output equals the sequential denotation `den` (seqEval: tasks in order); when run() returns every requested "
              "output has been delivered with that value; two finished runs on different clusters/placements/event orders agree (c01_independent). "
              "Proved from the 7-tier system invariant (InvAll, ~90 conjuncts) by induction over steps, for any order/batching of events and any "
              "interleaving of executor steps. Tied to the real controller by per-phase state correspondence (SimBridge) and a sequential-"
              "interpreter oracle.")
LEVEL_NOTE = ("modelled, not verified: scheduler/api.py initialize/plan, scheduler/assign.py build_assignment + the pops of _assignment_heuristic, controller/act.py act/flush_queues, controller/notify.py notify/consider_*, impl.run loop skeleton (Model/Ctrl.lean, one Lean function per Python function). Abstracted as an oracle argument validated for admissibility by the model and supplied from what the real run chose: which (idle worker, computable task) pairs the distance/overhead heuristics and host->component migration pick per round, and which `available` host is the transmit source; theorems quantify over all admissible choices. Executors are abstract (Env; SimBridge mirrors it): a dispatched task runs once its inputs are on its host and publishes outputs in index order; transmit/fetch read the source store; purge is immediate. Hypothesis WF: tasks topologically numbered, inputs duplicate-free, >=1 output per task, requested outputs exist, worker ids distinct (the generator guarantees it). Task values are uninterpreted terms: argument binding inside a task is C10, byte-faithful copies are C07, real (cloud)pickle is sampled only.")
TECHNIQUE = "Lean 4 inductive system invariant (StoreSound + fetch pipeline) over a small-step transition system, with differential state correspondence against the real controller driven through SimBridge"
LEAN_PROPS = ["EkwVerif.Props.C01"]
LEAN_DRIVERS = ["Ctrl"]
RULE = ctrl_check.RULE
ASSUMPTIONS = ctrl_check.ASSUMPTIONS


def correspond(ctx):
    ctrl_check.correspond(ctx, PROPERTY)


def replay(payload):
    return ctrl_check.replay(payload, PROPERTY)
