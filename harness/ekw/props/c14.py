"""C14 — fluent node names identify computations; operations leave operands intact.

Tie: for random fluent programs every node of every resulting graph is re-named by the model
(Model/Names.lean renders `fname + repr(args) + repr(kwargs) + repr([input names])` + `|outputs=n` unless n = 1,
Python applies sha256) bottom-up and compared with the real `Node.name`; `from_source` labels likewise.
The statements whose code path writes to `Action.nodes` in place or hands back an existing object —
`transform` with a func that hands back an existing action (or the receiver), stack/concatenate on a
dimension of size 1, select/iselect without criteria — are replayed on the heap model (`Names.transformH`,
`combineH`, `selectH`): the node array of the result, WHICH object the result is, and the node array of every
action object that existed before are compared with the real ones, node object by node object.
Oracle (from the property text, independent of the model):
 (a) building the same program twice gives the same names — twice in this process AND twice in a fresh
     interpreter with another string-hash seed (state surviving between builds may be saturated here);
 (b) among all nodes of all actions of a program (shared sources) two nodes with the same name have the same
     callable (identity), the same statics (by value), the same inputs bound to the same parameters and the same outputs;
 (c) the union on the REAL path: Cascade.from_actions / + / += (deduplicate_nodes), serialise, graph2job — names unique in
     the union, exactly one node per distinct computation, two builds of one program unite to one, the union serialises
     and lowers to exactly its nodes, no union changes an earlier union or node objects of existing actions, a new
     Cascade() is empty;
 (d) dims / coords / node identities of EVERY live action (not only the operands) and what every node object of
     every live action holds (name, payload, inputs by object, outputs) are snapshotted around each operation
     and must not change.
"""
import glob
import hashlib
import json
import os
import time

for _v in ("OMP_NUM_THREADS", "OPENBLAS_NUM_THREADS", "MKL_NUM_THREADS"):
    os.environ.setdefault(_v, "1")   # before NumPy is first imported: node arrays are object arrays, BLAS thread pools only cost time

PROPERTY = "C14"
LEVEL_TEXT = ("Lean theorems over Model/Names.lean. Names: a node name is a function of (callable __name__, statics, input names) only; for an "
              "injective hash, uniquely decodable statics, callables distinguished by __name__ and plain input names, equal names imply equal "
              "(callable, statics, inputs) — the rendering of the input-name list is proved injective, not assumed, so the same inputs in a "
              "different order give a different name; by induction over the depth of the graph (source nodes and '<parent>.<output>' input "
              "names included, which are proved never to collide with node names) equal names imply the same computation all the way "
              "down; the number of outputs is part of the name. What the name does not cover is refuted by witnesses: callables of "
              "equal __name__, statics with a lossy repr. Unions: de-duplication keeps every computation exactly once and is idempotent over two builds; where "
              "names identify computations the names of the union are pairwise different and lowering by name finds the computation. "
              "Existing actions: Action.transform, stack/concatenate and select are modelled on a heap of action objects with their in-place "
              "writes (_add_dimension, _squeeze_dimension) and their hand-backs of existing objects; for every func (new action, the "
              "receiver, any previously built action), every heap and every history of operations no existing action object changes, only "
              "the documented operations hand back an existing object, the heap model agrees with the value model of C13, and re-wrapping "
              "func's result only when it is the receiver is refuted by a witness. Tied to the real fluent API by re-deriving every real "
              "node name from the model's rendering, by replaying the in-place / hand-back statements on the heap model, and by the oracles.")
LEVEL_NOTE = ("modelled, not verified: fluent.py Payload.__str__/name, Node.__init__ naming, from_source label uniqueness, Action.join/"
              "broadcast/reduce as store operations, Action.transform/_combine_nodes/select with _add_dimension/_squeeze_dimension as heap "
              "operations (the in-place squeeze inside the batching loop of reduce is modelled at value level only), deduplicate_nodes as "
              "first-occurrence de-duplication of equal computations; sha256 is applied by the harness to the model's rendering (collision "
              "freedom and hex digests are the hypotheses `Function.Injective H`, `Clean (H s)`); Python repr is modelled for int/str/"
              "float/bool/None/list/tuple/dict only (nodes with other statics are judged by the oracle only); unique decodability of the "
              "statics' repr is a hypothesis and FAILS for lossy reprs (known findings); Python object identity is observed by the snapshots "
              "and by node-object ids compared with the heap model; the func passed to transform is one of three kinds (TFunc); the real "
              "union path (Cascade, deduplicate_nodes, serialise, graph2job) is covered by the oracle, its model is the list-level dedupNodes")
TECHNIQUE = ("Lean 4 proof (string decomposition lemmas on List Char; mutual induction over computation terms; write-set invariant of a heap model) "
             "+ differential correspondence of node names and of heaps around in-place / hand-back statements + snapshots of every existing action "
             "and node object around every operation + the real Cascade union / serialise / graph2job path + rebuilds in fresh interpreters")
LEAN_PROPS = ["EkwVerif.Props.C14"]
LEAN_DRIVERS = ["C14"]
RULE = ("random fluent programs as in C13 (shared sources, branches) extended with pairs of different callables of equal __name__ "
        "(two lambdas, two functions called `scale`, two reduce lambdas), repeated identical operations, equal callables with different "
        "statics, binary operations between actions whose coordinate values differ (match_coord_values), non-commutative binary "
        "operations with swapped operands (a-b and b-a, a/b and b/a), order-sensitive reductions over the same nodes joined / selected "
        "in a different order, stack/concatenate on size-1 dimensions, transform with an identity function and with functions that "
        "look up previously built actions (other than the receiver, lacking the join dimension; one or several parameters), the same "
        "callable with one and with several outputs (yields), statics of other types (nested lists, dict/list-valued keyword arguments, "
        "2000-element arrays differing at one index, objects with the default repr: one per process / one per build), select/iselect "
        "without criteria followed by operations on the object handed back. Every program is built three times in the check process "
        "(names, unions); the witnesses and a sample (40 quick / 600 thorough) are also built twice in fresh interpreters (pristine module "
        "state, different string-hash seed). non-trivial = program with >= 2 non-source statements; distinct by content hash")
ASSUMPTIONS = [
    "sha256 is collision free on the rendered strings and its digests are hex strings (hypotheses `Function.Injective H`, `Clean (H s)`)",
    "callable identity is Python object identity (`is`) of the payload function",
    "the correspondence of names covers statics that are ints, floats, strings, bools, None, lists, tuples, string-keyed dicts; other statics (arrays, objects) are judged by the oracle only",
    "the func given to transform is one of: builds a new action from the receiver, returns the receiver, returns an action built before (TFunc)",
]

# ----------------------------------------------------------------------------- program generation

def _plain(g, k):
    from ekw import c13_fluent as F
    return all(F.OPAQUE not in l for _, l in g.dims_of(k))


def _ok(g, k):
    return k is not None and not isinstance(g.env[k], tuple)


def gen_program(rng, max_ops=4):
    from ekw import c13_fluent as F
    g = F.Gen(rng, max_ops=max_ops, max_pos=24)
    g.generate()
    # C14 extras on top of the C13 program: same operand, same statics, different / same callables
    for _ in range(rng.randint(2, 5)):
        lv = g.live()
        if not lv:
            break
        k = rng.choice(lv)
        dims = g.dims_of(k)
        r = rng.random()
        try:
            _extra(g, rng, k, dims, r)
        except Exception as e:   # the generator inspects real results; never let that crash a check
            g.prog.setdefault("gen_notes", []).append(f"{type(e).__name__}: {str(e)[:80]}")
    return g.prog


def _extra(g, rng, k, dims, r):
    from ekw import c13_fluent as F
    if r < 0.14:
        a, b = rng.choice([("lam1", "lam2"), ("dupA", "dupB"), ("lam1", "lam1"), ("neg", "neg")])
        g.push({"op": "map", "a": k, "fn": a})
        g.push({"op": "map", "a": k, "fn": b})
    elif r < 0.22 and dims:
        d = rng.choice(dims)[0]
        a, b = rng.choice([("rlam1", "rlam2"), ("first", "first"), ("wsum", "first")])
        g.push({"op": "reduce", "a": k, "fn": a, "dim": d, "bs": 0, "keep": False})
        g.push({"op": "reduce", "a": k, "fn": b, "dim": d, "bs": 0, "keep": False})
    elif r < 0.30:
        g.push({"op": "map", "a": k, "fn": "affine", "k": 2})
        g.push({"op": "map", "a": k, "fn": "affine", "k": rng.choice([2, 3])})
    elif r < 0.37 and dims:
        d, lab = rng.choice(dims)
        if F.OPAQUE not in lab:
            g.push({"op": "named", "a": k, "name": "sum", "dim": d, "bs": 0, "keep": False, "kw": []})
            g.push({"op": "named", "a": k, "name": "sum", "dim": d, "bs": 0, "keep": False, "kw": [["axis", 0]] if rng.random() < 0.5 else []})
    elif r < 0.44:
        j = g.partner(k, relabel=True)
        if j is not None:
            g.push({"op": "arith", "a": k, "fn": rng.choice(["add", "subtract"]), "b": j})
    elif r < 0.56:
        # the same non-commutative operation with the operands swapped: a-b and b-a over shared sources
        j = g.partner(k, relabel=rng.random() < 0.5)
        if j is not None:
            fn = rng.choice(["subtract", "subtract", "divide", "pow", "add"])
            g.push({"op": "arith", "a": k, "fn": fn, "b": j})
            g.push({"op": "arith", "a": j, "fn": fn, "b": k})
    elif r < 0.63:
        # an order-sensitive reduction over the same nodes, joined in both orders
        j = g.partner(k, relabel=False)
        if j is not None:
            nm = g.name("j")
            fn = rng.choice(["wsum", "rlam1", "first"])
            x = g.push({"op": "join", "a": k, "b": j, "dim": nm, "match": False})
            y = g.push({"op": "join", "a": j, "b": k, "dim": nm, "match": False})
            if _ok(g, x) and _ok(g, y):
                g.push({"op": "reduce", "a": x, "fn": fn, "dim": nm, "bs": 0, "keep": False})
                g.push({"op": "reduce", "a": y, "fn": fn, "dim": nm, "bs": 0, "keep": False})
    elif r < 0.70 and dims:
        # … and over the same nodes selected in a different order along the dimension
        big = [(d, l) for d, l in dims if len(l) >= 2 and F.OPAQUE not in l and len(set(map(str, l))) == len(l)]
        if big:
            d, lab = rng.choice(big)
            perm = list(lab)
            while perm == list(lab):
                rng.shuffle(perm)
            x = g.push({"op": "select", "a": k, "dim": d, "vals": perm, "drop": False})
            if _ok(g, x):
                if rng.random() < 0.6:
                    fn = rng.choice(["wsum", "rlam1"])
                    g.push({"op": "reduce", "a": k, "fn": fn, "dim": d, "bs": 0, "keep": False})
                    g.push({"op": "reduce", "a": x, "fn": fn, "dim": d, "bs": 0, "keep": False})
                else:
                    nm = rng.choice(["sum", "max"])
                    g.push({"op": "named", "a": k, "name": nm, "dim": d, "bs": 0, "keep": False, "kw": []})
                    g.push({"op": "named", "a": x, "name": nm, "dim": d, "bs": 0, "keep": False, "kw": []})
    elif r < 0.78 and dims:
        ones = [d for d, l in dims if len(l) == 1]
        d = rng.choice(ones) if ones and rng.random() < 0.8 else rng.choice(dims)[0]
        g.push({"op": rng.choice(["stack", "concatenate"]), "a": k, "dim": d, "bs": 0, "keep": rng.random() < 0.3, "axis": 0})
    elif r < 0.84:
        n = rng.randint(1, 2)
        g.push({"op": "transform", "a": k, "func": "ident", "params": list(range(n)), "dim": g.name("t"), "axis": 0})
    elif r < 0.92:
        _lookup_transform(g, rng, k)
    else:
        _more_extras(g, rng, k, dims)


def _more_extras(g, rng, k, dims):
    """same callable with one and with several outputs; static arguments of other types (nested lists, dict-valued
    keyword arguments, big arrays, objects with the default repr); operations that hand back the action itself"""
    r = rng.random()
    if r < 0.30:
        fn = rng.choice(["neg", "lam1", "keep"])
        g.push({"op": "map", "a": k, "fn": fn})
        g.push({"op": "map", "a": k, "fn": fn, "yields": [g.name("y"), [0, 1]]})
    elif r < 0.40 and dims:
        d = rng.choice(dims)[0]
        g.push({"op": "reduce", "a": k, "fn": "first", "dim": d, "bs": 0, "keep": False})
        g.push({"op": "reduce", "a": k, "fn": "first", "dim": d, "bs": 0, "keep": False, "yields": [g.name("y"), [0, 1]]})
    elif r < 0.70:
        a, b = rng.choice([({"kwdict": {"a": 1}}, {"kwdict": {"a": 2}}), ({"kwdict": {"a": 1, "b": "x"}}, {"kwdict": {"b": "x", "a": 1}}),
                           ({"kwlist": [1, 2]}, {"kwlist": [2, 1]}), ({"nested": [[1, 2], 3]}, {"nested": [[1], 2, 3]}),
                           ({"int": 1}, {"nested": [1]}), ({"big": "A"}, {"big": "B"}), ({"big": "A"}, {"big": "A"}),
                           ({"config": 1}, {"config": 2}), ({"config": 1}, {"config": 1}), ({"newconfig": 1}, {"int": 1})])
        g.push({"op": "map", "a": k, "fn": "keep", "static": a})
        g.push({"op": "map", "a": k, "fn": "keep", "static": b})
    elif r < 0.80 and dims:
        # ONE Payload object passed to a map and then to a reduce (which needs more input names in its argument list)
        d = rng.choice(dims)[0]
        n = rng.randint(1, 9)
        g.push({"op": "map", "a": k, "fn": "first", "share": n})
        g.push({"op": "reduce", "a": k, "fn": "first", "dim": d, "bs": 0, "keep": False, "share": n})
        g.push({"op": "map", "a": k, "fn": "first", "share": n})
    else:
        x = g.push({"op": "alias", "a": k, "how": rng.choice(["select", "iselect"])})
        if _ok(g, x):
            if rng.random() < 0.5:
                g.push({"op": "transform", "a": x, "func": "ident", "params": [0] * rng.randint(1, 2), "dim": g.name("t"), "axis": 0})
            else:
                g.push({"op": "map", "a": x, "fn": "neg"})


def _lookup_transform(g, rng, k):
    """a.transform(lambda act, i: table[i], …): func hands back actions that were built before — another
    action than the receiver, without the join dimension; the table may hold one action, the same action
    several times, different actions of equal dimensions, or the receiver among others"""
    others = [j for j in g.live() if j != k and _plain(g, j)]
    shape = rng.random()
    if not others or shape < 0.12:
        j = g.partner(k, relabel=False, permute=False) if _plain(g, k) else None
        if j is None:
            return
        others = [j]
    j = rng.choice(others)
    if shape < 0.40:
        table = [j]
    elif shape < 0.60:
        table = [j] * rng.randint(2, 3)
    elif shape < 0.85:
        j2 = g.partner(j, relabel=rng.random() < 0.2, permute=rng.random() < 0.3)
        table = [j, j2] if j2 is not None else [j, j]
        if rng.random() < 0.3:
            table.append(rng.choice(table))
    else:
        table = [k, j] if rng.random() < 0.5 else [j, k]
    nd = len(g.dims_of(j))
    nm = g.name("t")
    dim = nm if rng.random() < 0.6 else [nm, g.labels_for(len(table), "str")]
    try:
        ones = [(d, l) for d, l in g.dims_of(j) if l is not None and len(l) == 1 and all(isinstance(x, (int, str)) for x in l)]
    except Exception:
        ones = []
    if ones and rng.random() < 0.5:
        # the action handed back already carries the dimension (one label): nothing to add, only the closing squeeze
        d1, l1 = rng.choice(ones)
        table, dim = [j], [d1, list(l1)]
    axis = rng.randint(0, nd) if rng.random() < 0.8 else 0
    g.push({"op": "transform", "a": k, "func": "lookup", "r": table, "params": list(range(len(table))), "dim": dim, "axis": axis})
    # the actions handed back are used again afterwards
    if rng.random() < 0.5:
        g.push({"op": "map", "a": j, "fn": "neg"})
    elif len(table) > 1 and table[1] != table[0]:
        g.push({"op": "join", "a": table[0], "b": table[1], "dim": g.name("j"), "match": False})


# ----------------------------------------------------------------------------- inspection of real graphs

def _pyval(x):
    import numpy as np
    if isinstance(x, np.generic):
        x = x.item()
    if isinstance(x, bool) or x is None or isinstance(x, str):
        return x
    if isinstance(x, int):
        return x
    if isinstance(x, float):
        return {"f": repr(x)}
    if isinstance(x, list):
        return [_pyval(y) for y in x]
    if isinstance(x, tuple):
        return {"t": [_pyval(y) for y in x]}
    if isinstance(x, dict) and all(isinstance(k, str) for k in x):
        return {"d": [[k, _pyval(v)] for k, v in x.items()]}
    raise TypeError(f"unsupported static {type(x).__name__}")


def collect_nodes(actions):
    """all distinct Node objects reachable from the given actions, inputs before users"""
    from earthkit.workflows.graph import Output
    order, seen = [], set()

    def visit(n):
        if id(n) in seen:
            return
        seen.add(id(n))
        for out in n.inputs.values():
            visit(out.parent)
        order.append(n)
    for a in actions:
        for x in a.nodes.data.flat if a.nodes.data.shape else [a.nodes.data.item()]:
            visit(x.parent if isinstance(x, Output) else x)
    return order


def node_record(n):
    from earthkit.workflows.graph import Node as BaseNode
    func, args, kwargs = n.payload
    given = n._for_copy[1]
    if not isinstance(given, (list, tuple)) and not hasattr(given, "__len__"):
        given = [given]
    inputs = []
    for x in list(given):
        if isinstance(x, BaseNode):
            inputs.append([x.name, None])
        else:
            inputs.append([x.parent.name, x.name])
    fname = getattr(func, "__name__", "")
    return {"fname": fname, "args": [_pyval(a) for a in args], "kwargs": [[k, _pyval(v)] for k, v in kwargs.items()],
            "inputs": inputs, "outputs": len(n.outputs), "label": n._for_copy[3] if n._for_copy[3] is not None else fname}


def source_items(action):
    import numpy as np
    data = action.nodes.data
    out = []
    for idx in np.ndindex(*data.shape):
        n = data[idx]
        out.append([getattr(n.payload[0], "__name__", ""), list(idx), n._for_copy[3]])
    return out


def snapshot(action):
    n = action.nodes
    return {"dims": [str(d) for d in n.dims], "shape": list(n.shape),
            "coords": sorted((str(k), [str(d) for d in v.dims], repr(v.data.tolist())) for k, v in n.coords.items()),
            "nodes": [id(x) for x in (n.data.flat if n.data.shape else [n.data.item()])]}


def _static_key(x):
    """statics compared by value where Python can, by identity otherwise; never raises"""
    import numpy as np
    if isinstance(x, np.ndarray):
        return ("ndarray", x.shape, str(x.dtype), hashlib.sha1(np.ascontiguousarray(x).tobytes()).hexdigest())
    if isinstance(x, (list, tuple)):
        return (type(x).__name__, tuple(_static_key(y) for y in x))
    if isinstance(x, dict):
        return ("dict", tuple(sorted((repr(k), _static_key(v)) for k, v in x.items())))    # dict equality ignores the order
    if isinstance(x, (bool, int, float, str, type(None))):
        return (type(x).__name__, x)
    if type(x).__eq__ is object.__eq__:
        return ("object", id(x))
    return ("value", type(x).__name__, repr(x))


def node_content(n):
    """what a node object holds: name, callable (identity), static arguments, which output of which node object feeds
    which parameter, outputs"""
    func, args, kwargs = n.payload
    return {"name": n.name, "func": id(func), "args": tuple(_static_key(a) for a in args),
            "kwargs": tuple(sorted((k, _static_key(v)) for k, v in kwargs.items())),
            "inputs": tuple(sorted((k, id(o.parent), o.parent.name, o.name) for k, o in n.inputs.items())),
            "outputs": tuple(n.outputs)}


def contents_of(actions):
    return {id(n): (n, node_content(n)) for n in collect_nodes(actions)}


def changed_contents(before, after):
    """(node, field) for nodes that existed before and hold something else now"""
    out = []
    for key, (n, c) in before.items():
        if key in after and after[key][1] != c:
            now = after[key][1]
            out.append((n, [f for f in c if c[f] != now[f]]))
    return out


# ----------------------------------------------------------------------------- heap cells (for the heap model of transform)

class NodeIds:
    """small integers for node objects (an Output of a multi-output node is its own object)"""

    def __init__(self):
        self.ids = {}
        self.keep = []

    def of(self, x):
        from earthkit.workflows.graph import Output
        key = (id(x.parent), x.name) if isinstance(x, Output) else (id(x), None)
        if key not in self.ids:
            self.ids[key] = len(self.ids) + 1
            self.keep.append(x)
        return self.ids[key]


def cell_of(action, ids):
    """the node array of an action as the heap model sees it; None when it is outside the model's vocabulary"""
    from ekw import c13_fluent as F
    n = action.nodes
    dims = []
    for d in n.dims:
        d = str(d)
        if d in n.coords:
            lab = [F._canon_label(x) for x in n.coords[d].data.tolist()]
            if F.OPAQUE in lab:
                return None
            dims.append([d, lab, True])
        else:
            dims.append([d, list(range(n.sizes[d])), False])
    scalars = []
    for k, v in n.coords.items():
        if k in n.dims:
            continue
        if v.data.shape != ():
            return None
        lab = F._canon_label(v.data.item())
        if lab == F.OPAQUE:
            return None
        scalars.append([str(k), lab])
    data = n.data
    return {"dims": dims, "scalars": sorted(scalars),
            "nodes": [ids.of(x) for x in (data.flat if data.shape else [data.item()])]}


def _heap_kind(st, live):
    """the statements that are replayed on the heap model: the ones whose code path writes to `.nodes` in place or hands
    back an existing object"""
    if st["op"] == "transform" and st.get("func") in ("lookup", "ident"):
        if st["func"] == "ident" or all(t in live for t in st["r"]):
            return "lookup" if st["func"] == "lookup" else "self"
        return None
    if st["op"] == "alias":
        return "alias"
    if st["op"] in ("stack", "concatenate") and st["a"] in live:
        n = live[st["a"]].nodes
        if st["dim"] in n.dims and n.sizes[st["dim"]] == 1:
            return "combine"
    return None


# ----------------------------------------------------------------------------- oracle

def oracle_program(prog, heapops=None, union=True, probe_default=False, vias=("from_actions", "add", "iadd")):
    """returns (real env, list of (signature, text, statements involved)); `heapops` collects the
    transforms whose func hands back an existing action, with the heap before and after (model tie)"""
    from ekw import c13_fluent as F
    viol = []
    snaps = {}
    srcinfo = {}
    pending = {}
    ids = NodeIds()
    contents = {}

    def hook(when, k, st, env):
        live = {i: r for i, r in enumerate(env[:k]) if not isinstance(r, tuple)}
        if when == "after" and st["op"] == "source" and not isinstance(env[k], tuple):
            srcinfo[k] = source_items(env[k])
        if when == "before":
            # EVERY action that exists, whether or not the statement mentions it (nothing runs between two
            # statements, so the state after the previous statement is the state before this one)
            for i, a in live.items():
                if i not in snaps:
                    snaps[i] = snapshot(a)
            pending.clear()
            heapkind = _heap_kind(st, live)
            if heapops is not None and heapkind:
                # one cell per action OBJECT (two variables may hold the same object)
                order = []
                for i in sorted(live):
                    if not any(live[i] is live[j] for j in order):
                        order.append(i)
                cell_index = {i: next(n_ for n_, j in enumerate(order) if live[j] is live[i]) for i in live}
                cells = [cell_of(live[i], ids) for i in order]
                if all(c is not None for c in cells):
                    rec = {"heap": cells, "a": cell_index[st["a"]], "kind": heapkind}
                    if heapkind in ("lookup", "self"):
                        table = st["r"] if st["func"] == "lookup" else [st["a"]] * len(st["params"])
                        rec.update({"targets": [cell_index[t] for t in table], "dim": st["dim"], "axis": st["axis"]})
                    elif heapkind == "combine":
                        rec.update({"method": "stack" if st["op"] == "stack" else "concat", "d": st["dim"], "keep": st["keep"]})
                    pending.update({"order": order, "rec": rec})
        else:
            for i, a in live.items():
                now = snapshot(a)
                if i in snaps and now != snaps[i]:
                    what = [key for key in ("dims", "shape", "coords", "nodes") if now[key] != snaps[i][key]]
                    role = "operand" if i in F.operands(st) else "bystander"
                    viol.append(({"kind": "operand-mutated", "op": st["op"], "changed": what[0]},
                                 f"statement {k} {st} changed {what} of existing action v{i} ({role}): {snaps[i]['dims']} {snaps[i]['coords']} -> {now['dims']} {now['coords']}",
                                 [k, i]))
                snaps[i] = now
            # … and what the node objects of the existing actions hold (name, payload, inputs, outputs)
            allacts = [r for r in env[:k + 1] if not isinstance(r, tuple)]
            now = contents_of(allacts)
            for n, fields in changed_contents(contents, now)[:1]:
                viol.append(({"kind": "node-mutated", "op": st["op"], "changed": fields[0]},
                             f"statement {k} {st} changed {fields} of the existing node {n.name[:24]}… of an existing action", [k, _first_stmt_with(env, n)]))
            contents.clear()
            contents.update(now)
            if not isinstance(env[k], tuple) and any(env[k] is env[i] for i in live):
                prog.setdefault("_aliases", []).append(k)
            if pending:
                rec = pending["rec"]
                r = env[k]
                if isinstance(r, tuple):
                    real = {"err": r[1]}
                else:
                    after = [cell_of(live[i], ids) for i in pending["order"]]
                    res = cell_of(r, ids)
                    alias = next((n_ for n_, i in enumerate(pending["order"]) if live[i] is r), None)
                    real = None if (res is None or any(c is None for c in after)) else {"heap": after, "result": res, "alias_of": alias}
                if real is not None:
                    heapops.append((k, rec, real))
    prog.pop("_aliases", None)
    env = F.run_real(prog, hook=hook)
    # (a) same program twice -> same names
    env2 = F.run_real(prog)
    for k, (r1, r2) in enumerate(zip(env, env2)):
        if isinstance(r1, tuple) or isinstance(r2, tuple):
            if isinstance(r1, tuple) != isinstance(r2, tuple):
                viol.append(({"kind": "not-deterministic", "what": "outcome"}, f"statement {k} succeeded in one build and failed in the other", [k]))
            continue
        n1 = _names(r1)
        n2 = _names(r2)
        if n1 != n2:
            sig = {"kind": "not-deterministic", "what": "names"}
            cause = _address_static(r1)
            if cause:
                sig["cause"] = "address-in-repr"
            viol.append((sig, f"statement {k} {prog['stmts'][k]}: two builds of the same program in one process give different node names "
                              f"({_first_diff(n1, n2)})" + (f"; a static argument is rendered with its address: {cause}" if cause else ""), [k]))
    # (b) union over shared sources: same name => same computation
    actions = [r for r in env if not isinstance(r, tuple)]
    nodes = collect_nodes(actions)
    viol += _collisions(nodes, lambda n: _first_stmt_with(env, n), "")
    # (c) the union on the REAL path: Cascade.from_actions / + / += / deduplicate_nodes / serialise / graph2job
    if union:
        try:
            viol += union_oracle(prog, env2, probe_default, vias)
        except Exception as e:     # an exception of the union machinery is a result, not a crash of the check
            sig = {"kind": "union-raises", "error": F.err_class(e)}
            if isinstance(e, ValueError) and "truth value of an array" in str(e):
                sig["cause"] = "ndarray-static-compared-with-=="
            viol.append((sig, f"taking the union of the actions of the program raised {type(e).__name__}: {str(e)[:120]}", list(range(len(prog["stmts"])))))
    prog["_srcinfo"] = srcinfo
    return env, viol


def _collisions(nodes, stmt_of, where):
    """two nodes of one graph carry the same name only if they denote the same computation"""
    out = []
    by_name = {}
    for n in nodes:
        by_name.setdefault(n.name, []).append(n)
    for name, group in by_name.items():
        first = group[0]
        for other in group[1:]:
            cause = _differs(first, other)
            if cause:
                sig = {"kind": "name-collision", "cause": cause}
                if where:
                    sig["where"] = where
                out.append((sig, f"two nodes named {name[:24]}… {('of the ' + where + ' ') if where else ''}denote different computations ({cause}): "
                                 f"{_describe(first)} vs {_describe(other)}", [stmt_of(first), stmt_of(other)]))
                break
    return out


def _address_static(action):
    """a static argument of a node of the action whose repr shows a memory address, or None"""
    import re
    for n in collect_nodes([action]):
        for v in list(n.payload[1]) + list(n.payload[2].values()):
            try:
                r = repr(v)
            except Exception:
                continue
            if re.search(r" at 0x[0-9a-fA-F]+>", r):
                return r[:60]
    return None


def _graph_nodes(cascade):
    return list(cascade._graph.nodes())


def _name_bag(nodes):
    return sorted(n.name for n in nodes)


def union_oracle(prog, envB, probe_default=False, vias=("from_actions", "add", "iadd")):
    """Clause "unions de-duplicate and lowering by name is unambiguous" on the real code. The program is built a third
    time (envC) so that the builds the other oracles look at are not touched; envB is the second build.
      U1 from_actions(one build): names unique (else the collision is reported with its cause), serialise and graph2job
         succeed and key exactly the nodes of the union;
      U2 from_actions / + / += over two builds of the same program: exactly the nodes of one build (same names, same number);
      U3 no union changes what an existing union or the node objects of existing actions hold;
      U4 (witness programs) a new empty Cascade() is empty whatever was united before."""
    from ekw import c13_fluent as F
    from earthkit.workflows import Cascade
    from earthkit.workflows.graph import serialise
    from cascade.low.into import graph2job
    out = []
    every = list(range(len(prog["stmts"])))
    envC = F.run_real(prog)
    actsB = [r for r in envB if not isinstance(r, tuple)]
    actsC = [r for r in envC if not isinstance(r, tuple)]
    if not actsB or len(actsB) != len(actsC):
        return out
    stmt_of = lambda n: _first_stmt_with(envB, n)   # noqa: E731
    before = contents_of(actsB + actsC)
    comp = _comp_keys(collect_nodes(actsB + actsC))
    one = Cascade.from_actions(actsB)
    nodes1 = _graph_nodes(one)
    bag1 = _name_bag(nodes1)
    coll = _collisions(nodes1, stmt_of, "cascade-union")
    out += coll
    dup = len(set(bag1)) != len(bag1)
    if dup and not coll:
        out.append(({"kind": "union-not-deduplicated", "via": "from_actions"},
                     f"Cascade.from_actions over the actions of ONE build keeps {len(bag1) - len(set(bag1))} equal computations twice", every))
    # what the program denotes, computed by the harness: one node per distinct (callable, statics, inputs, outputs)
    want = len({comp[id(n)] for n in collect_nodes(actsB)})
    if not dup and len(bag1) != want:
        out.append(({"kind": "union-not-deduplicated", "via": "from_actions", "what": "count"},
                     f"Cascade.from_actions holds {len(bag1)} nodes, the actions denote {want} different computations", every))
    if not dup:
        try:
            ser = serialise(one._graph)
            if sorted(ser) != bag1:
                out.append(({"kind": "union-not-lowerable", "what": "serialise-keys"}, "serialise(union) does not key exactly the nodes of the union", every))
            job = graph2job(one._graph)
            if sorted(job.tasks) != bag1:
                out.append(({"kind": "union-not-lowerable", "what": "task-names"},
                             f"graph2job(union) has {len(job.tasks)} tasks for {len(bag1)} uniquely named nodes", every))
            known = set(bag1)
            loose = [e for e in job.edges if e.source.task not in known or e.sink_task not in known]
            if loose:
                out.append(({"kind": "union-not-lowerable", "what": "edges"}, f"graph2job(union): {len(loose)} edges name tasks that do not exist", every))
        except AssertionError as e:
            out.append(({"kind": "union-not-lowerable", "what": "raises"}, f"lowering the uniquely named union raised AssertionError({str(e)[:80]})", every))
        except Exception:
            pass     # a static argument the lowering does not accept: not a matter of names (C10)
    # U2/U3: unions with a second build of the same program
    same_names = _name_bag(collect_nodes(actsB)) == _name_bag(collect_nodes(actsC))
    earlier = None
    for via in vias if same_names else ():
        if via == "from_actions":
            two = Cascade.from_actions(actsB + actsC)
        elif via == "add":
            two = Cascade.from_actions(actsB) + Cascade.from_actions(actsC)
        else:
            two = Cascade.from_actions(actsB)
            two += Cascade.from_actions(actsC)
        bag2 = _name_bag(_graph_nodes(two))
        if bag2 != bag1:
            out.append(({"kind": "union-not-deduplicated", "via": via},
                         f"the union ({via}) of two builds of the same program holds {len(bag2)} nodes ({len(set(bag2))} names), one build holds {len(bag1)}", every))
        again = _name_bag(_graph_nodes(one))
        if again != bag1 and earlier is None:
            earlier = (via, again)
    after = contents_of(actsB + actsC)
    ch = changed_contents(before, after)
    # the one way in which the unchanged code is known to do this: deduplicate_nodes re-wires `node.inputs` to another node
    # object of the same name (same computation); anything else is a different matter
    # (same computation: judged by the harness's own computation keys taken BEFORE the unions, not by names — de-duplication
    # also merges equal payloads whose names differ, e.g. keyword dicts written in a different order)
    def same_wiring(n):
        old, new = before[id(n)][1]["inputs"], after[id(n)][1]["inputs"]
        return len(old) == len(new) and all(ko == kn and oo == on and comp.get(po) is not None and comp.get(po) == comp.get(pn_)
                                            for (ko, po, _, oo), (kn, pn_, _, on) in zip(old, new))
    rewire_only = all(fields == ["inputs"] and same_wiring(n) for n, fields in ch)
    cause = {"cause": "dedup-rewire"} if ch and rewire_only else {}
    if earlier:
        via, again = earlier
        out.append(({"kind": "union-mutates-operands", "changed": "earlier-union", **cause},
                     f"after a later union ({via}) that contains the same actions, the union built first holds {len(again)} nodes "
                     f"({len(set(again))} names) instead of {len(bag1)}: it can no longer be serialised / lowered by name", every))
    if ch:
        n, fields = ch[0]
        out.append(({"kind": "union-mutates-operands", "changed": "inputs-identity" if rewire_only else fields[0], **cause},
                     f"taking unions changed {fields} of {len(ch)} node objects of existing actions, e.g. {n.name[:24]}…"
                     + (" (inputs re-wired to other node objects of the same name)" if rewire_only else ""), every))
    if probe_default:
        empty0 = len(_graph_nodes(Cascade()))
        c = Cascade()
        c += one
        empty1 = len(_graph_nodes(Cascade()))
        if empty0 or empty1:
            out.append(({"kind": "union-leak", "cause": "shared-default-graph"},
                         f"a new Cascade() holds {empty1} nodes after `c = Cascade(); c += union` (and held {empty0} before): the default graph "
                         f"is shared between all Cascade() instances and `+=` extends it in place", every))
    return out


def _comp_keys(nodes):
    """identity of the computation each node denotes (callable object, statics by value, computations of the inputs per
    parameter, outputs) — independent of names; `nodes` lists inputs before users"""
    keys = {}
    for n in nodes:
        func, args, kwargs = n.payload
        ins = tuple(sorted((k, keys[id(o.parent)], o.name) for k, o in n.inputs.items()))
        keys[id(n)] = hash((id(func), tuple(_static_key(a) for a in args), tuple(sorted((k, _static_key(v)) for k, v in kwargs.items())),
                            ins, tuple(n.outputs)))
    return keys


def _first_diff(n1, n2):
    for x, y in zip(n1, n2):
        if x != y:
            return f"{x[:28]}… vs {y[:28]}…"
    return f"{len(n1)} vs {len(n2)} nodes"


def _names(action):
    from earthkit.workflows.graph import Output
    data = action.nodes.data
    return [(x.parent.name + "." + x.name) if isinstance(x, Output) else x.name for x in (data.flat if data.shape else [data.item()])]


def _short(v):
    r = repr(v)
    return r if len(r) <= 40 else r[:37] + "…"


def _describe(n):
    f, a, k = n.payload
    where = getattr(getattr(f, "__code__", None), "co_firstlineno", "?")
    return (f"{getattr(f, '__name__', '?')}(defined at line {where})[{', '.join(_short(x) for x in a)}]{{{', '.join(kk + ': ' + _short(v) for kk, v in k.items())}}}"
            f" outputs={list(n.outputs)}<-{ {p_: o.parent.name[:12] for p_, o in n.inputs.items()} }")


def _differs(n1, n2):
    f1, a1, k1 = n1.payload
    f2, a2, k2 = n2.payload
    if f1 is not f2:
        return "equal-__name__" if getattr(f1, "__name__", "") == getattr(f2, "__name__", "") else "different-callables"
    s1 = (tuple(_static_key(a) for a in a1), tuple(sorted((k, _static_key(v)) for k, v in k1.items())))
    s2 = (tuple(_static_key(a) for a in a2), tuple(sorted((k, _static_key(v)) for k, v in k2.items())))
    if s1 != s2:
        # different statics: did their rendering hide the difference, or was it ignored?
        try:
            same_repr = (repr(list(a1)), repr(dict(k1))) == (repr(list(a2)), repr(dict(k2)))
        except Exception:
            same_repr = False
        return "statics-equal-repr" if same_repr else "statics"
    # which input feeds which parameter (the order of the operands is part of the computation)
    i1 = sorted((k, o.parent.name, o.name) for k, o in n1.inputs.items())
    i2 = sorted((k, o.parent.name, o.name) for k, o in n2.inputs.items())
    if i1 != i2:
        return "inputs"
    if n1.outputs != n2.outputs:
        return "outputs"
    return None


def _first_stmt_with(env, node):
    for k, r in enumerate(env):
        if isinstance(r, tuple):
            continue
        if any(n is node for n in collect_nodes([r])):
            return k
    return len(env) - 1


# ----------------------------------------------------------------------------- correspondence

def model_names(progs, envs, heaps=None):
    """ask the model for the rendering of every real node (and for the heap after every transform that
    hands back an existing action); returns list of mismatches (prog, where, case, model, impl)"""
    from ekw.core import lean_drive
    heaps = heaps or [[] for _ in progs]
    lines, metas = [], []
    stats = {"heapops": 0, "heapops_out_of_scope": 0, "heapops_err": 0, "nodes_with_unmodelled_statics": 0}
    for prog, env, hops in zip(progs, envs, heaps):
        actions = [r for r in env if not isinstance(r, tuple)]
        nodes = collect_nodes(actions)
        hjson = [rec for _, rec, _ in hops]
        keep_nodes, recs = [], []
        for n_ in nodes:
            try:
                recs.append(node_record(n_))
                keep_nodes.append(n_)
            except TypeError:
                stats["nodes_with_unmodelled_statics"] += 1      # ndarray / object statics: names judged by the oracle only
        nodes = keep_nodes
        info = prog.get("_srcinfo")
        if info is None:
            info = {k: source_items(r) for k, (st, r) in enumerate(zip(prog["stmts"], env)) if st["op"] == "source" and not isinstance(r, tuple)}
        srcs = [info[k] for k in sorted(info)]
        lines.append(json.dumps({"nodes": recs, "sources": [[[f, idx] for f, idx, _ in s] for s in srcs], "heapops": hjson}))
        metas.append((prog, nodes, recs, srcs, hops, None))
    outs = lean_drive("C14", lines)
    bad = []
    for (prog, nodes, recs, srcs, hops, err), line in zip(metas, outs):
        m = json.loads(line)
        for (k, rec, real), mo in zip(hops, m.get("heapops", [])):
            if mo.get("err") == "outOfScope":
                stats["heapops_out_of_scope"] += 1
                continue
            stats["heapops"] += 1
            mo = {key: mo[key] for key in ("err", "heap", "result", "alias_of") if key in mo}
            if "err" in real:
                stats["heapops_err"] += 1
            if mo != real:
                bad.append((prog, "transform-heap", {"statement": k, "stmt": prog["stmts"][k], "heap_before": rec["heap"]}, mo, real))
                break
        if len(hops) != len(m.get("heapops", [])):
            bad.append((prog, "transform-heap", {"heapops": len(hops)}, len(m.get("heapops", [])), len(hops)))
        if err:
            continue
        for n, rec, rend, ins in zip(nodes, recs, m["renders"], m["inputs"]):
            want = rec["label"] + ":" + hashlib.sha256(rend.encode()).hexdigest()
            if want != n.name:
                bad.append((prog, "node-name", {"node": {k: rec[k] for k in ("fname", "args", "kwargs", "inputs", "outputs", "label")}},
                            {"render": rend, "name": want}, {"name": n.name}))
                break
        for s_, labels in zip(srcs, m["labels"]):
            real = [l for _, _, l in s_]
            if real != labels:
                bad.append((prog, "source-labels", {"source_labels": [[f, idx] for f, idx, _ in s_]}, labels, real))
                break
    return bad, stats


def _witnesses():
    S = {"op": "source", "dims": [["d0", [0, 10]]], "base": 0}
    S1 = {"op": "source", "dims": [["d0", [7]], ["d1", [0, 10]]], "base": 0}
    T = {"op": "source", "dims": [["d0", [0, 10]]], "base": 2}
    return [
        # the known finding: two lambdas over the same inputs
        {"stmts": [S, {"op": "map", "a": 0, "fn": "lam1"}, {"op": "map", "a": 0, "fn": "lam2"}], "internal": [], "vseed": 0, "float": False},
        {"stmts": [S, {"op": "map", "a": 0, "fn": "dupA"}, {"op": "map", "a": 0, "fn": "dupB"}], "internal": [], "vseed": 0, "float": False},
        # the mutation defects of the pinned tree
        {"stmts": [S, {"op": "source", "dims": [["d0", [100, 101]]], "base": 2}, {"op": "arith", "a": 0, "fn": "add", "b": 1}], "internal": [], "vseed": 0, "float": False},
        {"stmts": [S1, {"op": "stack", "a": 0, "dim": "d0", "bs": 0, "keep": False, "axis": 0}], "internal": [], "vseed": 0, "float": False},
        {"stmts": [S, {"op": "transform", "a": 0, "func": "ident", "params": [0, 1], "dim": "t", "axis": 0}], "internal": [], "vseed": 0, "float": False},
        # operand order is part of the computation: a-b and b-a in one union
        {"stmts": [S, T, {"op": "arith", "a": 0, "fn": "subtract", "b": 1}, {"op": "arith", "a": 1, "fn": "subtract", "b": 0}], "internal": [], "vseed": 0, "float": False},
        # func hands back an action built before (not the receiver): several parameters / one parameter
        {"stmts": [S, T, {"op": "transform", "a": 0, "func": "lookup", "r": [1, 1], "params": [0, 1], "dim": "t", "axis": 0}], "internal": [], "vseed": 0, "float": False},
        {"stmts": [S, T, {"op": "transform", "a": 0, "func": "lookup", "r": [1], "params": [0], "dim": ["t", ["x"]], "axis": 0}], "internal": [], "vseed": 0, "float": False},
        # … and an action that ALREADY carries the transform's dimension with one label: nothing is added, the closing squeeze
        # of a one-parameter transform must work on a new object (the handed-back action is used again afterwards)
        {"stmts": [S, {"op": "source", "dims": [["t", ["x"]], ["d0", [0, 10]]], "base": 4},
                   {"op": "transform", "a": 0, "func": "lookup", "r": [1], "params": [0], "dim": ["t", ["x"]], "axis": 0},
                   {"op": "map", "a": 1, "fn": "neg"}], "internal": [], "vseed": 0, "float": False},
        # the same callable with one output and with two outputs (yields)
        {"stmts": [S, {"op": "map", "a": 0, "fn": "neg"}, {"op": "map", "a": 0, "fn": "neg", "yields": ["y", [0, 1]]}], "internal": [], "vseed": 0, "float": False},
        # statics whose repr hides the difference (2000-element arrays that differ at index 1000) / shows an address
        {"stmts": [S, {"op": "map", "a": 0, "fn": "keep", "static": {"big": "A"}}, {"op": "map", "a": 0, "fn": "keep", "static": {"big": "B"}}], "internal": [], "vseed": 0, "float": False},
        {"stmts": [S, {"op": "map", "a": 0, "fn": "keep", "static": {"config": 1}}], "internal": [], "vseed": 0, "float": False},
        {"stmts": [S, {"op": "map", "a": 0, "fn": "keep", "static": {"newconfig": 1}}], "internal": [], "vseed": 0, "float": False},
        # dict-valued keyword arguments, nested lists
        {"stmts": [S, {"op": "map", "a": 0, "fn": "keep", "static": {"kwdict": {"a": 1}}}, {"op": "map", "a": 0, "fn": "keep", "static": {"kwdict": {"a": 2}}},
                   {"op": "map", "a": 0, "fn": "keep", "static": {"nested": [[1, 2], 3]}}, {"op": "map", "a": 0, "fn": "keep", "static": {"nested": [[1], 2, 3]}}],
         "internal": [], "vseed": 0, "float": False},
        # one Payload object passed to several operations
        {"stmts": [S, {"op": "map", "a": 0, "fn": "first", "share": 1}, {"op": "reduce", "a": 0, "fn": "first", "dim": "d0", "bs": 0, "keep": False, "share": 1}],
         "internal": [], "vseed": 0, "float": False},
        # operations that hand back the action itself, then an in-place candidate on the alias
        {"stmts": [S, {"op": "alias", "a": 0, "how": "select"}, {"op": "transform", "a": 1, "func": "ident", "params": [0], "dim": "t", "axis": 0}], "internal": [], "vseed": 0, "float": False},
    ]


def _sub_program(prog, roots):
    """the statements `roots` depend on (operands, actions a func hands back), renumbered"""
    from ekw import c13_fluent as F
    need = set()

    def visit(i):
        if i in need or not (0 <= i < len(prog["stmts"])):
            return
        need.add(i)
        for o in F.operands(prog["stmts"][i]):
            visit(o)
    for r in roots:
        visit(r)
    order = sorted(need)
    ren = {old: new for new, old in enumerate(order)}
    stmts = []
    for i in order:
        st = dict(prog["stmts"][i])
        if st["op"] != "source":
            for key in ("a", "b"):
                if isinstance(st.get(key), int):
                    st[key] = ren[st[key]]
            if st.get("func") == "lookup":
                st["r"] = [ren[j] for j in st["r"]]
        stmts.append(st)
    return dict(_clean(prog), stmts=stmts)


def _shrink(prog, roots, sig, failing=None):
    """drop the statements the failing ones do not depend on; keep the original when that no longer fails"""
    if failing is None:
        def failing(q):
            return any(v[0] == sig for v in oracle_program(q)[1])
    small = _sub_program(prog, roots)
    if len(small["stmts"]) < len(prog["stmts"]):
        try:
            if failing(small):
                return small
        except Exception:
            pass
    return _clean(prog)


# ----------------------------------------------------------------------------- fresh interpreters

def _fresh_differs(prog, here=None, env=None):
    """build `prog` twice in a fresh interpreter; (statement, text) of the first difference between those two builds
    (and the builds of this process), or None"""
    from ekw import c14_fresh as X
    res = X.collect(X.spawn([prog]))
    if not res or "b1" not in res[0]:
        return None
    return _judge_fresh(prog, res[0], here, env)


def _judge_fresh(prog, res, here, env=None):
    """(statement, text, cause) of the first difference, or None"""
    from ekw import c14_fresh as X
    builds = [res["b1"], res["b2"]] + ([here] if here is not None else [])
    k = X.first_difference(*builds)
    if k is None:
        return None
    st = prog["stmts"][k] if k < len(prog["stmts"]) else None
    col = [b[k] if k < len(b) else None for b in builds]
    which = "its first and second build in a fresh interpreter" if col[0] != col[1] else "a fresh interpreter and the check process"
    a, b = (col[0], col[1]) if col[0] != col[1] else (col[0], col[-1])
    d = _first_diff(a, b) if isinstance(a, list) and isinstance(b, list) else f"{a} vs {b}"
    cause = None
    if env is not None and k < len(env) and not isinstance(env[k], tuple):
        cause = _address_static(env[k])
    return (k, f"statement {k} {st}: building the same program again gives different node names — {which} disagree ({d})"
            + (f"; a static argument is rendered with its address: {cause}" if cause else ""), cause)


def correspond(ctx):
    from ekw import c13_fluent as F
    from ekw import c14_fresh as X
    from ekw.core import CORPUS_DIR
    n = ctx.budget(90, 4000)
    progs = list(_witnesses())
    for f in sorted(glob.glob(str(CORPUS_DIR / "C14_*.json"))):
        progs.append(json.load(open(f))["prog"])
    for _ in range(n):
        progs.append(gen_program(ctx.rng, max_ops=ctx.budget(4, 6)))
    # fresh interpreters build slices of the programs (twice each) while this process runs its own oracle;
    # the first program of a slice meets the pristine module state, so small programs go first
    nfresh = ctx.budget(3, 8)
    nw = len(_witnesses())
    sample = progs[:nw] + ctx.rng.sample(progs[nw:], min(len(progs) - nw, ctx.budget(40, 600)))
    slices = [sorted(sample[i::nfresh], key=lambda q: len(q["stmts"])) for i in range(nfresh)]
    slices[0] = [progs[0]] + [q for q in slices[0] if q is not progs[0]]
    handles = []
    try:
        handles = [X.spawn(sl) for sl in slices]
    except Exception as e:
        ctx.notes.append(f"fresh interpreters unavailable: {type(e).__name__}: {str(e)[:80]}")
    envs, heaps = [], []
    reported = set()
    here = {}
    for pi, p in enumerate(progs):
        hops = []
        try:
            # deduplicate_nodes is quadratic: the witnesses take all three kinds of union, the others one each in turn
            vias = ("from_actions", "add", "iadd") if pi < nw else (("from_actions", "add", "iadd")[pi % 3],)
            env, viol = oracle_program(p, hops, probe_default=pi < nw, vias=vias)
        except Exception as e:   # the oracle itself must not crash the check
            ctx.notes.append(f"oracle error {type(e).__name__}: {str(e)[:100]}")
            env, viol, hops = F.run_real(p), [], []
        ctx.count("results_that_are_an_existing_action_object", len(p.get("_aliases", [])))
        envs.append(env)
        heaps.append(hops)
        here[id(p)] = X.names_of_env(env)
        nontrivial = sum(1 for st, r in zip(p["stmts"], env) if st["op"] != "source" and not isinstance(r, tuple)) >= 2
        ctx.case({"stmts": p["stmts"][:8]}, nontrivial=nontrivial)
        ctx.count("depth:%d" % _depth(p))
        ctx.count("programs")
        _count_features(ctx, p, env)
        for sig, text, roots in viol:
            key = json.dumps(sig, sort_keys=True)
            ctx.count("oracle:" + sig["kind"])
            if key in reported:
                continue
            reported.add(key)
            ctx.violation(sig, {"prog": _shrink(p, roots, sig)}, text)
    bad, stats = model_names(progs, envs, heaps)
    ctx.traces += len(progs)
    ctx.count("nodes_renamed_by_model", sum(len(_safe_nodes(e)) for e in envs))
    for key, v in stats.items():
        ctx.count(key, v)
    for prog, where, case, model, impl in bad:
        ctx.disagree(where, {"stmts": prog["stmts"][:10], **case}, model, impl)
    _observe_criteria_dict(ctx)
    # (a') the builds of the fresh interpreters
    env_of = {id(p): e for p, e in zip(progs, envs)}
    for sl, h in zip(slices, handles):
        res = X.collect(h)
        if res is None:
            res = X.collect(X.spawn(sl))     # once more, alone
        if res is None:
            # not a note: without the fresh builds clause "building the same program twice" is only half checked
            ctx.disagree("fresh-interpreter", {"programs": len(sl), "first": sl[0]["stmts"][:6] if sl else None},
                         "a fresh interpreter builds the programs and reports their names", "no answer (twice)")
            continue
        for p, r in zip(sl, res):
            if "b1" not in r:
                ctx.disagree("fresh-interpreter", {"stmts": p["stmts"][:10]}, "the program builds as it does in the check process", str(r.get("crash"))[:160])
                continue
            ctx.count("programs_built_in_fresh_interpreter")
            verdict = _judge_fresh(p, r, here.get(id(p)), env_of.get(id(p)))
            if verdict is None:
                continue
            ctx.count("oracle:not-deterministic")
            k, text, cause = verdict
            sig = {"kind": "not-deterministic", "what": "names"}
            if cause:
                sig["cause"] = "address-in-repr"
            key = json.dumps(sig, sort_keys=True) + "fresh"
            if key in reported:
                continue
            reported.add(key)
            small = _shrink(p, [k], sig, failing=lambda q: _fresh_differs(q) is not None)
            ctx.violation(sig, {"prog": small, "fresh": True}, text)


def _observe_criteria_dict(ctx):
    """not part of the property (a criteria dict is not an action): `select` empties the dict its caller passed when the
    criterion names a scalar coordinate (`crit = criteria or {}` … `criteria.pop(key)`); recorded as an observation"""
    try:
        from ekw import c13_fluent as F
        a = F.exec_stmt({"op": "source", "dims": [["d0", [0, 10]]], "base": 0}, [])
        s1 = a.select({"d0": 0})
        crit = {"d0": 0}
        s1.select(crit)
        if crit != {"d0": 0}:
            ctx.count("observed:select_mutates_the_callers_criteria_dict")
            ctx.notes.append("observation (outside the property text): Action.select removes the matched scalar-coordinate keys from the criteria dict its caller passed")
    except Exception as e:
        ctx.notes.append(f"criteria-dict observation failed: {type(e).__name__}")


def _count_features(ctx, p, env):
    by_pair = {}
    for k, (st, r) in enumerate(zip(p["stmts"], env)):
        ctx.count("op:" + st["op"])
        ok = not isinstance(r, tuple)
        if st.get("fn") in ("lam1", "lam2", "dupA", "dupB", "rlam1", "rlam2"):
            ctx.count("equal-name-callables")
        if st["op"] in ("arith", "join") and "b" in st and ok:
            ctx.count("binary_between_actions_ok")
            if (st["op"], st.get("fn"), st["b"], st["a"]) in by_pair and st["a"] != st["b"]:
                ctx.count("binary_with_swapped_operands_ok")
            by_pair[(st["op"], st.get("fn"), st["a"], st["b"])] = k
        if st["op"] in ("map", "reduce") and st.get("yields") and ok:
            if any(q["op"] == st["op"] and q.get("a") == st["a"] and q.get("fn") == st.get("fn") and not q.get("yields") for q in p["stmts"][:k]):
                ctx.count("same_callable_one_and_several_outputs_ok")
        if "static" in st and ok:
            ctx.count("static:" + next(iter(st["static"])))
        if st["op"] == "transform" and st.get("func") == "lookup":
            ctx.count("transform_lookup" + ("_ok" if ok else "_raises"))
            if ok and any(j != st["a"] for j in st["r"]):
                ctx.count("transform_returns_other_existing_action_ok")
            if ok and len(st["r"]) == 1:
                ctx.count("transform_lookup_single_param_ok")


def _clean(prog):
    return {k: v for k, v in prog.items() if not k.startswith("_")}


def _depth(p):
    from ekw.props.c13 import _depth as d13
    return d13(p)


def _safe_nodes(env):
    try:
        return collect_nodes([r for r in env if not isinstance(r, tuple)])
    except Exception:
        return []


def _unknown_violation(ctx):
    from ekw.core import load_known, match_known
    known = load_known()
    return any(match_known(PROPERTY, v["signature"], known) is None for v in ctx.violations)


def search(ctx, why):
    """(P) or (T) broken: larger oracle search on the real code — unless a failing input is already at hand"""
    t0 = time.time()
    for _ in range(ctx.budget(400, 2000)):
        if _unknown_violation(ctx) or (ctx.quick and time.time() - t0 > 25):
            break
        p = gen_program(ctx.rng, max_ops=5)
        try:
            env, viol = oracle_program(p)
        except Exception:
            continue
        ctx.count("search_programs")
        for sig, text, roots in viol[:2]:
            ctx.violation(sig, {"prog": _shrink(p, roots, sig)}, text)
    if not _unknown_violation(ctx):
        # state that survives between builds shows only in a pristine process
        for p in _witnesses()[:ctx.budget(2, 4)]:
            v = _fresh_differs(p)
            if v and not v[2]:
                ctx.violation({"kind": "not-deterministic", "what": "names"}, {"prog": _clean(p), "fresh": True}, v[1])
                break


def oracle_only(ctx):
    search(ctx, {})


def replay(payload):
    from ekw import c14_fresh as X
    case = payload["case"]
    prog = case["prog"]
    env, viol = oracle_program(prog, probe_default=True)
    for k, (st, r) in enumerate(zip(prog["stmts"], env)):
        print(k, st, "->", r if isinstance(r, tuple) else _names(r)[:4])
    bad = [(v[0], v[1]) for v in viol]
    if case.get("fresh"):
        v = _fresh_differs(prog, X.names_of_env(env), env)
        if v:
            bad.append(({"kind": "not-deterministic", "what": "names", **({"cause": "address-in-repr"} if v[2] else {})}, v[1]))
    # the replay reproduces THE failure it records; other oracle reports on the same input (known findings) are shown only
    from ekw.core import load_known, match_known
    known = load_known()
    want = payload.get("signature")
    hits = 0
    for sig, text in bad:
        k = match_known(PROPERTY, sig, known)
        same = (sig == want) if want else (k is None)
        hits += 1 if same else 0
        print("oracle:" if same else ("oracle (known finding %s):" % k["id"] if k else "oracle (other):"), sig, text)
    return 1 if hits else 0
