"""C14 — fluent node names identify computations; operations leave operands intact.

Tie: for random fluent programs every node of every resulting graph is re-named by the model
(Model/Names.lean renders `fname + repr(args) + repr(kwargs) + repr([input names])` + `|outputs=n` unless n = 1 — sets with
their elements in sorted order —, Python applies sha256) bottom-up and compared with the real `Node.name`; `from_source` labels likewise.
The statements whose code path writes to `Action.nodes` in place or hands back an existing object —
`transform` with a func that hands back an existing action (or the receiver), stack/concatenate on a
dimension of size 1, select/iselect without criteria or with ONE criterion on a scalar coordinate, join and arithmetic between
two actions — are replayed on the heap model (`Names.transformH`, `combineH`, `selectH`, `joinH`, `arithH`): the node array of the result, WHICH object the result is, and the node array of every
action object that existed before are compared with the real ones, node object by node object.
Oracle (from the property text, independent of the model):
 (a) building the same program twice gives the same names — twice in this process AND twice in a fresh
     interpreter with another string-hash seed (state surviving between builds may be saturated here);
 (b) among all nodes of all actions of a program (shared sources) two nodes with the same name have the same
     callable (identity), the same statics (by value), the same inputs bound to the same parameters and the same outputs;
 (c) the union on the REAL path: Cascade.from_actions / + / += (deduplicate_nodes), serialise, graph2job — names unique in
     the union, exactly one node per distinct computation, two builds of one program unite to one, the union serialises
     and lowers to exactly its nodes, no union changes an earlier union or node objects of existing actions, a new
     Cascade() is empty;
 (d) dims / coords (values with their types, dtype, order, attributes, indexes) / attributes / dtype / node identities of EVERY live action (not only the operands) and what every node object of
     every live action holds (name, payload, inputs by object, outputs) are snapshotted around each operation
     and must not change.
"""
import glob
import hashlib
import json
import os
import time

for _v in ("OMP_NUM_THREADS", "OPENBLAS_NUM_THREADS", "MKL_NUM_THREADS"):
    os.environ.setdefault(_v, "1")   # before NumPy is first imported: node arrays are object arrays, BLAS thread pools only cost time

PROPERTY = "C14"
LEVEL_TEXT = ("Lean theorems over Model/Names.lean (Props/C14, C14b, C14c). Names: a node name is a function of (callable __name__, statics, input "
              "names, number of outputs) only (congruence of the model's rendering; that the real rendering of a static is a function of its "
              "value is proved for sets — the elements are listed in sorted order, so the name is the same for every iteration order, and "
              "without the sort it is not — and otherwise judged by rebuilds in fresh interpreters); for an injective hash, uniquely "
              "decodable statics, callables distinguished by __name__ and plain input names, equal names imply equal (callable, statics, "
              "inputs) — the rendering of the input-name list is proved injective, not assumed, so the same inputs in a different order give "
              "a different name; by induction over the depth of the graph (source nodes and '<parent>.<output>' input names included, which "
              "are proved never to collide with node names) equal names imply the same computation all the way down; unique decodability of "
              "the statics' rendering is a HYPOTHESIS there; it is PROVED for the real rendering of positional and keyword arguments that "
              "are plain strings or natural numbers (['input0', 3]{'axis': 0}), which gives the deep statement for whole graphs of such "
              "payloads (functools.partial sources included) under the hash and __name__ hypotheses only; negative numbers, floats, bools, "
              "None and containers as statics stay under the hypothesis; the number of outputs is part of the name. What the name does not cover is refuted by witnesses: callables of equal "
              "__name__, statics with a lossy repr. Unions: first-occurrence de-duplication keeps every computation exactly once and is "
              "idempotent over two builds; the real union compares statics with `==` and is that de-duplication only where `==` is equality "
              "on the statics at hand (partial; refuted in general: a.power(2) / a.power(2.0), known finding); where names identify "
              "computations the names of the union are pairwise different and lowering by name finds the computation. Existing actions: "
              "Action.transform, stack/concatenate, select, join and arithmetic between actions are modelled on a heap of action objects with "
              "the assignments the code performs (_add_dimension, _squeeze_dimension, the relabelled array of join(match_coord_values)) and "
              "their hand-backs of existing objects; for every func (new action, the receiver, any previously built action), every heap and "
              "every history of transform / stack / concatenate / select statements, and for every history of joins and arithmetic between "
              "any two action objects (coordinate values equal or different), no existing action object changes and only the documented "
              "operations hand back an existing object; the heap model agrees with the value model of C13; the two variants of the code that "
              "break it (re-wrapping func's result only when it is the receiver; storing the relabelled array into the operand, the pinned "
              "join defect) are refuted by witnesses. broadcast, reduce, map, expand have no assignment to an existing action in the code: "
              "for them the clause is carried by the snapshots of the tie only (their step in the model appends by definition). Tied to the "
              "real fluent API by re-deriving every real node name from the model's rendering, by replaying the in-place / hand-back "
              "statements, select on scalar coordinates, join and arithmetic on the heap model, and by the oracles.")
LEVEL_NOTE = ("modelled, not verified: fluent.py Payload.__str__/_render/name, Node.__init__ naming, from_source label uniqueness, Action.join and "
              "__two_arg_method as heap operations (joinH, arithH), broadcast/reduce as store operations (append by definition: nothing is "
              "proved about them beyond the value model of C13), Action.transform/_combine_nodes/select with _add_dimension/"
              "_squeeze_dimension/_validate_criteria as heap operations (the in-place squeeze inside the batching loop of reduce is modelled "
              "at value level only), deduplicate_nodes as first-occurrence de-duplication by a predicate; sha256 is applied by the harness to "
              "the model's rendering (collision freedom and hex digests are the hypotheses `Function.Injective H`, `Clean (H s)`); Python "
              "repr is modelled for int/str/float/bool/None/list/tuple/dict/set/frozenset only (nodes with other statics — arrays, objects "
              "— are judged by the oracle only, counted as nodes_with_unmodelled_statics); unique decodability of the statics' repr is a "
              "hypothesis (discharged for Unit, PlainArgs and SimpleStatics = plain strings / natural numbers, positional and keyword) and FAILS for lossy reprs (known findings); c14_operands_intact is a fact "
              "about the append-only value store and carries no clause; Python object identity is observed by the snapshots and by "
              "node-object ids compared with the heap model; the func passed to transform is one of three kinds (TFunc); the real union path "
              "(Cascade, deduplicate_nodes, serialise, graph2job) is covered by the oracle, its model is the list-level dedupNodes / dedupBy")
TECHNIQUE = ("Lean 4 proof (string decomposition lemmas on List Char; mutual induction over computation terms; sortedness + permutation "
             "for set renderings; write-set invariant of a heap model) "
             "+ differential correspondence of node names and of heaps around in-place / hand-back / binary statements + snapshots of every "
             "existing action and node object around every operation + the real Cascade union / serialise / graph2job path + rebuilds in "
             "fresh interpreters with another string-hash seed")
LEAN_PROPS = ["EkwVerif.Props.C14", "EkwVerif.Props.C14b", "EkwVerif.Props.C14c"]
LEAN_DRIVERS = ["C14"]
RULE = ("random fluent programs as in C13 (shared sources, branches; a quarter of them from C13's extended vocabulary: several criteria, "
        "**kwargs, arrays of payloads, registered actions, backend keyword arguments) extended with pairs of different callables of equal "
        "__name__ (two lambdas, two functions called `scale`, two reduce lambdas), repeated identical operations, equal callables with different "
        "statics, binary operations between actions whose coordinate values differ (match_coord_values), non-commutative binary "
        "operations with swapped operands (a-b and b-a, a/b and b/a), order-sensitive reductions over the same nodes joined / selected "
        "in a different order, stack/concatenate on size-1 dimensions, transform with an identity function and with functions that "
        "look up previously built actions (other than the receiver, lacking the join dimension; one or several parameters), the same "
        "callable with one and with several outputs (yields), statics of other types (nested lists, dict/list-valued keyword arguments, "
        "2000-element arrays differing at one index, objects with the default repr: one per process / one per build), select/iselect "
        "without criteria followed by operations on the object handed back; second audit: the same operation with scalars that compare "
        "equal but differ in type (2 / 2.0 / True; a.add, a.power, affine, positional statics, mixed lists and tuples), criteria on SCALAR "
        "coordinates (matched: the action itself is handed back; refused; repeated; followed by map / transform / join / arithmetic on the "
        "receiver), set / frozenset statics (positional, keyword, nested in lists and dicts; the same set written in two orders, another "
        "set, a list of the same elements). Every program is built three times in the check process (names, unions); the witnesses and "
        "a sample (40 quick / 600 thorough) are also built twice in fresh interpreters (pristine module state, different string-hash seed) "
        "and compared with the builds of the check process. non-trivial = program with >= 2 non-source statements; distinct by content hash")
ASSUMPTIONS = [
    "sha256 is collision free on the rendered strings and its digests are hex strings (hypotheses `Function.Injective H`, `Clean (H s)`)",
    "callable identity is Python object identity (`is`) of the payload function",
    "static arguments of different types are different static arguments (2, 2.0 and True are three statics: the results differ in dtype); Python's `==` is not the notion of 'same static arguments'",
    "the correspondence of names covers statics that are ints, floats, strings, bools, None, lists, tuples, string-keyed dicts, sets, frozensets; other statics (arrays, objects) are judged by the oracle only",
    "the func given to transform is one of: builds a new action from the receiver, returns the receiver, returns an action built before (TFunc)",
    "a difference between two builds is attributed to the known finding `address-in-repr` only where every node at which the difference starts (resp. every differing position of a fresh build) has a static argument rendered with its address among what it is computed from",
]

# ----------------------------------------------------------------------------- program generation

def _plain(g, k):
    from ekw import c13_fluent as F
    return all(F.OPAQUE not in l for _, l in g.dims_of(k))


def _ok(g, k):
    return k is not None and not isinstance(g.env[k], tuple)


EXT_SHARE = 0.25     # share of programs drawn from C13's extended vocabulary (several criteria, **kwargs, mapn, registered actions, …)


def gen_program(rng, max_ops=4):
    from ekw import c13_fluent as F
    ext = rng.random() < EXT_SHARE
    g = F.Gen(rng, max_ops=max_ops, max_pos=24, ext=ext)
    g.generate()
    if ext:
        g.prog["ext"] = True
    # second audit: scalars of different types that compare equal, criteria on scalar coordinates, unordered statics
    for _ in range(rng.randint(0, 2)):
        lv = g.live()
        if not lv:
            break
        k = rng.choice(lv)
        try:
            _typed_extra(g, rng, k, g.dims_of(k))
        except Exception as e:
            g.prog.setdefault("gen_notes", []).append(f"{type(e).__name__}: {str(e)[:80]}")
    # C14 extras on top of the C13 program: same operand, same statics, different / same callables
    for _ in range(rng.randint(2, 5)):
        lv = g.live()
        if not lv:
            break
        k = rng.choice(lv)
        dims = g.dims_of(k)
        r = rng.random()
        try:
            _extra(g, rng, k, dims, r)
        except Exception as e:   # the generator inspects real results; never let that crash a check
            g.prog.setdefault("gen_notes", []).append(f"{type(e).__name__}: {str(e)[:80]}")
    return g.prog


def _extra(g, rng, k, dims, r):
    from ekw import c13_fluent as F
    if r < 0.14:
        a, b = rng.choice([("lam1", "lam2"), ("dupA", "dupB"), ("lam1", "lam1"), ("neg", "neg")])
        g.push({"op": "map", "a": k, "fn": a})
        g.push({"op": "map", "a": k, "fn": b})
    elif r < 0.22 and dims:
        d = rng.choice(dims)[0]
        a, b = rng.choice([("rlam1", "rlam2"), ("first", "first"), ("wsum", "first")])
        g.push({"op": "reduce", "a": k, "fn": a, "dim": d, "bs": 0, "keep": False})
        g.push({"op": "reduce", "a": k, "fn": b, "dim": d, "bs": 0, "keep": False})
    elif r < 0.30:
        g.push({"op": "map", "a": k, "fn": "affine", "k": 2})
        g.push({"op": "map", "a": k, "fn": "affine", "k": rng.choice([2, 3])})
    elif r < 0.37 and dims:
        d, lab = rng.choice(dims)
        if F.OPAQUE not in lab:
            g.push({"op": "named", "a": k, "name": "sum", "dim": d, "bs": 0, "keep": False, "kw": []})
            g.push({"op": "named", "a": k, "name": "sum", "dim": d, "bs": 0, "keep": False, "kw": [["axis", 0]] if rng.random() < 0.5 else []})
    elif r < 0.44:
        j = g.partner(k, relabel=True)
        if j is not None:
            g.push({"op": "arith", "a": k, "fn": rng.choice(["add", "subtract"]), "b": j})
    elif r < 0.56:
        # the same non-commutative operation with the operands swapped: a-b and b-a over shared sources
        j = g.partner(k, relabel=rng.random() < 0.5)
        if j is not None:
            fn = rng.choice(["subtract", "subtract", "divide", "pow", "add"])
            g.push({"op": "arith", "a": k, "fn": fn, "b": j})
            g.push({"op": "arith", "a": j, "fn": fn, "b": k})
    elif r < 0.63:
        # an order-sensitive reduction over the same nodes, joined in both orders
        j = g.partner(k, relabel=False)
        if j is not None:
            nm = g.name("j")
            fn = rng.choice(["wsum", "rlam1", "first"])
            x = g.push({"op": "join", "a": k, "b": j, "dim": nm, "match": False})
            y = g.push({"op": "join", "a": j, "b": k, "dim": nm, "match": False})
            if _ok(g, x) and _ok(g, y):
                g.push({"op": "reduce", "a": x, "fn": fn, "dim": nm, "bs": 0, "keep": False})
                g.push({"op": "reduce", "a": y, "fn": fn, "dim": nm, "bs": 0, "keep": False})
    elif r < 0.70 and dims:
        # … and over the same nodes selected in a different order along the dimension
        big = [(d, l) for d, l in dims if len(l) >= 2 and F.OPAQUE not in l and len(set(map(str, l))) == len(l)]
        if big:
            d, lab = rng.choice(big)
            perm = list(lab)
            while perm == list(lab):
                rng.shuffle(perm)
            x = g.push({"op": "select", "a": k, "dim": d, "vals": perm, "drop": False})
            if _ok(g, x):
                if rng.random() < 0.6:
                    fn = rng.choice(["wsum", "rlam1"])
                    g.push({"op": "reduce", "a": k, "fn": fn, "dim": d, "bs": 0, "keep": False})
                    g.push({"op": "reduce", "a": x, "fn": fn, "dim": d, "bs": 0, "keep": False})
                else:
                    nm = rng.choice(["sum", "max"])
                    g.push({"op": "named", "a": k, "name": nm, "dim": d, "bs": 0, "keep": False, "kw": []})
                    g.push({"op": "named", "a": x, "name": nm, "dim": d, "bs": 0, "keep": False, "kw": []})
    elif r < 0.78 and dims:
        ones = [d for d, l in dims if len(l) == 1]
        d = rng.choice(ones) if ones and rng.random() < 0.8 else rng.choice(dims)[0]
        g.push({"op": rng.choice(["stack", "concatenate"]), "a": k, "dim": d, "bs": 0, "keep": rng.random() < 0.3, "axis": 0})
    elif r < 0.84:
        n = rng.randint(1, 2)
        g.push({"op": "transform", "a": k, "func": "ident", "params": list(range(n)), "dim": g.name("t"), "axis": 0})
    elif r < 0.92:
        _lookup_transform(g, rng, k)
    else:
        _more_extras(g, rng, k, dims)


_SET_POOL = ["2t", "msl", "tp", "10u", "10v", "q", "z", "t", "sp", "lsm", "sd", "tcc"]
_EQUAL_SCALARS = [[2, 2.0], [1, 1.0, True], [0, 0.0, False], [3, 3.0], [-1, -1.0], [2, 2.0, 2.5]]


def _typed_extra(g, rng, k, dims):
    """(1) the same operation with scalars that compare equal but are different static arguments (2 / 2.0 / True);
    (2) criteria that name a SCALAR coordinate (matched: `_validate_criteria` drops the criterion and, with nothing left, the
        action itself is handed back; unmatched: refused), followed by operations on what was handed back;
    (3) set / frozenset statics (positional, keyword, nested), the same set written in two orders, different sets"""
    from ekw import c13_fluent as F
    r = rng.random()
    if r < 0.22:
        vals = list(rng.choice(_EQUAL_SCALARS))
        rng.shuffle(vals)
        fn = rng.choice(["add", "subtract", "multiply", "divide", "pow"])
        for v in vals[:rng.randint(2, 3)]:
            g.push({"op": "arith", "a": k, "fn": fn, "scalar": v})
    elif r < 0.32:
        vals = list(rng.choice(_EQUAL_SCALARS))
        rng.shuffle(vals)
        for v in vals[:2]:
            g.push({"op": "map", "a": k, "fn": "affine", "k": v})
    elif r < 0.44:
        a, b = rng.choice([({"int": 2}, {"float": 2.0}), ({"int": 1}, {"bool": True}), ({"float": 1.0}, {"bool": True}),
                           ({"mixed": [["i", 1], ["f", 2.0]]}, {"mixed": [["f", 1.0], ["i", 2]]}),
                           ({"tuple": [["i", 1], ["b", 1]]}, {"mixed": [["i", 1], ["b", 1]]}),
                           ({"tuple": [["i", 1]]}, {"int": 1}), ({"mixed": [["n", 0], ["s", "None"]]}, {"mixed": [["s", "None"], ["n", 0]]})])
        g.push({"op": "map", "a": k, "fn": "keep", "static": a})
        g.push({"op": "map", "a": k, "fn": "keep", "static": b})
    elif r < 0.72:
        # criteria on scalar coordinates
        big = [(d, l) for d, l in dims if l and F.OPAQUE not in l and all(isinstance(x, (int, str)) for x in l)]
        scal = _scalar_coords(g, k)
        x = k
        if not scal and big:
            d, lab = rng.choice(big)
            if rng.random() < 0.7:
                x = g.push({"op": "select", "a": k, "dim": d, "val": rng.choice(lab), "drop": False})
            else:
                x = g.push({"op": "iselect", "a": k, "dim": d, "val": rng.randrange(len(lab)), "drop": False})
            if not _ok(g, x):
                return
            scal = _scalar_coords(g, x)
        if not scal:
            return
        c, v = rng.choice(scal)
        how = rng.choice(["select", "select", "iselect"])
        y = g.push({"op": how, "a": x, "dim": c, "val": v, "drop": rng.random() < 0.5})      # matched: the action itself comes back
        if rng.random() < 0.5:
            g.push({"op": how, "a": x, "dim": c, "val": 12345 if not isinstance(v, str) else "nope", "drop": False})   # refused
        if _ok(g, y):
            t = rng.random()
            if t < 0.3:
                g.push({"op": "map", "a": y, "fn": "neg"})
            elif t < 0.5:
                g.push({"op": "transform", "a": y, "func": "ident", "params": [0] * rng.randint(1, 2), "dim": g.name("t"), "axis": 0})
            elif t < 0.75:
                j = g.partner(x, relabel=False, permute=False) if _plain(g, x) else None
                if j is not None:
                    g.push({"op": rng.choice(["join", "arith"]), "a": x, "b": j, "dim": g.name("j"), "match": True, "fn": "add"})
            else:
                g.push({"op": how, "a": x, "dim": c, "val": v, "drop": True})     # once more on the same receiver
    else:
        pool = rng.sample(_SET_POOL, rng.randint(3, 8))
        other = list(pool)
        rng.shuffle(other)
        kind = rng.choice(["set", "set", "frozenset", "kwset", "nestedset"])
        t = rng.random()
        if t < 0.4:
            b = {kind: other}                              # the same set, written in another order: the same computation
        elif t < 0.7:
            b = {kind: other[:-1] + [rng.choice([p for p in _SET_POOL if p not in pool] or ["x"])]}   # another set
        elif t < 0.85:
            b = {"nested": [sorted(pool)]} if kind == "set" else {"set" if kind != "set" else "frozenset": pool}   # list / other kind, same elements
        else:
            b = {kind: [len(p) for p in pool]}              # small ints: their iteration order does not depend on the hash seed
        g.push({"op": "map", "a": k, "fn": "keep", "static": {kind: pool}})
        g.push({"op": "map", "a": k, "fn": "keep", "static": b})


def _scalar_coords(g, k):
    from ekw import c13_fluent as F
    try:
        n = g.env[k].nodes
        out = [(str(c), F._canon_label(v.data.item())) for c, v in n.coords.items() if c not in n.dims and v.data.shape == ()]
        return [(c, v) for c, v in out if v != F.OPAQUE and isinstance(v, (int, str))]
    except Exception:
        return []


def _more_extras(g, rng, k, dims):
    """same callable with one and with several outputs; static arguments of other types (nested lists, dict-valued
    keyword arguments, big arrays, objects with the default repr); operations that hand back the action itself"""
    r = rng.random()
    if r < 0.30:
        fn = rng.choice(["neg", "lam1", "keep"])
        g.push({"op": "map", "a": k, "fn": fn})
        g.push({"op": "map", "a": k, "fn": fn, "yields": [g.name("y"), [0, 1]]})
    elif r < 0.40 and dims:
        d = rng.choice(dims)[0]
        g.push({"op": "reduce", "a": k, "fn": "first", "dim": d, "bs": 0, "keep": False})
        g.push({"op": "reduce", "a": k, "fn": "first", "dim": d, "bs": 0, "keep": False, "yields": [g.name("y"), [0, 1]]})
    elif r < 0.70:
        a, b = rng.choice([({"kwdict": {"a": 1}}, {"kwdict": {"a": 2}}), ({"kwdict": {"a": 1, "b": "x"}}, {"kwdict": {"b": "x", "a": 1}}),
                           ({"kwlist": [1, 2]}, {"kwlist": [2, 1]}), ({"nested": [[1, 2], 3]}, {"nested": [[1], 2, 3]}),
                           ({"int": 1}, {"nested": [1]}), ({"big": "A"}, {"big": "B"}), ({"big": "A"}, {"big": "A"}),
                           ({"config": 1}, {"config": 2}), ({"config": 1}, {"config": 1}), ({"newconfig": 1}, {"int": 1})])
        g.push({"op": "map", "a": k, "fn": "keep", "static": a})
        g.push({"op": "map", "a": k, "fn": "keep", "static": b})
    elif r < 0.80 and dims:
        # ONE Payload object passed to a map and then to a reduce (which needs more input names in its argument list)
        d = rng.choice(dims)[0]
        n = rng.randint(1, 9)
        g.push({"op": "map", "a": k, "fn": "first", "share": n})
        g.push({"op": "reduce", "a": k, "fn": "first", "dim": d, "bs": 0, "keep": False, "share": n})
        g.push({"op": "map", "a": k, "fn": "first", "share": n})
    else:
        x = g.push({"op": "alias", "a": k, "how": rng.choice(["select", "iselect"])})
        if _ok(g, x):
            if rng.random() < 0.5:
                g.push({"op": "transform", "a": x, "func": "ident", "params": [0] * rng.randint(1, 2), "dim": g.name("t"), "axis": 0})
            else:
                g.push({"op": "map", "a": x, "fn": "neg"})


def _lookup_transform(g, rng, k):
    """a.transform(lambda act, i: table[i], …): func hands back actions that were built before — another
    action than the receiver, without the join dimension; the table may hold one action, the same action
    several times, different actions of equal dimensions, or the receiver among others"""
    others = [j for j in g.live() if j != k and _plain(g, j)]
    shape = rng.random()
    if not others or shape < 0.12:
        j = g.partner(k, relabel=False, permute=False) if _plain(g, k) else None
        if j is None:
            return
        others = [j]
    j = rng.choice(others)
    if shape < 0.40:
        table = [j]
    elif shape < 0.60:
        table = [j] * rng.randint(2, 3)
    elif shape < 0.85:
        j2 = g.partner(j, relabel=rng.random() < 0.2, permute=rng.random() < 0.3)
        table = [j, j2] if j2 is not None else [j, j]
        if rng.random() < 0.3:
            table.append(rng.choice(table))
    else:
        table = [k, j] if rng.random() < 0.5 else [j, k]
    nd = len(g.dims_of(j))
    nm = g.name("t")
    dim = nm if rng.random() < 0.6 else [nm, g.labels_for(len(table), "str")]
    try:
        ones = [(d, l) for d, l in g.dims_of(j) if l is not None and len(l) == 1 and all(isinstance(x, (int, str)) for x in l)]
    except Exception:
        ones = []
    if ones and rng.random() < 0.5:
        # the action handed back already carries the dimension (one label): nothing to add, only the closing squeeze
        d1, l1 = rng.choice(ones)
        table, dim = [j], [d1, list(l1)]
    axis = rng.randint(0, nd) if rng.random() < 0.8 else 0
    g.push({"op": "transform", "a": k, "func": "lookup", "r": table, "params": list(range(len(table))), "dim": dim, "axis": axis})
    # the actions handed back are used again afterwards
    if rng.random() < 0.5:
        g.push({"op": "map", "a": j, "fn": "neg"})
    elif len(table) > 1 and table[1] != table[0]:
        g.push({"op": "join", "a": table[0], "b": table[1], "dim": g.name("j"), "match": False})


# ----------------------------------------------------------------------------- inspection of real graphs

def _pyval(x):
    import numpy as np
    if isinstance(x, np.generic):
        x = x.item()
    if isinstance(x, bool) or x is None or isinstance(x, str):
        return x
    if isinstance(x, int):
        return x
    if isinstance(x, float):
        return {"f": repr(x)}
    if isinstance(x, list):
        return [_pyval(y) for y in x]
    if isinstance(x, tuple):
        return {"t": [_pyval(y) for y in x]}
    if isinstance(x, dict) and all(isinstance(k, str) for k in x):
        return {"d": [[k, _pyval(v)] for k, v in x.items()]}
    if type(x) in (set, frozenset):
        return {"s" if type(x) is set else "fs": [_pyval(y) for y in x]}     # in the order THIS interpreter iterates them
    raise TypeError(f"unsupported static {type(x).__name__}")


def collect_nodes(actions):
    """all distinct Node objects reachable from the given actions, inputs before users"""
    from earthkit.workflows.graph import Output
    order, seen = [], set()

    def visit(n):
        if id(n) in seen:
            return
        seen.add(id(n))
        for out in n.inputs.values():
            visit(out.parent)
        order.append(n)
    for a in actions:
        for x in a.nodes.data.flat if a.nodes.data.shape else [a.nodes.data.item()]:
            visit(x.parent if isinstance(x, Output) else x)
    return order


def node_record(n):
    from earthkit.workflows.graph import Node as BaseNode
    func, args, kwargs = n.payload
    given = n._for_copy[1]
    if not isinstance(given, (list, tuple)) and not hasattr(given, "__len__"):
        given = [given]
    inputs = []
    for x in list(given):
        if isinstance(x, BaseNode):
            inputs.append([x.name, None])
        else:
            inputs.append([x.parent.name, x.name])
    fname = getattr(func, "__name__", "")
    return {"fname": fname, "args": [_pyval(a) for a in args], "kwargs": [[k, _pyval(v)] for k, v in kwargs.items()],
            "inputs": inputs, "outputs": len(n.outputs), "label": n._for_copy[3] if n._for_copy[3] is not None else fname}


def source_items(action):
    import numpy as np
    data = action.nodes.data
    out = []
    for idx in np.ndindex(*data.shape):
        n = data[idx]
        out.append([getattr(n.payload[0], "__name__", ""), list(idx), n._for_copy[3]])
    return out


def snapshot(action):
    """what an existing action holds: dimensions, shape, coordinates (names in their order, dimensions, values WITH their
    types and the dtype of the array, attributes), indexes, attributes and dtype of the node array, node objects by identity"""
    n = action.nodes
    return {"dims": [str(d) for d in n.dims], "shape": list(n.shape),
            "coords": sorted((str(k), [str(d) for d in v.dims], repr(v.data.tolist())) for k, v in n.coords.items()),
            "nodes": [id(x) for x in (n.data.flat if n.data.shape else [n.data.item()])],
            "coord_order": [str(k) for k in n.coords],
            "coord_types": sorted((str(k), str(v.dtype), _type_tree(v.data.tolist()), _attrs(v.attrs)) for k, v in n.coords.items()),
            "indexes": sorted((str(k), type(ix).__name__) for k, ix in n.indexes.items()),
            "attrs": _attrs(n.attrs), "dtype": str(n.dtype), "name": repr(n.name)}


SNAP_KEYS = ("dims", "shape", "coords", "nodes", "coord_order", "coord_types", "indexes", "attrs", "dtype", "name")


def _type_tree(x):
    if isinstance(x, list):
        return "[" + ",".join(sorted({_type_tree(y) for y in x})) + "]"
    return type(x).__name__


def _attrs(attrs):
    try:
        return repr(sorted((str(k), repr(v)) for k, v in attrs.items()))
    except Exception as e:
        return "attrs:" + type(e).__name__


def _static_key(x, loose=False):
    """statics compared by value where Python can, by identity otherwise; never raises. Values of different types are
    different statics (2, 2.0 and True are three static arguments: `x ** 2` and `x ** 2.0` differ in dtype); `loose` = as
    Python's `==` sees numbers (2 == 2.0, True == 1), used only to NAME the mechanism of a failure"""
    import numpy as np
    if isinstance(x, np.ndarray):
        return ("ndarray", x.shape, str(x.dtype), hashlib.sha1(np.ascontiguousarray(x).tobytes()).hexdigest())
    if isinstance(x, (list, tuple)):
        return (type(x).__name__, tuple(_static_key(y, loose) for y in x))
    if isinstance(x, dict):
        return ("dict", tuple(sorted((repr(k), _static_key(v, loose)) for k, v in x.items())))    # dict equality ignores the order
    if isinstance(x, (set, frozenset)):
        return ("set" if loose else type(x).__name__, frozenset(_static_key(y, loose) for y in x))     # by value: the iteration order is not part of a set
    if isinstance(x, float) and x != x:
        return ("float", "nan")
    if loose and isinstance(x, (bool, int, float)):
        return ("number", x)        # hash(2) == hash(2.0) and 2 == 2.0: one key
    if isinstance(x, (bool, int, float, str, type(None))):
        return (type(x).__name__, x)
    if type(x).__eq__ is object.__eq__:
        return ("object", id(x))
    return ("value", type(x).__name__, repr(x))


def node_content(n):
    """what a node object holds: name, callable (identity), static arguments, which output of which node object feeds
    which parameter, outputs"""
    func, args, kwargs = n.payload
    return {"name": n.name, "func": id(func), "args": tuple(_static_key(a) for a in args),
            "kwargs": tuple(sorted((k, _static_key(v)) for k, v in kwargs.items())),
            "inputs": tuple(sorted((k, id(o.parent), o.parent.name, o.name) for k, o in n.inputs.items())),
            "outputs": tuple(n.outputs)}


def contents_of(actions):
    return {id(n): (n, node_content(n)) for n in collect_nodes(actions)}


def changed_contents(before, after):
    """(node, field) for nodes that existed before and hold something else now"""
    out = []
    for key, (n, c) in before.items():
        if key in after and after[key][1] != c:
            now = after[key][1]
            out.append((n, [f for f in c if c[f] != now[f]]))
    return out


# ----------------------------------------------------------------------------- heap cells (for the heap model of transform)

class NodeIds:
    """small integers for node objects (an Output of a multi-output node is its own object)"""

    def __init__(self):
        self.ids = {}
        self.keep = []

    def of(self, x):
        from earthkit.workflows.graph import Output
        key = (id(x.parent), x.name) if isinstance(x, Output) else (id(x), None)
        if key not in self.ids:
            self.ids[key] = len(self.ids) + 1
            self.keep.append(x)
        return self.ids[key]


def cell_of(action, ids):
    """the node array of an action as the heap model sees it; None when it is outside the model's vocabulary"""
    from ekw import c13_fluent as F
    n = action.nodes
    dims = []
    for d in n.dims:
        d = str(d)
        if d in n.coords:
            lab = [F._canon_label(x) for x in n.coords[d].data.tolist()]
            if F.OPAQUE in lab:
                return None
            dims.append([d, lab, True])
        else:
            dims.append([d, list(range(n.sizes[d])), False])
    scalars = []
    for k, v in n.coords.items():
        if k in n.dims:
            continue
        if v.data.shape != ():
            return None
        lab = F._canon_label(v.data.item())
        if lab == F.OPAQUE:
            return None
        scalars.append([str(k), lab])
    data = n.data
    return {"dims": dims, "scalars": sorted(scalars),
            "nodes": [ids.of(x) for x in (data.flat if data.shape else [data.item()])]}


def _heap_kind(st, live):
    """the statements that are replayed on the heap model: the ones whose code path writes to `.nodes` in place or hands
    back an existing object"""
    if "reg" in st:
        # a.<registered name>.<method>(…) casts the receiver to the registered class and the result back: the result is always a
        # NEW object (also where the method hands back `self`) — outside the heap model; judged by the snapshots only
        return None
    if st["op"] == "transform" and st.get("func") in ("lookup", "ident"):
        if st["func"] == "ident" or all(t in live for t in st["r"]):
            return "lookup" if st["func"] == "lookup" else "self"
        return None
    if st["op"] == "alias":
        return "alias"
    if st["op"] in ("select", "iselect") and "val" in st and st["a"] in live and "reg" not in st:
        # ONE criterion that names a scalar coordinate: `_validate_criteria` drops it when it matches; with nothing left the
        # action itself is handed back
        n = live[st["a"]].nodes
        if st["dim"] not in n.dims and st["dim"] in n.coords and n.coords[st["dim"]].data.shape == () \
                and isinstance(st["val"], (int, str)) and not isinstance(st["val"], bool):
            return "alias"
    if st["op"] == "join" and st["a"] in live and st.get("b") in live and "reg" not in st:
        return "join"
    if st["op"] == "arith" and st["a"] in live and st.get("b") in live and "reg" not in st:
        return "arith"
    if st["op"] in ("stack", "concatenate") and st["a"] in live:
        n = live[st["a"]].nodes
        if st["dim"] in n.dims and n.sizes[st["dim"]] == 1:
            return "combine"
    return None


# ----------------------------------------------------------------------------- oracle

def oracle_program(prog, heapops=None, union=True, probe_default=False, vias=("from_actions", "add", "iadd")):
    """returns (real env, list of (signature, text, statements involved)); `heapops` collects the
    transforms whose func hands back an existing action, with the heap before and after (model tie)"""
    from ekw import c13_fluent as F
    viol = []
    snaps = {}
    srcinfo = {}
    pending = {}
    ids = NodeIds()
    contents = {}

    def hook(when, k, st, env):
        live = {i: r for i, r in enumerate(env[:k]) if not isinstance(r, tuple)}
        if when == "after" and st["op"] == "source" and not isinstance(env[k], tuple):
            srcinfo[k] = source_items(env[k])
        if when == "before":
            # EVERY action that exists, whether or not the statement mentions it (nothing runs between two
            # statements, so the state after the previous statement is the state before this one)
            for i, a in live.items():
                if i not in snaps:
                    snaps[i] = snapshot(a)
            pending.clear()
            heapkind = _heap_kind(st, live)
            if heapops is not None and heapkind:
                # one cell per action OBJECT (two variables may hold the same object)
                order = []
                for i in sorted(live):
                    if not any(live[i] is live[j] for j in order):
                        order.append(i)
                cell_index = {i: next(n_ for n_, j in enumerate(order) if live[j] is live[i]) for i in live}
                cells = [cell_of(live[i], ids) for i in order]
                if all(c is not None for c in cells):
                    rec = {"heap": cells, "a": cell_index[st["a"]], "kind": heapkind}
                    if heapkind in ("lookup", "self"):
                        table = st["r"] if st["func"] == "lookup" else [st["a"]] * len(st["params"])
                        rec.update({"targets": [cell_index[t] for t in table], "dim": st["dim"], "axis": st["axis"]})
                    elif heapkind == "combine":
                        rec.update({"method": "stack" if st["op"] == "stack" else "concat", "d": st["dim"], "keep": st["keep"]})
                    elif heapkind == "join":
                        rec.update({"b": cell_index[st["b"]], "dim": st["dim"], "match": bool(st["match"])})
                    elif heapkind == "arith":
                        rec.update({"b": cell_index[st["b"]], "fn": st["fn"]})
                    elif heapkind == "alias" and st["op"] != "alias":
                        rec.update({"crit": [st["dim"], st["val"]], "drop": bool(st.get("drop"))})
                    pending.update({"order": order, "rec": rec})
        else:
            for i, a in live.items():
                now = snapshot(a)
                if i in snaps and now != snaps[i]:
                    what = [key for key in SNAP_KEYS if now[key] != snaps[i][key]]
                    role = "operand" if i in F.operands(st) else "bystander"
                    viol.append(({"kind": "operand-mutated", "op": st["op"], "changed": what[0]},
                                 f"statement {k} {st} changed {what} of existing action v{i} ({role}): {snaps[i]['dims']} {snaps[i]['coords']} -> {now['dims']} {now['coords']}",
                                 [k, i]))
                snaps[i] = now
            # … and what the node objects of the existing actions hold (name, payload, inputs, outputs)
            allacts = [r for r in env[:k + 1] if not isinstance(r, tuple)]
            now = contents_of(allacts)
            for n, fields in changed_contents(contents, now)[:1]:
                viol.append(({"kind": "node-mutated", "op": st["op"], "changed": fields[0]},
                             f"statement {k} {st} changed {fields} of the existing node {n.name[:24]}… of an existing action", [k, _first_stmt_with(env, n)]))
            contents.clear()
            contents.update(now)
            if not isinstance(env[k], tuple) and any(env[k] is env[i] for i in live):
                prog.setdefault("_aliases", []).append(k)
            if pending:
                rec = pending["rec"]
                r = env[k]
                if isinstance(r, tuple):
                    real = {"err": r[1]}
                else:
                    after = [cell_of(live[i], ids) for i in pending["order"]]
                    res = cell_of(r, ids)
                    if res is not None and rec["kind"] == "arith":
                        res["nodes"] = [0] * len(res["nodes"])      # new node objects: the model reports 0 for them
                    alias = next((n_ for n_, i in enumerate(pending["order"]) if live[i] is r), None)
                    real = None if (res is None or any(c is None for c in after)) else {"heap": after, "result": res, "alias_of": alias}
                if real is not None:
                    heapops.append((k, rec, real))
    prog.pop("_aliases", None)
    env = F.run_real(prog, hook=hook)
    # (a) same program twice -> same names
    env2 = F.run_real(prog)
    for k, (r1, r2) in enumerate(zip(env, env2)):
        if isinstance(r1, tuple) or isinstance(r2, tuple):
            if isinstance(r1, tuple) != isinstance(r2, tuple):
                viol.append(({"kind": "not-deterministic", "what": "outcome"}, f"statement {k} succeeded in one build and failed in the other", [k]))
            continue
        n1 = _names(r1)
        n2 = _names(r2)
        if n1 != n2:
            # per NODE: the nodes where the difference starts (all inputs carry equal names in both builds, the node does not)
            # must each have a static argument rendered with its address; any other root is not explained by that finding
            roots = _divergence_roots(r1, r2)
            unexplained = [(a_, b_) for a_, b_ in roots if not _address_in_own_statics(a_)]
            sig = {"kind": "not-deterministic", "what": "names"}
            cause = None
            if roots and not unexplained:
                sig["cause"] = "address-in-repr"
                cause = _address_in_own_statics(roots[0][0])
            where = ""
            if unexplained:
                where = f"; the difference starts at node {_describe(unexplained[0][0])} whose inputs have equal names in both builds"
            viol.append((sig, f"statement {k} {prog['stmts'][k]}: two builds of the same program in one process give different node names "
                              f"({_first_diff(n1, n2)})" + (f"; a static argument is rendered with its address: {cause}" if cause else where), [k]))
    # (b) union over shared sources: same name => same computation
    actions = [r for r in env if not isinstance(r, tuple)]
    nodes = collect_nodes(actions)
    viol += _collisions(nodes, lambda n: _first_stmt_with(env, n), "")
    # (c) the union on the REAL path: Cascade.from_actions / + / += / deduplicate_nodes / serialise / graph2job
    if union:
        try:
            viol += union_oracle(prog, env2, probe_default, vias)
        except Exception as e:     # an exception of the union machinery is a result, not a crash of the check
            sig = {"kind": "union-raises", "error": F.err_class(e)}
            if _array_eq_error(e, [r for r in env2 if not isinstance(r, tuple)]):
                sig["cause"] = "ndarray-static-compared-with-=="
            viol.append((sig, f"taking the union of the actions of the program raised {type(e).__name__}: {str(e)[:120]}", list(range(len(prog["stmts"])))))
    prog["_srcinfo"] = srcinfo
    return env, viol


def _collisions(nodes, stmt_of, where):
    """two nodes of one graph carry the same name only if they denote the same computation; every pair of a name group is
    compared, one report per (name, cause)"""
    out = []
    by_name = {}
    for n in nodes:
        by_name.setdefault(n.name, []).append(n)
    for name, group in by_name.items():
        seen = set()
        for i, first in enumerate(group[:16]):
            for other in group[i + 1:16]:
                cause = _differs(first, other)
                if cause and cause not in seen:
                    seen.add(cause)
                    sig = {"kind": "name-collision", "cause": cause}
                    if where:
                        sig["where"] = where
                    out.append((sig, f"two nodes named {name[:24]}… {('of the ' + where + ' ') if where else ''}denote different computations ({cause}): "
                                     f"{_describe(first)} vs {_describe(other)}", [stmt_of(first), stmt_of(other)]))
    return out


def _address_in_own_statics(n):
    """a static argument of THIS node whose repr shows a memory address, or None"""
    import re
    for v in list(n.payload[1]) + list(n.payload[2].values()):
        try:
            r = repr(v)
        except Exception:
            continue
        if re.search(r" at 0x[0-9a-fA-F]+>", r):
            return r[:60]
    return None


def _address_static(action, positions=None):
    """a static argument rendered with its memory address among the nodes the names at `positions` (all positions when None)
    of the action are computed from, or None"""
    from earthkit.workflows.graph import Output
    data = action.nodes.data
    flat = list(data.flat) if data.shape else [data.item()]
    if positions is not None:
        flat = [flat[i] for i in positions if i < len(flat)]
    seen, stack = set(), [x.parent if isinstance(x, Output) else x for x in flat]
    while stack:
        n = stack.pop()
        if id(n) in seen:
            continue
        seen.add(id(n))
        r = _address_in_own_statics(n)
        if r:
            return r
        stack.extend(o.parent for o in n.inputs.values())
    return None


def _divergence_roots(a1, a2):
    """two builds of one statement, walked in parallel (position by position, then parameter by parameter): the pairs of
    corresponding nodes whose names differ although all their inputs carry equal names (or whose shape differs)"""
    from earthkit.workflows.graph import Output
    roots, seen = [], set()

    def walk(x, y):
        x = x.parent if isinstance(x, Output) else x
        y = y.parent if isinstance(y, Output) else y
        if (id(x), id(y)) in seen or x.name == y.name:
            return
        seen.add((id(x), id(y)))
        below = False
        if sorted(x.inputs) == sorted(y.inputs):
            for key in x.inputs:
                ox, oy = x.inputs[key], y.inputs[key]
                if ox.parent.name != oy.parent.name or ox.name != oy.name:
                    below = True
                    walk(ox.parent, oy.parent)
        if not below:
            roots.append((x, y))
    d1, d2 = a1.nodes.data, a2.nodes.data
    f1 = list(d1.flat) if d1.shape else [d1.item()]
    f2 = list(d2.flat) if d2.shape else [d2.item()]
    if len(f1) != len(f2):
        return []
    for x, y in zip(f1, f2):
        walk(x, y)
    return roots


def _graph_nodes(cascade):
    return list(cascade._graph.nodes())


def _name_bag(nodes):
    return sorted(n.name for n in nodes)


def union_oracle(prog, envB, probe_default=False, vias=("from_actions", "add", "iadd")):
    """Clause "unions de-duplicate and lowering by name is unambiguous" on the real code. The program is built a third
    time (envC) so that the builds the other oracles look at are not touched; envB is the second build.
      U1 from_actions(one build): names unique (else the collision is reported with its cause), serialise and graph2job
         succeed and key exactly the nodes of the union;
      U2 from_actions / + / += over two builds of the same program: exactly the nodes of one build (same names, same number);
      U3 no union changes what an existing union or the node objects of existing actions hold;
      U4 (witness programs) a new empty Cascade() is empty whatever was united before."""
    from ekw import c13_fluent as F
    from earthkit.workflows import Cascade
    from earthkit.workflows.graph import serialise
    from cascade.low.into import graph2job
    out = []
    every = list(range(len(prog["stmts"])))
    envC = F.run_real(prog)
    actsB = [r for r in envB if not isinstance(r, tuple)]
    actsC = [r for r in envC if not isinstance(r, tuple)]
    okB = [k for k, r in enumerate(envB) if not isinstance(r, tuple)]
    okC = [k for k, r in enumerate(envC) if not isinstance(r, tuple)]
    if okB != okC:
        k = next(iter(sorted(set(okB) ^ set(okC))), 0)
        out.append(({"kind": "not-deterministic", "what": "outcome"},
                     f"statement {k} succeeded in one build and failed in another build of the same program (second / third build)", [k]))
        return out
    if not actsB:
        return out
    stmt_of = lambda n: _first_stmt_with(envB, n)   # noqa: E731
    try:
        one = Cascade.from_actions(actsB)
    except ValueError as e:
        if not _array_eq_error(e, actsB):
            raise
        # the one known way in which a union raises (payloads with ndarray statics compared with `==`): reported with its cause,
        # and U1–U4 go on over the actions that have no array static (they used to be skipped for the whole program)
        out.append(({"kind": "union-raises", "error": F.err_class(e), "cause": "ndarray-static-compared-with-=="},
                     f"taking the union of the actions of the program raised {type(e).__name__}: {str(e)[:120]}", every))
        keep = [i for i, a_ in enumerate(actsB) if not _has_array_static(a_)]
        actsB, actsC = [actsB[i] for i in keep], [actsC[i] for i in keep]
        prog.setdefault("_notes", []).append("union_oracle_continued_without_array_statics")
        if not actsB:
            return out
        one = Cascade.from_actions(actsB)
    before = contents_of(actsB + actsC)
    comp = _comp_keys(collect_nodes(actsB + actsC))
    nodes1 = _graph_nodes(one)
    bag1 = _name_bag(nodes1)
    coll = _collisions(nodes1, stmt_of, "cascade-union")
    out += coll
    dup = len(set(bag1)) != len(bag1)
    if dup and not coll:
        out.append(({"kind": "union-not-deduplicated", "via": "from_actions"},
                     f"Cascade.from_actions over the actions of ONE build keeps {len(bag1) - len(set(bag1))} equal computations twice", every))
    # what the program denotes, computed by the harness: one node per distinct (callable, statics, inputs, outputs)
    want = len({comp[id(n)] for n in collect_nodes(actsB)})
    if not dup and len(bag1) != want:
        sig = {"kind": "union-not-deduplicated", "via": "from_actions", "what": "count"}
        why = ""
        if len(bag1) < want:
            # fewer nodes than computations: the one known way is `same_payload`'s `==`, for which 2, 2.0 and True (1) are equal —
            # named as the cause only when counting with that equality gives exactly the number of nodes held
            loose = _comp_keys(collect_nodes(actsB), loose=True)
            if len({loose[id(n)] for n in collect_nodes(actsB)}) == len(bag1):
                sig["cause"] = "statics-equal-under-==-of-different-type"
                pair = _loose_pair(collect_nodes(actsB), comp, loose)
                why = f": deduplicate_nodes compares payloads with `==` and merged {pair}" if pair else ""
        out.append((sig, f"Cascade.from_actions holds {len(bag1)} nodes, the actions denote {want} different computations{why}", every))
    if not dup:
        try:
            ser = serialise(one._graph)
            if sorted(ser) != bag1:
                out.append(({"kind": "union-not-lowerable", "what": "serialise-keys"}, "serialise(union) does not key exactly the nodes of the union", every))
            job = graph2job(one._graph)
            if sorted(job.tasks) != bag1:
                out.append(({"kind": "union-not-lowerable", "what": "task-names"},
                             f"graph2job(union) has {len(job.tasks)} tasks for {len(bag1)} uniquely named nodes", every))
            known = set(bag1)
            loose = [e for e in job.edges if e.source.task not in known or e.sink_task not in known]
            if loose:
                out.append(({"kind": "union-not-lowerable", "what": "edges"}, f"graph2job(union): {len(loose)} edges name tasks that do not exist", every))
        except AssertionError as e:
            out.append(({"kind": "union-not-lowerable", "what": "raises"}, f"lowering the uniquely named union raised AssertionError({str(e)[:80]})", every))
        except Exception as e:
            # out of scope only for a stated reason: a static argument of a type the lowering does not take (C10's matter, not one
            # of names) — the program must contain such a static and the error must name the type; anything else is reported
            reason = _lowering_out_of_scope(nodes1, e)
            if reason:
                prog.setdefault("_notes", []).append("lowering-out-of-scope:" + reason)
            else:
                out.append(({"kind": "union-not-lowerable", "what": "raises", "error": F.err_class(e)},
                             f"lowering the uniquely named union raised {type(e).__name__}({str(e)[:100]})", every))
    # U2/U3: unions with a second build of the same program
    same_names = _name_bag(collect_nodes(actsB)) == _name_bag(collect_nodes(actsC))
    if not same_names:
        # the second and third build of the program differ in their names: clause (a) reports it (with its cause) from the first
        # two builds; U2 has no meaning then — counted, not silent
        prog.setdefault("_notes", []).append("union_U2_skipped_builds_differ_in_names")
        if not any(_address_static(a_) for a_ in actsB):
            out.append(({"kind": "not-deterministic", "what": "names"},
                         "the second and third build of the same program in one process give different node names "
                         f"({_first_diff(_name_bag(collect_nodes(actsB)), _name_bag(collect_nodes(actsC)))}) and no static argument is rendered with its address", every))
    earlier = None
    for via in vias if same_names else ():
        if via == "from_actions":
            two = Cascade.from_actions(actsB + actsC)
        elif via == "add":
            two = Cascade.from_actions(actsB) + Cascade.from_actions(actsC)
        else:
            two = Cascade.from_actions(actsB)
            two += Cascade.from_actions(actsC)
        bag2 = _name_bag(_graph_nodes(two))
        if bag2 != bag1:
            sig = {"kind": "union-not-deduplicated", "via": via}
            why = ""
            # the known way: nodes that `==` merges although their names differ (2 / 2.0) — WHICH of them survives depends on the
            # order in which the union meets them, so two unions of the same computations may keep differently named survivors.
            # Named as the cause only when the two unions hold the same computations once names are read modulo that equality
            loose = _comp_keys(collect_nodes(actsB + actsC), loose=True)
            of_name = {}
            for n_ in collect_nodes(actsB + actsC):
                of_name.setdefault(n_.name, set()).add(loose[id(n_)])
            canon = lambda bag: sorted(tuple(sorted(of_name.get(x, {x}), key=str)) for x in bag)   # noqa: E731
            if canon(bag2) == canon(bag1) and len(set(loose.values())) < len({comp[k_] for k_ in loose}):
                sig["cause"] = "statics-equal-under-==-of-different-type"
                why = " — the same computations once 2 and 2.0 (True and 1) are identified as `==` does: the survivor of such a merge differs between the unions"
            out.append((sig, f"the union ({via}) of two builds of the same program holds {len(bag2)} nodes ({len(set(bag2))} names), one build holds {len(bag1)}{why}", every))
        again = _name_bag(_graph_nodes(one))
        if again != bag1 and earlier is None:
            earlier = (via, again)
    after = contents_of(actsB + actsC)
    ch = changed_contents(before, after)
    # the one way in which the unchanged code is known to do this: deduplicate_nodes re-wires `node.inputs` to another node
    # object of the same name (same computation); anything else is a different matter
    # (same computation: judged by the harness's own computation keys taken BEFORE the unions, not by names — de-duplication
    # also merges equal payloads whose names differ, e.g. keyword dicts written in a different order)
    def same_wiring(n):
        old, new = before[id(n)][1]["inputs"], after[id(n)][1]["inputs"]
        return len(old) == len(new) and all(ko == kn and oo == on and comp.get(po) is not None and comp.get(po) == comp.get(pn_)
                                            for (ko, po, _, oo), (kn, pn_, _, on) in zip(old, new))
    rewire_only = all(fields == ["inputs"] and same_wiring(n) for n, fields in ch)
    cause = {"cause": "dedup-rewire"} if ch and rewire_only else {}
    if earlier:
        via, again = earlier
        out.append(({"kind": "union-mutates-operands", "changed": "earlier-union", **cause},
                     f"after a later union ({via}) that contains the same actions, the union built first holds {len(again)} nodes "
                     f"({len(set(again))} names) instead of {len(bag1)}: it can no longer be serialised / lowered by name", every))
    if ch:
        n, fields = ch[0]
        out.append(({"kind": "union-mutates-operands", "changed": "inputs-identity" if rewire_only else fields[0], **cause},
                     f"taking unions changed {fields} of {len(ch)} node objects of existing actions, e.g. {n.name[:24]}…"
                     + (" (inputs re-wired to other node objects of the same name)" if rewire_only else ""), every))
    if probe_default:
        empty0 = len(_graph_nodes(Cascade()))
        c = Cascade()
        c += one
        empty1 = len(_graph_nodes(Cascade()))
        if empty0 or empty1:
            out.append(({"kind": "union-leak", "cause": "shared-default-graph"},
                         f"a new Cascade() holds {empty1} nodes after `c = Cascade(); c += union` (and held {empty0} before): the default graph "
                         f"is shared between all Cascade() instances and `+=` extends it in place", every))
    return out


def _array_eq_error(e, actions):
    """`same_payload`'s `==` met an ndarray static: NumPy compares element-wise and either the truth value of the result is
    ambiguous (array vs array) or the shapes do not broadcast (array vs list / set of another length). Only when an action of
    the program really has an array static"""
    if not isinstance(e, ValueError):
        return False
    text = str(e)
    if "truth value of an array" not in text and "could not be broadcast together" not in text:
        return False
    return any(_has_array_static(a_) for a_ in actions)


def _has_array_static(action):
    import numpy as np
    return any(isinstance(v, np.ndarray) for n in collect_nodes([action]) for v in list(n.payload[1]) + list(n.payload[2].values()))


def _loose_pair(nodes, strict, loose):
    seen = {}
    for n in nodes:
        m = seen.setdefault(loose[id(n)], n)
        if strict[id(m)] != strict[id(n)]:
            return f"{_describe(m)} and {_describe(n)}"
    return None


def _lowering_out_of_scope(nodes, e):
    """the stated reason why an exception of serialise / graph2job is not a matter of names, or None"""
    text = f"{type(e).__name__}: {e}"
    kinds = set()
    for n in nodes:
        for v in list(n.payload[1]) + list(n.payload[2].values()):
            kinds |= _static_types(v)
    for t in sorted(kinds - {"int", "float", "str", "bool", "NoneType", "list", "tuple", "dict"}):
        if t in text:
            return t
    return None


def _static_types(v):
    out = {type(v).__name__}
    if isinstance(v, (list, tuple, set, frozenset)):
        for y in v:
            out |= _static_types(y)
    elif isinstance(v, dict):
        for y in v.values():
            out |= _static_types(y)
    return out


def _comp_keys(nodes, loose=False):
    """identity of the computation each node denotes (callable object, statics by value, computations of the inputs per
    parameter, outputs) — independent of names; `nodes` lists inputs before users"""
    keys = {}
    for n in nodes:
        func, args, kwargs = n.payload
        ins = tuple(sorted((k, keys[id(o.parent)], o.name) for k, o in n.inputs.items()))
        keys[id(n)] = hash((id(func), tuple(_static_key(a, loose) for a in args), tuple(sorted((k, _static_key(v, loose)) for k, v in kwargs.items())),
                            ins, tuple(n.outputs)))
    return keys


def _first_diff(n1, n2):
    for x, y in zip(n1, n2):
        if x != y:
            return f"{x[:28]}… vs {y[:28]}…"
    return f"{len(n1)} vs {len(n2)} nodes"


def _names(action):
    from earthkit.workflows.graph import Output
    data = action.nodes.data
    return [(x.parent.name + "." + x.name) if isinstance(x, Output) else x.name for x in (data.flat if data.shape else [data.item()])]


def _short(v):
    r = repr(v)
    return r if len(r) <= 40 else r[:37] + "…"


def _describe(n):
    f, a, k = n.payload
    where = getattr(getattr(f, "__code__", None), "co_firstlineno", "?")
    return (f"{getattr(f, '__name__', '?')}(defined at line {where})[{', '.join(_short(x) for x in a)}]{{{', '.join(kk + ': ' + _short(v) for kk, v in k.items())}}}"
            f" outputs={list(n.outputs)}<-{ {p_: o.parent.name[:12] for p_, o in n.inputs.items()} }")


def _differs(n1, n2):
    """why two nodes of equal name are different computations (None: they are the same). Statics, inputs and outputs are
    compared FIRST: `equal-__name__` (the known finding) is the answer only when the callables are the one and only
    difference; two different callables that ALSO differ in statics / inputs / outputs are a different matter"""
    f1, a1, k1 = n1.payload
    f2, a2, k2 = n2.payload
    rest = None
    s1 = (tuple(_static_key(a) for a in a1), tuple(sorted((k, _static_key(v)) for k, v in k1.items())))
    s2 = (tuple(_static_key(a) for a in a2), tuple(sorted((k, _static_key(v)) for k, v in k2.items())))
    if s1 != s2:
        # different statics: did their rendering hide the difference, or was it ignored?
        try:
            same_repr = (repr(list(a1)), repr(dict(k1))) == (repr(list(a2)), repr(dict(k2)))
        except Exception:
            same_repr = False
        rest = "statics-equal-repr" if same_repr else "statics"
    else:
        # which input feeds which parameter (the order of the operands is part of the computation)
        i1 = sorted((k, o.parent.name, o.name) for k, o in n1.inputs.items())
        i2 = sorted((k, o.parent.name, o.name) for k, o in n2.inputs.items())
        if i1 != i2:
            rest = "inputs"
        elif n1.outputs != n2.outputs:
            rest = "outputs"
    if f1 is not f2:
        same_name = getattr(f1, "__name__", "") == getattr(f2, "__name__", "")
        if rest is None:
            return "equal-__name__" if same_name else "different-callables"
        return ("callables+" if same_name else "different-callables+") + rest
    return rest


def _first_stmt_with(env, node):
    for k, r in enumerate(env):
        if isinstance(r, tuple):
            continue
        if any(n is node for n in collect_nodes([r])):
            return k
    return len(env) - 1


# ----------------------------------------------------------------------------- correspondence

def model_names(progs, envs, heaps=None):
    """ask the model for the rendering of every real node (and for the heap after every transform that
    hands back an existing action); returns list of mismatches (prog, where, case, model, impl)"""
    from ekw.core import lean_drive
    heaps = heaps or [[] for _ in progs]
    lines, metas = [], []
    stats = {"heapops": 0, "heapops_out_of_scope": 0, "heapops_err": 0, "nodes_with_unmodelled_statics": 0}
    for prog, env, hops in zip(progs, envs, heaps):
        actions = [r for r in env if not isinstance(r, tuple)]
        nodes = collect_nodes(actions)
        hjson = [rec for _, rec, _ in hops]
        keep_nodes, recs = [], []
        for n_ in nodes:
            try:
                recs.append(node_record(n_))
                keep_nodes.append(n_)
            except TypeError:
                stats["nodes_with_unmodelled_statics"] += 1      # ndarray / object statics: names judged by the oracle only
        nodes = keep_nodes
        info = prog.get("_srcinfo")
        if info is None:
            info = {k: source_items(r) for k, (st, r) in enumerate(zip(prog["stmts"], env)) if st["op"] == "source" and not isinstance(r, tuple)}
        srcs = [info[k] for k in sorted(info)]
        lines.append(json.dumps({"nodes": recs, "sources": [[[f, idx] for f, idx, _ in s] for s in srcs], "heapops": hjson}))
        metas.append((prog, nodes, recs, srcs, hops, None))
    outs = lean_drive("C14", lines)
    bad = []
    for (prog, nodes, recs, srcs, hops, err), line in zip(metas, outs):
        m = json.loads(line)
        for (k, rec, real), mo in zip(hops, m.get("heapops", [])):
            if mo.get("err") == "outOfScope":
                stats["heapops_out_of_scope"] += 1
                continue
            stats["heapops"] += 1
            kind_ = "heapop:" + rec["kind"] + ("_scalar_criterion" if "crit" in rec else "") + ("_match" if rec.get("match") else "")
            stats[kind_] = stats.get(kind_, 0) + 1
            mo = {key: mo[key] for key in ("err", "heap", "result", "alias_of") if key in mo}
            if "err" in real:
                stats["heapops_err"] += 1
            if mo != real:
                bad.append((prog, "heap:" + rec["kind"], {"statement": k, "stmt": prog["stmts"][k], "heap_before": rec["heap"]}, mo, real))
                break
        if len(hops) != len(m.get("heapops", [])):
            bad.append((prog, "transform-heap", {"heapops": len(hops)}, len(m.get("heapops", [])), len(hops)))
        if err:
            continue
        for n, rec, rend, ins in zip(nodes, recs, m["renders"], m["inputs"]):
            want = rec["label"] + ":" + hashlib.sha256(rend.encode()).hexdigest()
            if want != n.name:
                bad.append((prog, "node-name", {"node": {k: rec[k] for k in ("fname", "args", "kwargs", "inputs", "outputs", "label")}},
                            {"render": rend, "name": want}, {"name": n.name}))
                break
        for s_, labels in zip(srcs, m["labels"]):
            real = [l for _, _, l in s_]
            if real != labels:
                bad.append((prog, "source-labels", {"source_labels": [[f, idx] for f, idx, _ in s_]}, labels, real))
                break
    return bad, stats


def _witnesses():
    S = {"op": "source", "dims": [["d0", [0, 10]]], "base": 0}
    S1 = {"op": "source", "dims": [["d0", [7]], ["d1", [0, 10]]], "base": 0}
    T = {"op": "source", "dims": [["d0", [0, 10]]], "base": 2}
    S2 = {"op": "source", "dims": [["d0", [0, 10]], ["d1", [5, 6]]], "base": 0}
    return [
        # the known finding: two lambdas over the same inputs
        {"stmts": [S, {"op": "map", "a": 0, "fn": "lam1"}, {"op": "map", "a": 0, "fn": "lam2"}], "internal": [], "vseed": 0, "float": False},
        {"stmts": [S, {"op": "map", "a": 0, "fn": "dupA"}, {"op": "map", "a": 0, "fn": "dupB"}], "internal": [], "vseed": 0, "float": False},
        # the mutation defects of the pinned tree
        {"stmts": [S, {"op": "source", "dims": [["d0", [100, 101]]], "base": 2}, {"op": "arith", "a": 0, "fn": "add", "b": 1}], "internal": [], "vseed": 0, "float": False},
        {"stmts": [S1, {"op": "stack", "a": 0, "dim": "d0", "bs": 0, "keep": False, "axis": 0}], "internal": [], "vseed": 0, "float": False},
        {"stmts": [S, {"op": "transform", "a": 0, "func": "ident", "params": [0, 1], "dim": "t", "axis": 0}], "internal": [], "vseed": 0, "float": False},
        # operand order is part of the computation: a-b and b-a in one union
        {"stmts": [S, T, {"op": "arith", "a": 0, "fn": "subtract", "b": 1}, {"op": "arith", "a": 1, "fn": "subtract", "b": 0}], "internal": [], "vseed": 0, "float": False},
        # func hands back an action built before (not the receiver): several parameters / one parameter
        {"stmts": [S, T, {"op": "transform", "a": 0, "func": "lookup", "r": [1, 1], "params": [0, 1], "dim": "t", "axis": 0}], "internal": [], "vseed": 0, "float": False},
        {"stmts": [S, T, {"op": "transform", "a": 0, "func": "lookup", "r": [1], "params": [0], "dim": ["t", ["x"]], "axis": 0}], "internal": [], "vseed": 0, "float": False},
        # … and an action that ALREADY carries the transform's dimension with one label: nothing is added, the closing squeeze
        # of a one-parameter transform must work on a new object (the handed-back action is used again afterwards)
        {"stmts": [S, {"op": "source", "dims": [["t", ["x"]], ["d0", [0, 10]]], "base": 4},
                   {"op": "transform", "a": 0, "func": "lookup", "r": [1], "params": [0], "dim": ["t", ["x"]], "axis": 0},
                   {"op": "map", "a": 1, "fn": "neg"}], "internal": [], "vseed": 0, "float": False},
        # the same callable with one output and with two outputs (yields)
        {"stmts": [S, {"op": "map", "a": 0, "fn": "neg"}, {"op": "map", "a": 0, "fn": "neg", "yields": ["y", [0, 1]]}], "internal": [], "vseed": 0, "float": False},
        # statics whose repr hides the difference (2000-element arrays that differ at index 1000) / shows an address
        {"stmts": [S, {"op": "map", "a": 0, "fn": "keep", "static": {"big": "A"}}, {"op": "map", "a": 0, "fn": "keep", "static": {"big": "B"}}], "internal": [], "vseed": 0, "float": False},
        {"stmts": [S, {"op": "map", "a": 0, "fn": "keep", "static": {"config": 1}}], "internal": [], "vseed": 0, "float": False},
        {"stmts": [S, {"op": "map", "a": 0, "fn": "keep", "static": {"newconfig": 1}}], "internal": [], "vseed": 0, "float": False},
        # dict-valued keyword arguments, nested lists
        {"stmts": [S, {"op": "map", "a": 0, "fn": "keep", "static": {"kwdict": {"a": 1}}}, {"op": "map", "a": 0, "fn": "keep", "static": {"kwdict": {"a": 2}}},
                   {"op": "map", "a": 0, "fn": "keep", "static": {"nested": [[1, 2], 3]}}, {"op": "map", "a": 0, "fn": "keep", "static": {"nested": [[1], 2, 3]}}],
         "internal": [], "vseed": 0, "float": False},
        # one Payload object passed to several operations
        {"stmts": [S, {"op": "map", "a": 0, "fn": "first", "share": 1}, {"op": "reduce", "a": 0, "fn": "first", "dim": "d0", "bs": 0, "keep": False, "share": 1}],
         "internal": [], "vseed": 0, "float": False},
        # second audit: scalars that compare equal are different static arguments (2 / 2.0, 1 / True): four names, four computations
        {"stmts": [S, {"op": "arith", "a": 0, "fn": "pow", "scalar": 2}, {"op": "arith", "a": 0, "fn": "pow", "scalar": 2.0},
                   {"op": "arith", "a": 0, "fn": "add", "scalar": 1}, {"op": "arith", "a": 0, "fn": "add", "scalar": True},
                   {"op": "map", "a": 0, "fn": "keep", "static": {"int": 2}}, {"op": "map", "a": 0, "fn": "keep", "static": {"float": 2.0}}],
         "internal": [], "vseed": 0, "float": False},
        # a criterion that names a SCALAR coordinate: matched (the action itself comes back, nothing of it may change), used again, refused
        {"stmts": [S2, {"op": "select", "a": 0, "dim": "d1", "val": 5, "drop": False}, {"op": "select", "a": 1, "dim": "d1", "val": 5, "drop": False},
                   {"op": "map", "a": 2, "fn": "neg"}, {"op": "select", "a": 1, "dim": "d1", "val": 6, "drop": False},
                   {"op": "iselect", "a": 1, "dim": "d1", "val": 5, "drop": True}, {"op": "arith", "a": 1, "fn": "add", "b": 2}],
         "internal": [], "vseed": 0, "float": False},
        # unordered statics: the name must not depend on the iteration order of a set (another string-hash seed in the fresh interpreter)
        {"stmts": [S, {"op": "map", "a": 0, "fn": "keep", "static": {"kwset": _SET_POOL[:8]}}, {"op": "map", "a": 0, "fn": "keep", "static": {"set": _SET_POOL[:8]}},
                   {"op": "map", "a": 0, "fn": "keep", "static": {"frozenset": _SET_POOL[2:9]}}, {"op": "map", "a": 0, "fn": "keep", "static": {"nestedset": _SET_POOL[:6]}},
                   {"op": "map", "a": 0, "fn": "keep", "static": {"set": list(reversed(_SET_POOL[:8]))}}],
         "internal": [], "vseed": 0, "float": False},
        # operations that hand back the action itself, then an in-place candidate on the alias
        {"stmts": [S, {"op": "alias", "a": 0, "how": "select"}, {"op": "transform", "a": 1, "func": "ident", "params": [0], "dim": "t", "axis": 0}], "internal": [], "vseed": 0, "float": False},
    ]


def _sub_program(prog, roots):
    """the statements `roots` depend on (operands, actions a func hands back), renumbered"""
    from ekw import c13_fluent as F
    need = set()

    def visit(i):
        if i in need or not (0 <= i < len(prog["stmts"])):
            return
        need.add(i)
        for o in F.operands(prog["stmts"][i]):
            visit(o)
    for r in roots:
        visit(r)
    order = sorted(need)
    ren = {old: new for new, old in enumerate(order)}
    stmts = []
    for i in order:
        st = dict(prog["stmts"][i])
        if st["op"] != "source":
            for key in ("a", "b"):
                if isinstance(st.get(key), int):
                    st[key] = ren[st[key]]
            if st.get("func") == "lookup":
                st["r"] = [ren[j] for j in st["r"]]
        stmts.append(st)
    return dict(_clean(prog), stmts=stmts)


def _shrink(prog, roots, sig, failing=None):
    """drop the statements the failing ones do not depend on; keep the original when that no longer fails"""
    if failing is None:
        def failing(q):
            return any(v[0] == sig for v in oracle_program(q)[1])
    small = _sub_program(prog, roots)
    if len(small["stmts"]) < len(prog["stmts"]):
        try:
            if failing(small):
                return small
        except Exception:
            pass
    return _clean(prog)


# ----------------------------------------------------------------------------- fresh interpreters

def _fresh_differs(prog, here=None, env=None):
    """build `prog` twice in a fresh interpreter; (statement, text) of the first difference between those two builds
    (and the builds of this process), or None"""
    from ekw import c14_fresh as X
    res = X.collect(X.spawn([prog]))
    if not res or "b1" not in res[0]:
        return None
    return _judge_fresh(prog, res[0], here, env)


def _judge_fresh(prog, res, here, env=None):
    """(statement, text, cause) of the first difference, or None"""
    from ekw import c14_fresh as X
    builds = [res["b1"], res["b2"]] + ([here] if here is not None else [])
    k = X.first_difference(*builds)
    if k is None:
        return None
    st = prog["stmts"][k] if k < len(prog["stmts"]) else None
    col = [b[k] if k < len(b) else None for b in builds]
    which = "its first and second build in a fresh interpreter" if col[0] != col[1] else "a fresh interpreter and the check process"
    a, b = (col[0], col[1]) if col[0] != col[1] else (col[0], col[-1])
    d = _first_diff(a, b) if isinstance(a, list) and isinstance(b, list) else f"{a} vs {b}"
    cause = None
    if env is not None and k < len(env) and not isinstance(env[k], tuple) and isinstance(a, list) and isinstance(b, list) and len(a) == len(b):
        # the finding explains a difference only where the differing names are computed from a static rendered with its address:
        # EVERY differing position must have one among the nodes it is computed from
        pos = [i for i, (x, y) in enumerate(zip(a, b)) if x != y]
        if pos and all(_address_static(env[k], [i]) for i in pos):
            cause = _address_static(env[k], pos[:1])
    return (k, f"statement {k} {st}: building the same program again gives different node names — {which} disagree ({d})"
            + (f"; a static argument is rendered with its address: {cause}" if cause else ""), cause)


def correspond(ctx):
    from ekw import c13_fluent as F
    from ekw import c14_fresh as X
    from ekw.core import CORPUS_DIR
    n = ctx.budget(90, 4000)
    progs = list(_witnesses())
    for f in sorted(glob.glob(str(CORPUS_DIR / "C14_*.json"))):
        progs.append(json.load(open(f))["prog"])
    for _ in range(n):
        progs.append(gen_program(ctx.rng, max_ops=ctx.budget(4, 6)))
    # fresh interpreters build slices of the programs (twice each) while this process runs its own oracle;
    # the first program of a slice meets the pristine module state, so small programs go first
    nfresh = ctx.budget(3, 8)
    nw = len(_witnesses())
    sample = progs[:nw] + ctx.rng.sample(progs[nw:], min(len(progs) - nw, ctx.budget(40, 600)))
    slices = [sorted(sample[i::nfresh], key=lambda q: len(q["stmts"])) for i in range(nfresh)]
    slices[0] = [progs[0]] + [q for q in slices[0] if q is not progs[0]]
    handles = []
    try:
        handles = [X.spawn(sl) for sl in slices]
    except Exception as e:
        ctx.notes.append(f"fresh interpreters unavailable: {type(e).__name__}: {str(e)[:80]}")
    envs, heaps = [], []
    reported = set()
    here = {}
    for pi, p in enumerate(progs):
        hops = []
        try:
            # deduplicate_nodes is quadratic: the witnesses take all three kinds of union, the others one each in turn
            vias = ("from_actions", "add", "iadd") if pi < nw else (("from_actions", "add", "iadd")[pi % 3],)
            env, viol = oracle_program(p, hops, probe_default=pi < nw, vias=vias)
        except Exception as e:   # the oracle itself must not crash the check — but a program it cannot judge is a failure of the harness
            ctx.count("oracle_crashed")
            ctx.disagree("oracle-crash", {"stmts": p["stmts"][:10]}, "the oracle judges the program", f"{type(e).__name__}: {str(e)[:160]}")
            env, viol, hops = F.run_real(p), [], []
        for note in p.pop("_notes", []):
            ctx.count(note)
        ctx.count("results_that_are_an_existing_action_object", len(p.get("_aliases", [])))
        envs.append(env)
        heaps.append(hops)
        here[id(p)] = X.names_of_env(env)
        nontrivial = sum(1 for st, r in zip(p["stmts"], env) if st["op"] != "source" and not isinstance(r, tuple)) >= 2
        ctx.case({"stmts": p["stmts"][:8]}, nontrivial=nontrivial)
        ctx.count("depth:%d" % _depth(p))
        ctx.count("programs")
        if p.get("ext"):
            ctx.count("programs_ext_vocabulary")
        _count_features(ctx, p, env)
        for sig, text, roots in viol:
            key = json.dumps(sig, sort_keys=True)
            ctx.count("oracle:" + sig["kind"])
            if key in reported:
                continue
            reported.add(key)
            ctx.violation(sig, {"prog": _shrink(p, roots, sig)}, text)
    bad, stats = model_names(progs, envs, heaps)
    ctx.traces += len(progs)
    ctx.count("nodes_renamed_by_model", sum(len(_safe_nodes(e)) for e in envs))
    for key, v in stats.items():
        ctx.count(key, v)
    for prog, where, case, model, impl in bad:
        ctx.disagree(where, {"stmts": prog["stmts"][:10], **case}, model, impl)
    _observe_criteria_dict(ctx)
    # (a') the builds of the fresh interpreters
    env_of = {id(p): e for p, e in zip(progs, envs)}
    for sl, h in zip(slices, handles):
        res = X.collect(h)
        if res is None:
            res = X.collect(X.spawn(sl))     # once more, alone
        if res is None:
            # not a note: without the fresh builds clause "building the same program twice" is only half checked
            ctx.disagree("fresh-interpreter", {"programs": len(sl), "first": sl[0]["stmts"][:6] if sl else None},
                         "a fresh interpreter builds the programs and reports their names", "no answer (twice)")
            continue
        for p, r in zip(sl, res):
            if "b1" not in r:
                ctx.disagree("fresh-interpreter", {"stmts": p["stmts"][:10]}, "the program builds as it does in the check process", str(r.get("crash"))[:160])
                continue
            ctx.count("programs_built_in_fresh_interpreter")
            verdict = _judge_fresh(p, r, here.get(id(p)), env_of.get(id(p)))
            if verdict is None:
                continue
            ctx.count("oracle:not-deterministic")
            k, text, cause = verdict
            sig = {"kind": "not-deterministic", "what": "names"}
            if cause:
                sig["cause"] = "address-in-repr"
            key = json.dumps(sig, sort_keys=True) + "fresh"
            if key in reported:
                continue
            reported.add(key)
            small = _shrink(p, [k], sig, failing=lambda q: _fresh_differs(q, X.names_of_env(F.run_real(q))) is not None)
            ctx.violation(sig, {"prog": small, "fresh": True}, text)


def _observe_criteria_dict(ctx):
    """a directed case outside the generator's statement language: the criteria are passed as ONE dict object that the caller
    keeps. Part of the property: the receiver (snapshot before / after, as for every statement) must not change. Not part of the
    property (a criteria dict is not an action): `select` empties the dict its caller passed when the criterion names a scalar
    coordinate (`crit = criteria or {}` … `criteria.pop(key)`); recorded as an observation"""
    from ekw import c13_fluent as F
    prog = {"stmts": [{"op": "source", "dims": [["d0", [0, 10]], ["d1", [5, 6]]], "base": 0},
                      {"op": "select", "a": 0, "dim": "d1", "val": 5, "drop": False},
                      {"op": "select", "a": 1, "dim": "d1", "val": 5, "drop": False}], "internal": [], "vseed": 0, "float": False}
    try:
        a = F.exec_stmt(prog["stmts"][0], [])
        s1 = a.select({"d1": 5})
        crit = {"d1": 5}
        before = snapshot(s1)
        for how in ("select", "iselect", "sel", "isel"):
            getattr(s1, how)(dict(crit))
            getattr(s1, how)(**crit)
        s1.select(crit)
        after = snapshot(s1)
        ctx.count("directed:criteria_on_scalar_coordinate")
        if after != before:
            what = [k for k in SNAP_KEYS if after[k] != before[k]]
            ctx.violation({"kind": "operand-mutated", "op": "select", "changed": what[0]}, {"prog": prog},
                          f"s.select({{'d1': 5}}) on an action whose scalar coordinate d1 is 5 changed {what} of s itself: "
                          f"{before['coords']} -> {after['coords']}")
        if crit != {"d1": 5}:
            ctx.count("observed:select_mutates_the_callers_criteria_dict")
            ctx.notes.append("observation (outside the property text): Action.select removes the matched scalar-coordinate keys from the criteria dict its caller passed")
    except Exception as e:
        ctx.disagree("directed-case", {"stmts": prog["stmts"]}, "select with a criterion on a scalar coordinate hands the action back", f"{type(e).__name__}: {str(e)[:120]}")


def _count_features(ctx, p, env):
    by_pair = {}
    for k, (st, r) in enumerate(zip(p["stmts"], env)):
        ctx.count("op:" + st["op"])
        ok = not isinstance(r, tuple)
        if st.get("fn") in ("lam1", "lam2", "dupA", "dupB", "rlam1", "rlam2"):
            ctx.count("equal-name-callables")
        if st["op"] in ("arith", "join") and "b" in st and ok:
            ctx.count("binary_between_actions_ok")
            if (st["op"], st.get("fn"), st["b"], st["a"]) in by_pair and st["a"] != st["b"]:
                ctx.count("binary_with_swapped_operands_ok")
            by_pair[(st["op"], st.get("fn"), st["a"], st["b"])] = k
        if st["op"] in ("map", "reduce") and st.get("yields") and ok:
            if any(q["op"] == st["op"] and q.get("a") == st["a"] and q.get("fn") == st.get("fn") and not q.get("yields") for q in p["stmts"][:k]):
                ctx.count("same_callable_one_and_several_outputs_ok")
        if "static" in st and ok:
            ctx.count("static:" + next(iter(st["static"])))
        if "scalar" in st and ok:
            ctx.count("scalar_operand:" + type(st["scalar"]).__name__)
        if st["op"] == "map" and st.get("fn") == "affine" and ok:
            ctx.count("affine_k:" + type(st["k"]).__name__)
        if st["op"] in ("select", "iselect") and "val" in st and "dim" in st and st["a"] < len(env) and not isinstance(env[st["a"]], tuple):
            n_ = env[st["a"]].nodes
            if st["dim"] not in n_.dims and st["dim"] in n_.coords:
                ctx.count("criterion_on_scalar_coordinate:" + ("handed_back" if ok and r is env[st["a"]] else "new_action" if ok else "refused"))
        if st["op"] == "transform" and st.get("func") == "lookup":
            ctx.count("transform_lookup" + ("_ok" if ok else "_raises"))
            if ok and any(j != st["a"] for j in st["r"]):
                ctx.count("transform_returns_other_existing_action_ok")
            if ok and len(st["r"]) == 1:
                ctx.count("transform_lookup_single_param_ok")


def _clean(prog):
    return {k: v for k, v in prog.items() if not k.startswith("_")}


def _depth(p):
    from ekw.props.c13 import _depth as d13
    return d13(p)


def _safe_nodes(env):
    try:
        return collect_nodes([r for r in env if not isinstance(r, tuple)])
    except Exception:
        return []


def _unknown_violation(ctx):
    from ekw.core import load_known, match_known
    known = load_known()
    return any(match_known(PROPERTY, v["signature"], known) is None for v in ctx.violations)


def search(ctx, why):
    """(P) or (T) broken: larger oracle search on the real code — unless a failing input is already at hand"""
    t0 = time.time()
    for _ in range(ctx.budget(400, 2000)):
        if _unknown_violation(ctx) or (ctx.quick and time.time() - t0 > 25):
            break
        p = gen_program(ctx.rng, max_ops=5)
        try:
            env, viol = oracle_program(p)
        except Exception as e:
            ctx.count("oracle_crashed")
            ctx.disagree("oracle-crash", {"stmts": p["stmts"][:10]}, "the oracle judges the program", f"{type(e).__name__}: {str(e)[:160]}")
            continue
        ctx.count("search_programs")
        for sig, text, roots in viol[:2]:
            ctx.violation(sig, {"prog": _shrink(p, roots, sig)}, text)
    if not _unknown_violation(ctx):
        # state that survives between builds shows only in a pristine process
        from ekw import c13_fluent as F
        from ekw import c14_fresh as X
        ws = _witnesses()
        for p in ws[:ctx.budget(2, 4)] + [w for w in ws if any("set" in str(st.get("static", "")) for st in w["stmts"])][:1]:
            v = _fresh_differs(p, X.names_of_env(F.run_real(p)))      # also against this process (another string-hash seed)
            if v and not v[2]:
                ctx.violation({"kind": "not-deterministic", "what": "names"}, {"prog": _clean(p), "fresh": True}, v[1])
                break


def oracle_only(ctx):
    search(ctx, {})


def replay(payload):
    from ekw import c14_fresh as X
    case = payload["case"]
    prog = case["prog"]
    env, viol = oracle_program(prog, probe_default=True)
    for k, (st, r) in enumerate(zip(prog["stmts"], env)):
        print(k, st, "->", r if isinstance(r, tuple) else _names(r)[:4])
    bad = [(v[0], v[1]) for v in viol]
    if case.get("fresh"):
        v = _fresh_differs(prog, X.names_of_env(env), env)
        if v:
            bad.append(({"kind": "not-deterministic", "what": "names", **({"cause": "address-in-repr"} if v[2] else {})}, v[1]))
    # the replay reproduces THE failure it records; other oracle reports on the same input (known findings) are shown only
    from ekw.core import load_known, match_known
    known = load_known()
    want = payload.get("signature")
    hits = 0
    for sig, text in bad:
        k = match_known(PROPERTY, sig, known)
        same = (sig == want) if want else (k is None)
        hits += 1 if same else 0
        print("oracle:" if same else ("oracle (known finding %s):" % k["id"] if k else "oracle (other):"), sig, text)
    return 1 if hits else 0
