"""C14 — fluent node names identify computations; operations leave operands intact.

Tie: for random fluent programs every node of every resulting graph is re-named by the model
(Model/Names.lean renders `fname + repr(args) + repr(kwargs) + repr([input names])`, Python applies
sha256) bottom-up and compared with the real `Node.name`; `from_source` labels likewise.
Oracle: (a) building the same program twice gives the same names; (b) in the union of all actions
of a program (shared sources) two nodes with the same name have the same callable (identity),
statics and input names; (c) dims / coords / node identities of every live action are snapshotted
before and after each operation and must not change.
"""
import glob
import hashlib
import json

PROPERTY = "C14"
LEVEL_TEXT = ("Lean theorems over Model/Names.lean: a node name is a function of (callable __name__, statics, input names) only; for an "
              "injective hash, uniquely decodable statics, callables distinguished by __name__ and plain input names, equal names imply equal "
              "(callable, statics, inputs) — the rendering of the input-name list is proved injective, not assumed; the statement without the "
              "__name__ hypothesis is refuted by a witness; every modelled operation only appends to the store of live actions. Tied to the "
              "real fluent API by re-deriving every real node name from the model's rendering and by operand snapshots.")
LEVEL_NOTE = ("modelled, not verified: fluent.py Payload.__str__/name, Node.__init__ naming, from_source label uniqueness, Action.join/"
              "broadcast/_combine_nodes/transform as store operations; sha256 is applied by the harness to the model's rendering (collision "
              "freedom is the hypothesis `Function.Injective H`); Python repr is modelled for int/str/float/bool/None/list/tuple/dict only; "
              "unique decodability of the statics' repr is a hypothesis; Python object identity is only observed by the snapshots")
TECHNIQUE = "Lean 4 proof (string decomposition lemmas on List Char) + differential correspondence of node names + identity/coordinate snapshots around every operation"
LEAN_PROPS = ["EkwVerif.Props.C14"]
LEAN_DRIVERS = ["C14"]
RULE = ("random fluent programs as in C13 (shared sources, branches) extended with pairs of different callables of equal __name__ "
        "(two lambdas, two functions called `scale`, two reduce lambdas), repeated identical operations, equal callables with different "
        "statics, binary operations between actions whose coordinate values differ (match_coord_values), stack/concatenate on size-1 "
        "dimensions, transform with an identity function. non-trivial = program with >= 2 non-source statements; distinct by content hash")
ASSUMPTIONS = [
    "sha256 is collision free on the rendered strings (hypothesis `Function.Injective H` of c14_injective_partial)",
    "callable identity is Python object identity (`is`) of the payload function",
    "statics are ints, floats, strings, bools, None, lists, tuples (the types the generator and the fluent API itself produce)",
]

KNOWN_COLLISION = {"kind": "name-collision", "cause": "equal-__name__"}


# ----------------------------------------------------------------------------- program generation

def gen_program(rng, max_ops=4):
    from ekw import c13_fluent as F
    g = F.Gen(rng, max_ops=max_ops, max_pos=24)
    g.generate()
    # C14 extras on top of the C13 program: same operand, same statics, different / same callables
    for _ in range(rng.randint(1, 4)):
        lv = g.live()
        if not lv:
            break
        k = rng.choice(lv)
        dims = g.dims_of(k)
        r = rng.random()
        if r < 0.22:
            a, b = rng.choice([("lam1", "lam2"), ("dupA", "dupB"), ("lam1", "lam1"), ("neg", "neg")])
            g.push({"op": "map", "a": k, "fn": a})
            g.push({"op": "map", "a": k, "fn": b})
        elif r < 0.36 and dims:
            d = rng.choice(dims)[0]
            a, b = rng.choice([("rlam1", "rlam2"), ("first", "first"), ("wsum", "first")])
            g.push({"op": "reduce", "a": k, "fn": a, "dim": d, "bs": 0, "keep": False})
            g.push({"op": "reduce", "a": k, "fn": b, "dim": d, "bs": 0, "keep": False})
        elif r < 0.5:
            g.push({"op": "map", "a": k, "fn": "affine", "k": 2})
            g.push({"op": "map", "a": k, "fn": "affine", "k": rng.choice([2, 3])})
        elif r < 0.62 and dims:
            d, lab = rng.choice(dims)
            if F.OPAQUE not in lab:
                g.push({"op": "named", "a": k, "name": "sum", "dim": d, "bs": 0, "keep": False, "kw": []})
                g.push({"op": "named", "a": k, "name": "sum", "dim": d, "bs": 0, "keep": False, "kw": [["axis", 0]] if rng.random() < 0.5 else []})
        elif r < 0.74:
            j = g.partner(k, relabel=True)
            if j is not None:
                g.push({"op": "arith", "a": k, "fn": rng.choice(["add", "subtract"]), "b": j})
        elif r < 0.86 and dims:
            ones = [d for d, l in dims if len(l) == 1]
            d = rng.choice(ones) if ones and rng.random() < 0.8 else rng.choice(dims)[0]
            g.push({"op": rng.choice(["stack", "concatenate"]), "a": k, "dim": d, "bs": 0, "keep": rng.random() < 0.3, "axis": 0})
        else:
            n = rng.randint(1, 2)
            g.push({"op": "transform", "a": k, "func": "ident", "params": list(range(n)), "dim": g.name("t"), "axis": 0})
    return g.prog


# ----------------------------------------------------------------------------- inspection of real graphs

def _pyval(x):
    import numpy as np
    if isinstance(x, np.generic):
        x = x.item()
    if isinstance(x, bool) or x is None or isinstance(x, str):
        return x
    if isinstance(x, int):
        return x
    if isinstance(x, float):
        return {"f": repr(x)}
    if isinstance(x, list):
        return [_pyval(y) for y in x]
    if isinstance(x, tuple):
        return {"t": [_pyval(y) for y in x]}
    raise TypeError(f"unsupported static {type(x).__name__}")


def collect_nodes(actions):
    """all distinct Node objects reachable from the given actions, inputs before users"""
    from earthkit.workflows.graph import Output
    order, seen = [], set()

    def visit(n):
        if id(n) in seen:
            return
        seen.add(id(n))
        for out in n.inputs.values():
            visit(out.parent)
        order.append(n)
    for a in actions:
        for x in a.nodes.data.flat if a.nodes.data.shape else [a.nodes.data.item()]:
            visit(x.parent if isinstance(x, Output) else x)
    return order


def node_record(n):
    from earthkit.workflows.graph import Node as BaseNode
    func, args, kwargs = n.payload
    given = n._for_copy[1]
    if not isinstance(given, (list, tuple)) and not hasattr(given, "__len__"):
        given = [given]
    inputs = []
    for x in list(given):
        if isinstance(x, BaseNode):
            inputs.append([x.name, None])
        else:
            inputs.append([x.parent.name, x.name])
    fname = getattr(func, "__name__", "")
    return {"fname": fname, "args": [_pyval(a) for a in args], "kwargs": [[k, _pyval(v)] for k, v in kwargs.items()],
            "inputs": inputs, "label": n._for_copy[3] if n._for_copy[3] is not None else fname}


def source_items(action):
    import numpy as np
    data = action.nodes.data
    out = []
    for idx in np.ndindex(*data.shape):
        n = data[idx]
        out.append([getattr(n.payload[0], "__name__", ""), list(idx), n._for_copy[3]])
    return out


def snapshot(action):
    n = action.nodes
    return {"dims": [str(d) for d in n.dims], "shape": list(n.shape),
            "coords": sorted((str(k), [str(d) for d in v.dims], repr(v.data.tolist())) for k, v in n.coords.items()),
            "nodes": [id(x) for x in (n.data.flat if n.data.shape else [n.data.item()])]}


# ----------------------------------------------------------------------------- oracle

def oracle_program(prog):
    """returns (real env, list of (signature, text, statement index))"""
    from ekw import c13_fluent as F
    viol = []
    snaps = {}

    srcinfo = {}

    def hook(when, k, st, env):
        live = {i: r for i, r in enumerate(env[:k]) if not isinstance(r, tuple)}
        if when == "after" and st["op"] == "source" and not isinstance(env[k], tuple):
            srcinfo[k] = source_items(env[k])
        if when == "before":
            snaps.clear()
            for i, a in live.items():
                snaps[i] = snapshot(a)
        else:
            for i, a in live.items():
                now = snapshot(a)
                if i in snaps and now != snaps[i]:
                    what = [key for key in ("dims", "shape", "coords", "nodes") if now[key] != snaps[i][key]]
                    role = "operand" if i in F.operands(st) else "bystander"
                    viol.append(({"kind": "operand-mutated", "op": st["op"], "changed": what[0]},
                                 f"statement {k} {st} changed {what} of existing action v{i} ({role}): {snaps[i]['dims']} {snaps[i]['coords']} -> {now['dims']} {now['coords']}", k))
    env = F.run_real(prog, hook=hook)
    # (a) same program twice -> same names
    env2 = F.run_real(prog)
    for k, (r1, r2) in enumerate(zip(env, env2)):
        if isinstance(r1, tuple) or isinstance(r2, tuple):
            if isinstance(r1, tuple) != isinstance(r2, tuple):
                viol.append(({"kind": "not-deterministic", "what": "outcome"}, f"statement {k} succeeded in one build and failed in the other", k))
            continue
        n1 = _names(r1)
        n2 = _names(r2)
        if n1 != n2:
            viol.append(({"kind": "not-deterministic", "what": "names"}, f"statement {k} {prog['stmts'][k]}: two builds of the same program give different node names", k))
    # (b) union over shared sources: same name => same computation
    actions = [r for r in env if not isinstance(r, tuple)]
    nodes = collect_nodes(actions)
    by_name = {}
    for n in nodes:
        by_name.setdefault(n.name, []).append(n)
    for name, group in by_name.items():
        first = group[0]
        for other in group[1:]:
            cause = _differs(first, other)
            if cause:
                k = _first_stmt_with(env, other)
                viol.append(({"kind": "name-collision", "cause": cause},
                             f"two nodes named {name[:24]}… denote different computations ({cause}): "
                             f"{_describe(first)} vs {_describe(other)}", k))
                break
    prog["_srcinfo"] = srcinfo
    return env, viol


def _names(action):
    from earthkit.workflows.graph import Output
    data = action.nodes.data
    return [(x.parent.name + "." + x.name) if isinstance(x, Output) else x.name for x in (data.flat if data.shape else [data.item()])]


def _describe(n):
    f, a, k = n.payload
    where = getattr(getattr(f, "__code__", None), "co_firstlineno", "?")
    return f"{getattr(f, '__name__', '?')}(defined at line {where}){a}{k}<-{[o.parent.name[:10] for o in n.inputs.values()]}"


def _differs(n1, n2):
    f1, a1, k1 = n1.payload
    f2, a2, k2 = n2.payload
    if f1 is not f2:
        return "equal-__name__" if getattr(f1, "__name__", "") == getattr(f2, "__name__", "") else "different-callables"
    if list(a1) != list(a2) or dict(k1) != dict(k2):
        return "statics"
    i1 = [(k, o.parent.name, o.name) for k, o in n1.inputs.items()]
    i2 = [(k, o.parent.name, o.name) for k, o in n2.inputs.items()]
    if i1 != i2:
        return "inputs"
    if n1.outputs != n2.outputs:
        return "outputs"
    return None


def _first_stmt_with(env, node):
    for k, r in enumerate(env):
        if isinstance(r, tuple):
            continue
        if any(n is node for n in collect_nodes([r])):
            return k
    return len(env) - 1


# ----------------------------------------------------------------------------- correspondence

def model_names(progs, envs):
    """ask the model for the rendering of every real node; returns list of mismatches"""
    from ekw.core import lean_drive
    lines, metas = [], []
    for prog, env in zip(progs, envs):
        actions = [r for r in env if not isinstance(r, tuple)]
        nodes = collect_nodes(actions)
        try:
            recs = [node_record(n) for n in nodes]
        except TypeError as e:
            recs, nodes = [], []
            metas.append((prog, nodes, recs, [], str(e)))
            lines.append(json.dumps({"nodes": [], "sources": []}))
            continue
        info = prog.get("_srcinfo")
        if info is None:
            info = {k: source_items(r) for k, (st, r) in enumerate(zip(prog["stmts"], env)) if st["op"] == "source" and not isinstance(r, tuple)}
        srcs = [info[k] for k in sorted(info)]
        lines.append(json.dumps({"nodes": recs, "sources": [[[f, idx] for f, idx, _ in s] for s in srcs]}))
        metas.append((prog, nodes, recs, srcs, None))
    outs = lean_drive("C14", lines)
    bad = []
    for (prog, nodes, recs, srcs, err), line in zip(metas, outs):
        if err:
            continue
        m = json.loads(line)
        for n, rec, rend, ins in zip(nodes, recs, m["renders"], m["inputs"]):
            want = rec["label"] + ":" + hashlib.sha256(rend.encode()).hexdigest()
            if want != n.name:
                bad.append((prog, {"node": {k: rec[k] for k in ("fname", "args", "kwargs", "inputs", "label")}},
                            {"render": rend, "name": want}, {"name": n.name}))
                break
        for s, labels in zip(srcs, m["labels"]):
            real = [l for _, _, l in s]
            if real != labels:
                bad.append((prog, {"source_labels": [[f, idx] for f, idx, _ in s]}, labels, real))
                break
    return bad


def _witnesses():
    S = {"op": "source", "dims": [["d0", [0, 10]]], "base": 0}
    S1 = {"op": "source", "dims": [["d0", [7]], ["d1", [0, 10]]], "base": 0}
    return [
        # the known finding: two lambdas over the same inputs
        {"stmts": [S, {"op": "map", "a": 0, "fn": "lam1"}, {"op": "map", "a": 0, "fn": "lam2"}], "internal": [], "vseed": 0, "float": False},
        {"stmts": [S, {"op": "map", "a": 0, "fn": "dupA"}, {"op": "map", "a": 0, "fn": "dupB"}], "internal": [], "vseed": 0, "float": False},
        # the two mutation defects of the pinned tree
        {"stmts": [S, {"op": "source", "dims": [["d0", [100, 101]]], "base": 2}, {"op": "arith", "a": 0, "fn": "add", "b": 1}], "internal": [], "vseed": 0, "float": False},
        {"stmts": [S1, {"op": "stack", "a": 0, "dim": "d0", "bs": 0, "keep": False, "axis": 0}], "internal": [], "vseed": 0, "float": False},
        {"stmts": [S, {"op": "transform", "a": 0, "func": "ident", "params": [0, 1], "dim": "t", "axis": 0}], "internal": [], "vseed": 0, "float": False},
    ]


def _shrink(prog, k, sig):
    from ekw.props.c13 import _shrink as shrink13

    def failing(q, kk):
        return any(v[0] == sig for v in oracle_program(q)[1])
    small, kk = shrink13(prog, k, failing)
    return small


def correspond(ctx):
    from ekw.core import CORPUS_DIR
    n = ctx.budget(140, 4000)
    progs = list(_witnesses())
    for f in sorted(glob.glob(str(CORPUS_DIR / "C14_*.json"))):
        progs.append(json.load(open(f))["prog"])
    for _ in range(n):
        progs.append(gen_program(ctx.rng, max_ops=ctx.budget(4, 6)))
    envs = []
    reported = set()
    for p in progs:
        try:
            env, viol = oracle_program(p)
        except Exception as e:   # the oracle itself must not crash the check
            ctx.notes.append(f"oracle error {type(e).__name__}: {str(e)[:100]}")
            from ekw import c13_fluent as F
            env, viol = F.run_real(p), []
        envs.append(env)
        nontrivial = sum(1 for st, r in zip(p["stmts"], env) if st["op"] != "source" and not isinstance(r, tuple)) >= 2
        ctx.case({"stmts": p["stmts"][:8]}, nontrivial=nontrivial)
        ctx.count("depth:%d" % _depth(p))
        ctx.count("programs")
        for st, r in zip(p["stmts"], env):
            ctx.count("op:" + st["op"])
            if st.get("fn") in ("lam1", "lam2", "dupA", "dupB", "rlam1", "rlam2"):
                ctx.count("equal-name-callables")
            if st["op"] in ("arith", "join") and "b" in st and not isinstance(r, tuple):
                ctx.count("binary_between_actions_ok")
        for sig, text, k in viol:
            key = json.dumps(sig, sort_keys=True)
            ctx.count("oracle:" + sig["kind"])
            if key in reported:
                continue
            reported.add(key)
            ctx.violation(sig, {"prog": _clean(_shrink(p, k, sig))}, text)
    bad = model_names(progs, envs)
    ctx.traces += len(progs)
    ctx.count("nodes_renamed_by_model", sum(len(_safe_nodes(e)) for e in envs))
    for prog, case, model, impl in bad:
        ctx.disagree("node-name", {"stmts": prog["stmts"][:10], **case}, model, impl)


def _clean(prog):
    return {k: v for k, v in prog.items() if not k.startswith("_")}


def _depth(p):
    from ekw.props.c13 import _depth as d13
    return d13(p)


def _safe_nodes(env):
    try:
        return collect_nodes([r for r in env if not isinstance(r, tuple)])
    except Exception:
        return []


def search(ctx, why):
    for _ in range(ctx.budget(400, 2000)):
        p = gen_program(ctx.rng, max_ops=5)
        try:
            env, viol = oracle_program(p)
        except Exception:
            continue
        ctx.count("search_programs")
        for sig, text, k in viol[:2]:
            ctx.violation(sig, {"prog": _clean(_shrink(p, k, sig))}, text)


def oracle_only(ctx):
    search(ctx, {})


def replay(payload):
    prog = payload["case"]["prog"]
    env, viol = oracle_program(prog)
    for k, (st, r) in enumerate(zip(prog["stmts"], env)):
        print(k, st, "->", r if isinstance(r, tuple) else _names(r)[:4])
    for v in viol:
        print("oracle:", v[0], v[1])
    return 1 if viol else 0
