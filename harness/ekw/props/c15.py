"""C15 — array backends agree with NumPy; 'batchable' functions really are batchable.

Translator `batch_marks`: backends/__init__.py (ast) -> lean/EkwVerif/Gen/BackendMarks.lean,
cross-checked with the `batchable` attribute the imported functions really carry.
Tie: every backend operation, on NumPy arrays, xarray DataArrays and Datasets, against
Model/Backend.lean (exact rationals; floats of the implementation are converted to the unique
nearby fraction of small denominator, never compared as floats).
Oracle (from the property text only): direct NumPy on the raw integer data, and for every
function that carries the `batchable` attribute at run time the law
f(f(batch_1), ..., f(batch_k)) == NumPy f(all) for every cut into consecutive batches.
"""
import ast
import itertools
import json
from fractions import Fraction

import numpy as np

PROPERTY = "C15"
LEVEL_TEXT = ("Lean theorems over Model/Backend.lean (exact arrays of any rank/shape over the rationals): sum, prod, min, max and concat "
              "(any axis, any extents) satisfy f(f(b_1),...,f(b_k)) = f(all) for EVERY cut into >= 2 non-empty batches of any sizes "
              "(singleton batches passed through, as fluent reduce does), by induction; mean, std, var and stack do not (concrete "
              "witnesses); the @batchable marks read from the source on every run are sound, and exact for the nine variadic functions. "
              "Agreement of the model with both real back ends and with NumPy is tied by a differential correspondence check.")
LEVEL_NOTE = ("modelled, not verified: backends/__init__.py Backend.*, arrayapi.py ArrayAPIBackend.*, xarray.py XArrayBackend.* (value "
              "semantics on integer data; NaN/inf, float inputs, integer overflow, broadcasting between different shapes, keepdims/ddof/"
              "skipna kwargs, attrs and coordinate labels are outside the model); NumPy/xarray themselves are trusted; the FieldList "
              "backend (earthkit.py) is not covered")
TECHNIQUE = ("Lean 4 proof (induction over batch lists; pointwise lifting of scalar fold laws to arrays) + AST translator of the "
             "@batchable marks + differential correspondence of both back ends with the model and with NumPy")
LEAN_PROPS = ["EkwVerif.Props.C15"]
LEAN_DRIVERS = ["C15"]
RULE = ("random cases: one of the 15 operations x backend (NumPy array / xarray DataArray / xarray Dataset with two variables, with or "
        "without coordinates) x 1-6 integer arrays of rank 0-3 and extents 1-3 (values -4..4) x axis/dim argument (absent, every "
        "position, negative, as name, out of range) x int / list / ndarray indices (incl. negative and out of range); for the variadic "
        "reductions and concat additionally EVERY cut of the k arguments into >= 2 consecutive batches (2^(k-1)-1 cuts). "
        "Every run also holds the axis sweep: every operation with an axis / dim argument (7 reductions, take, stack, concat) on every "
        "backend with EVERY axis -ndim..ndim-1 (stack -(ndim+1)..ndim) on a 2-D and a 3-D array of pairwise different extents, for "
        "xarray also every dimension by name; take with non-negative scalar, negative scalar, list and ndarray indices. "
        "A fifth of the cases (every one of pow, multiply, add, subtract, sum, prod, max, min, stack, concat, take on every "
        "backend, incl. scalar-operand, nested and multi-argument forms and all batch cuts) carry int64 magnitudes around 2^53, "
        "around powers of two and near the largest value for which the exact result (and every partial result) still fits in "
        "int64; integer results are compared exactly as Python ints (never through float64) and the integer-ness of the result "
        "dtype must equal NumPy's. "
        "non-trivial = the arguments hold >= 2 distinct values and (k >= 2 or rank >= 1); distinct by content hash of the case")
ASSUMPTIONS = [
    "integer input data (int64) such that no exact result or partial result leaves int64 (magnitudes up to 2^63-1 are generated "
    "for the operations whose NumPy result is an integer; mean/std/var/divide only see small values); divisors non-zero; no NaN/inf; "
    "exponents of pow are integers",
    "floats returned by the implementation (mean/std/var/divide) are mapped to the nearest fraction with denominator <= 10^6 and must "
    "be within 1e-9 of it (std: its square); the NumPy oracle compares floats with rtol=atol=1e-12",
    "arguments of one call have equal shapes (concat: equal except along the axis); a Python scalar is allowed as one operand of the "
    "binary operations; xarray operands of one call carry identical coordinates",
    "take indices are an int, a list or an ndarray (a tuple is not an 'Array of int': xarray rejects it)",
    "an axis beyond the rank is passed to stack only on the NumPy backend (XArrayBackend.stack clamps it silently; error behaviour is "
    "not part of the property)",
    "a Dataset is checked variable by variable (each variable has all dimensions)",
    "the law is stated over batches as reduce() forms them (>= 2 batches, singleton batch passed through); the literal variant "
    "'singleton through f' is only measured (distribution key literal_singleton_*)",
]

REDUCTIONS = ["mean", "std", "max", "min", "sum", "prod", "var"]
BINARY = ["add", "subtract", "multiply", "divide", "pow"]
VARIADIC = REDUCTIONS + ["stack", "concat"]
ALL_OPS = VARIADIC + BINARY + ["take"]
NP_NAME = {"pow": "power", "concat": "concatenate"}
FLOAT_OPS = {"mean", "std", "var", "divide"}


# ----------------------------------------------------------------------------- translator

def read_marks(repo):
    """(ordered list of (name, marked) for the 15 operations, other Backend functions)."""
    path = repo / "src" / "earthkit" / "workflows" / "backends" / "__init__.py"
    tree = ast.parse(path.read_text())
    cls = [n for n in tree.body if isinstance(n, ast.ClassDef) and n.name == "Backend"]
    if len(cls) != 1:
        raise ValueError("batch_marks: expected exactly one class Backend in %s" % path)
    marks, others = [], []
    for n in cls[0].body:
        if not isinstance(n, (ast.FunctionDef, ast.AsyncFunctionDef)):
            continue
        decos = []
        for d in n.decorator_list:
            t = d.func if isinstance(d, ast.Call) else d
            if isinstance(t, ast.Name):
                decos.append(t.id)
            elif isinstance(t, ast.Attribute):
                decos.append(t.attr)
            else:
                raise ValueError("batch_marks: decorator of Backend.%s not recognised" % n.name)
        unknown = [d for d in decos if d not in ("batchable", "num_args", "staticmethod")]
        if unknown:
            raise ValueError("batch_marks: Backend.%s carries decorator(s) %s the translator does not know" % (n.name, unknown))
        b = "batchable" in decos
        if n.name in ALL_OPS:
            marks.append((n.name, b))
        else:
            others.append((n.name, b))
    names = [m[0] for m in marks]
    if sorted(names) != sorted(ALL_OPS):
        raise ValueError("batch_marks: Backend defines %s, expected each of %s exactly once" % (names, ALL_OPS))
    for name, b in others:
        if b:
            raise ValueError("batch_marks: Backend.%s is marked batchable but has no meaning in the model" % name)
    # anything that sets the attribute outside a decorator would escape the ast: cross-check at import time
    from earthkit.workflows import backends
    for name, b in marks + others:
        real = bool(getattr(getattr(backends.Backend, name), "batchable", False))
        if real != b:
            raise ValueError("batch_marks: Backend.%s: source says batchable=%s, imported function says %s" % (name, b, real))
        if name in ALL_OPS and bool(getattr(getattr(backends, name), "batchable", False)) != b:
            raise ValueError("batch_marks: backends.%s (module attribute) disagrees with Backend.%s" % (name, name))
    return marks, others


def render_marks(marks, others):
    rows = ",\n".join("  (.%s, %s)" % (n, "true" if b else "false") for n, b in marks)
    extra = ", ".join(n for n, _ in others) or "none"
    return ("-- GENERATED by harness/ekw/props/c15.py (translator `batch_marks`) from\n"
            "-- src/earthkit/workflows/backends/__init__.py -- do not edit.\n"
            "-- Other functions of class Backend (unmarked, outside the property): " + extra + "\n"
            "import EkwVerif.Model.Backend\n"
            "namespace EkwVerif.Gen\n"
            "open EkwVerif.Backend\n\n"
            "/-- (operation, carries `@batchable`) in source order -/\n"
            "def marks : List (Op × Bool) := [\n" + rows + "\n]\n\n"
            "end EkwVerif.Gen\n")


def translate(ctx):
    from ekw.core import LEAN_DIR, REPO
    marks, others = read_marks(REPO)
    text = render_marks(marks, others)
    out = LEAN_DIR / "EkwVerif" / "Gen" / "BackendMarks.lean"
    out.parent.mkdir(parents=True, exist_ok=True)
    if not out.exists() or out.read_text() != text:
        out.write_text(text)
    ctx.extra["batch_marks"] = {n: b for n, b in marks}


# ----------------------------------------------------------------------------- real side

def _shape_of(a):
    s = []
    while isinstance(a, list):
        s.append(len(a))
        a = a[0] if a else None
    return s


def _wrap(raw, case, raw2=None):
    """raw nested list (or int) -> object of the case's backend."""
    import xarray as xr
    if isinstance(raw, int) and case["op"] in BINARY:
        return raw          # Python scalar operand
    a = np.array(raw, dtype=np.int64)
    be = case["backend"]
    if be == "np":
        return a
    dims = ["d%d" % i for i in range(a.ndim)]
    coords = {d: list(range(10, 10 + n)) for d, n in zip(dims, a.shape)} if case.get("coords") else None
    da = xr.DataArray(a, dims=dims, coords=coords)
    if be == "da":
        return da
    b = np.array(raw2, dtype=np.int64)
    return xr.Dataset({"u": da, "v": xr.DataArray(b, dims=dims, coords=coords)})


def _kwargs(case, nd):
    """kwargs of the real call (nd = rank of the first array operand)."""
    op, be, ax, style = case["op"], case["backend"], case.get("axis"), case.get("style", "axis")
    xr_ = be != "np"
    if op in REDUCTIONS:
        if ax is None:
            return {}
        if xr_ and style == "dim":
            return {"dim": "d%d" % ax}
        return {"axis": ax}
    if op == "stack":
        kw = {"dim": "new"} if xr_ else {}
        if ax is not None:
            kw["axis"] = ax
        return kw
    if op == "concat":
        if xr_:
            return {"dim": "d%d" % ((ax or 0) % max(nd, 1))}
        return {} if ax is None else {"axis": ax}
    if op == "take":
        if xr_ and style == "dim":
            return {"dim": "d%d" % ax}
        return {"dim": ax}
    return {}


def _call(case, objs):
    from earthkit.workflows import backends
    op = case["op"]
    f = getattr(backends, op)
    first = next((o for o in objs if not isinstance(o, int)), None)
    nd = len(first.sizes) if hasattr(first, "sizes") and not isinstance(first, np.ndarray) else np.ndim(first)
    kw = _kwargs(case, nd)
    if op == "take":
        ix = case["index"]
        if case.get("index_type") == "ndarray":
            ix = np.array(ix, dtype=np.int64)
        return f(objs[0], ix, **kw)
    if op in BINARY and case.get("nested"):
        return f(list(objs), **kw)
    return f(*objs, **kw)


def _unpack(res, case):
    """result object -> list of ndarrays (one per Dataset variable)."""
    be = case["backend"]
    import xarray as xr
    if isinstance(res, xr.Dataset):
        return [np.asarray(res["u"].values), np.asarray(res["v"].values)]
    if isinstance(res, xr.DataArray):
        return [np.asarray(res.values)]
    if be == "ds":
        raise TypeError("Dataset in, %s out" % type(res).__name__)
    return [np.asarray(res)]


def run_impl(case):
    """Real code on one case -> ('ok', [ndarray per variable]) | ('error', text)."""
    try:
        raws2 = case.get("args2") or [None] * len(case["args"])
        objs = [_wrap(r, case, r2) for r, r2 in zip(case["args"], raws2)]
        batches = case.get("batches")
        if batches:
            mids, k = [], 0
            for n in batches:
                chunk = objs[k:k + n]
                k += n
                mids.append(chunk[0] if n == 1 else _call(case, chunk))
            res = _call(case, mids)
        else:
            res = _call(case, objs)
        return "ok", _unpack(res, case)
    except Exception as e:   # a result, never a crash of the check
        return "error", "%s: %s" % (type(e).__name__, str(e)[:120])


# ----------------------------------------------------------------------------- canonical form (exact)

def _frac(x, square):
    if isinstance(x, (bool, np.bool_)):
        return "bool"
    if isinstance(x, (int, np.integer)):
        v = Fraction(int(x))
        return v * v if square else v
    x = float(x)
    if not np.isfinite(x):
        return "nonfinite"
    if square and x < 0:
        return "negative-std"
    y = x * x if square else x
    f = Fraction(y).limit_denominator(10 ** 6)
    if abs(float(f) - y) > 1e-9 * max(1.0, abs(y)):
        return "inexact:%r" % x
    return f


def canon_impl(status, val, op):
    if status == "error":
        return ["error"]
    sq = op == "std"
    return [{"shape": list(a.shape), "data": [_frac(x, sq) for x in a.reshape(-1).tolist()]} for a in val]


def canon_model(line):
    o = json.loads(line)
    if isinstance(o, dict) and o.get("error"):
        return "error"
    if not isinstance(o, dict) or "shape" not in o:
        return "driver:%r" % (o,)
    return {"shape": o["shape"], "data": [Fraction(n, d) for n, d in o["data"]]}


def model_lines(case):
    """One driver line per variable."""
    ax = case.get("axis")
    out = []
    for key in ("args", "args2"):
        if key == "args2" and not case.get("args2"):
            continue
        out.append(json.dumps({"op": case["op"], "args": case[key], "axis": ax, "index": case.get("index"),
                               "batches": case.get("batches")}))
    return out


def _show(c):
    if isinstance(c, dict):
        return {"shape": c["shape"], "data": [str(x) for x in c["data"]]}
    return c


# ----------------------------------------------------------------------------- oracle: direct NumPy

def numpy_reference(case, key="args"):
    """What NumPy gives for the same data, axis and indices (the unbatched computation)."""
    op = case["op"]
    arrs = [np.array(a, dtype=np.int64) for a in case[key]]
    ax = case.get("axis")
    f = getattr(np, NP_NAME.get(op, op))
    if op in REDUCTIONS:
        if len(arrs) >= 2:
            return f(np.stack(arrs), axis=0)
        return f(arrs[0], axis=ax)
    if op == "stack":
        return np.stack(arrs, axis=0 if ax is None else ax)
    if op == "concat":
        return np.concatenate(arrs, axis=0 if ax is None else ax)
    if op in BINARY:
        if len(arrs) != 2:
            raise ValueError("two operands expected")
        return f(arrs[0], arrs[1])
    if op == "take":
        return np.take(arrs[0], case["index"], axis=ax)
    raise ValueError(op)


def _same(got, exp):
    got, exp = np.asarray(got), np.asarray(exp)
    if got.shape != exp.shape:
        return "shape %s, NumPy gives %s" % (got.shape, exp.shape)
    if exp.dtype.kind in "iu":      # integer result: exact, as Python ints (never through float64: a float equals an int
        # in Python only if it has exactly that value, whereas NumPy would first round the int64 to float64)
        if got.dtype.kind not in "iuf" or got.reshape(-1).tolist() != exp.reshape(-1).tolist():
            return "values %s, NumPy gives %s" % (got.tolist(), exp.tolist())
        return None
    if not np.allclose(got.astype(float), exp.astype(float), rtol=1e-12, atol=1e-12, equal_nan=False):
        return "values %s, NumPy gives %s" % (got.tolist(), exp.tolist())
    return None


def _dtype_diff(got, exp):
    """integer data in: the result is of an integer type exactly when NumPy's is"""
    got, exp = np.asarray(got), np.asarray(exp)
    if (got.dtype.kind in "iu") != (exp.dtype.kind in "iu"):
        return "result dtype %s, NumPy gives %s" % (got.dtype, exp.dtype)
    return None


def oracle(case, status, val):
    """Property oracle on one (possibly batched) case. Returns None or (signature, what)."""
    op, be = case["op"], case["backend"]
    batched = bool(case.get("batches"))
    if batched:
        from earthkit.workflows import backends
        if not getattr(getattr(backends, op), "batchable", False):
            return None                      # the law is claimed only for marked functions
    kind = "batch-law" if batched else "value"
    keys = ["args"] + (["args2"] if case.get("args2") else [])
    for vi, key in enumerate(keys):
        try:
            exp = numpy_reference(case, key)
        except Exception as e:
            if status == "error":
                continue
            if batched:
                continue                     # NumPy itself rejects f(all): nothing is claimed
            return ({"kind": "no-error", "op": op, "backend": be},
                    "%s on %s: NumPy raises %s for these arguments, the backend returned a value" % (op, be, type(e).__name__))
        if status == "error":
            return ({"kind": kind if batched else "error", "op": op, "backend": be},
                    "%s on %s%s raised %s where NumPy computes %s" % (op, be, " batched %s" % case["batches"] if batched else "", val, np.asarray(exp).tolist()))
        diff = _same(val[vi], exp)
        if diff:
            what = "%s on %s" % (op, be)
            if batched:
                what += ", marked batchable: batches %s reduced first give %s" % (case["batches"], diff)
            else:
                what += " (axis=%s index=%s): %s" % (case.get("axis"), case.get("index"), diff)
            return ({"kind": kind, "op": op, "backend": be}, what)
        dd = _dtype_diff(val[vi], exp)
        if dd:
            return ({"kind": "dtype", "op": op, "backend": be},
                    "%s on %s%s for int64 input: %s" % (op, be, " batched %s" % case["batches"] if batched else "", dd))
    return None


# ----------------------------------------------------------------------------- generator

def _rand(rng, shape, lo, hi, nonzero=False):
    if not shape:
        v = rng.randint(lo, hi)
        while nonzero and v == 0:
            v = rng.randint(lo, hi)
        return v
    return [_rand(rng, shape[1:], lo, hi, nonzero) for _ in range(shape[0])]


def compositions(k):
    """all cuts of k items into >= 2 consecutive non-empty batches"""
    out = []
    for m in range(1, 2 ** (k - 1)):
        sizes, run = [], 1
        for bit in range(k - 1):
            if m >> bit & 1:
                sizes.append(run)
                run = 1
            else:
                run += 1
        sizes.append(run)
        out.append(sizes)
    return out


def gen_case(rng, op=None, backend=None):
    op = op or rng.choice(REDUCTIONS * 2 + ["stack", "stack", "concat", "concat", "concat"] + BINARY + ["take"] * 4)
    be = backend or rng.choice(["np", "np", "da", "da", "ds"])
    case = {"op": op, "backend": be, "coords": be != "np" and rng.random() < 0.4}
    xr_ = be != "np"
    lo, hi = (-2, 2) if op == "prod" else (-4, 4)

    def shapes(nd):
        return [rng.randint(1, 3) for _ in range(nd)]

    if op in REDUCTIONS:
        k = rng.randint(1, 6)
        if k == 1:
            nd = rng.randint(0, 3) if rng.random() < 0.1 else rng.randint(1, 3)
            r = rng.random()
            if nd == 0 or r < 0.2:
                case["axis"] = None
            elif r < 0.24:
                case["axis"] = nd                      # out of range
                case["style"] = "dim" if be == "ds" or (xr_ and rng.random() < 0.7) else "axis"
            else:
                ax = rng.randrange(nd)
                # (xarray refuses `axis=` on a Dataset: only `dim=` there)
                if be == "ds" or (xr_ and rng.random() < 0.7):
                    case["style"] = "dim"
                else:
                    case["style"] = "axis"
                    if rng.random() < 0.35:
                        ax -= nd
                case["axis"] = ax
        else:
            nd = rng.randint(0, 3)
            case["axis"] = None
            if nd >= 1 and not xr_ and rng.random() < 0.2:
                case["axis"] = rng.randrange(nd)       # decoy: overwritten by the backend
                case["style"] = "axis"
            # (xarray: a decoy `dim=` is overwritten too, a decoy `axis=` is rejected by xarray itself)
            elif nd >= 1 and xr_ and rng.random() < 0.2:
                case["axis"] = rng.randrange(nd)
                case["style"] = "dim"
        sh = shapes(nd)
        case["args"] = [_rand(rng, sh, lo, hi) for _ in range(k)]
    elif op == "stack":
        k = rng.randint(1, 6)
        nd = rng.randint(0, 2)
        r = rng.random()
        if r < 0.15:
            case["axis"] = None
        elif r < 0.2 and not xr_:
            case["axis"] = nd + 1                      # out of range (NumPy backend only, see ASSUMPTIONS)
        else:
            case["axis"] = rng.randint(-(nd + 1), nd)
        sh = shapes(nd)
        case["args"] = [_rand(rng, sh, lo, hi) for _ in range(k)]
    elif op == "concat":
        k = rng.randint(1, 6)
        nd = rng.randint(1, 3)
        ax = rng.randrange(nd)
        sh = shapes(nd)
        args = []
        for _ in range(k):
            s = list(sh)
            s[ax] = rng.randint(1, 3)
            args.append(_rand(rng, s, lo, hi))
        if not xr_:
            r = rng.random()
            if ax == 0 and r < 0.3:
                ax = None
            elif r < 0.35:
                ax -= nd
        case["axis"] = ax
        case["args"] = args
    elif op in BINARY:
        nd = rng.randint(1, 3) if rng.random() < 0.9 else 0
        sh = shapes(nd)
        form = rng.choice(["aa", "aa", "as", "sa"])
        if nd == 0:
            form = "aa"
        blo, bhi = lo, hi
        alo, ahi = lo, hi
        if op == "pow":
            alo, ahi, blo, bhi = -3, 3, 0, 3
            if rng.random() < 0.04:
                blo = -2                                   # a negative exponent: both NumPy and the backends raise
        nz = op == "divide"
        a = _rand(rng, sh, alo, ahi)
        b = _rand(rng, sh, blo, bhi, nz)
        if form == "as":
            b = _rand(rng, [], blo, bhi, nz)
        elif form == "sa":
            a = _rand(rng, [], alo, ahi)
        if nd == 0 and form == "aa":
            # two rank-0 arrays cannot be told from scalars in the case encoding: use 1-element vectors
            a, b = [a], [b]
        case["args"] = [a, b]
        case["nested"] = rng.random() < 0.25
    else:  # take
        nd = rng.randint(1, 3)
        sh = shapes(nd)
        ax = rng.randrange(nd)
        n = sh[ax]
        if xr_ and rng.random() < 0.3:
            case["style"] = "dim"
        elif rng.random() < 0.3:
            ax -= nd
        case["axis"] = ax

        def one():
            if rng.random() < 0.04:
                return rng.choice([n, -n - 1])            # out of range
            return rng.randint(-n, n - 1)
        if rng.random() < 0.45:
            case["index"] = one()
            case["index_type"] = "int"
        else:
            case["index"] = [one() for _ in range(rng.randint(1, 3))]
            case["index_type"] = rng.choice(["list", "ndarray"])
        case["args"] = [_rand(rng, sh, lo, hi)]
    if be == "ds":
        def other(a):
            if isinstance(a, int):
                return a if op in BINARY else rng.randint(lo, hi)
            return [other(x) for x in a]
        if op in ("divide", "pow"):
            case["args2"] = [other(case["args"][0]), case["args"][1]]   # keep divisor / exponent in the domain
        else:
            case["args2"] = [other(a) for a in case["args"]]
    return case


# --- integer magnitudes near and beyond 2^53 (exact in int64, not representable in float64) -----------------------
# The shapes / axis / index / backend structure comes from gen_case; only the VALUES are replaced, chosen per operation
# so that the exact result and every intermediate result of a batched evaluation fit in int64 (no overflow).

I64 = 2 ** 63 - 1
P53 = 2 ** 53
BIG_OPS = ["pow", "multiply", "add", "subtract", "sum", "prod", "max", "min", "stack", "concat", "take"]


def _iroot(n, m):
    """largest b with b**m <= n"""
    if m <= 1:
        return n
    b = int(round(n ** (1.0 / m)))
    while b ** m > n:
        b -= 1
    while (b + 1) ** m <= n:
        b += 1
    return b


def _bigval(rng, bound):
    """an integer of magnitude <= bound: around 2^53, near the bound, around a power of two, or small"""
    r = rng.random()
    if r < 0.3:
        v = P53 + rng.randint(-4, 12)
    elif r < 0.65:
        v = rng.randint(bound - bound // 3, bound)
    elif r < 0.9:
        v = (1 << rng.randint(0, max(bound.bit_length() - 1, 0))) + rng.randint(-3, 3)
    else:
        v = rng.randint(0, 9)
    v = max(0, min(v, bound))
    return -v if rng.random() < 0.4 else v


def _pow_exp(rng, base):
    """an exponent e >= 0 with |base|^e <= I64: near the largest one, around the 2^53 crossing, or any"""
    m = abs(base)
    if m <= 1:
        return rng.randint(0, 62)
    emax, e53 = 0, None
    while m ** (emax + 1) <= I64:
        emax += 1
        if e53 is None and m ** emax > P53:
            e53 = emax
    pick = [emax, emax, max(emax - 1, 0), rng.randint(0, emax)]
    if e53 is not None:
        pick += [e53, e53, max(e53 - 1, 0)]
    return rng.choice(pick)


def _pow_base(rng, e=None):
    """a base for exponent e (None: any; the exponent is then drawn by _pow_exp)"""
    if e is None:
        r = rng.random()
        if r < 0.7:
            b = rng.choice([2, 3, 3, 5, 6, 7, 7, 10, 11, 13, 15, 21, 0, 1])
        elif r < 0.85:
            b = rng.randint(2, 2000)
        else:
            b = _bigval(rng, _iroot(I64, rng.choice([1, 2, 2, 3, 4, 5])))
    else:
        bound = _iroot(I64, e) if e >= 1 else I64
        b = _bigval(rng, bound) if rng.random() < 0.8 else rng.randint(0, min(bound, 12))
    return -abs(b) if rng.random() < 0.3 else abs(b)


def _mul_other(rng, a):
    """b with |a*b| <= I64, preferably |a*b| > 2^53"""
    if a == 0:
        return _bigval(rng, I64)
    return _bigval(rng, I64 // abs(a))


def _pair(rng, op, a=None, b=None):
    """operands (a, b) of one elementwise application; a given side (scalar operand of the call) is kept"""
    if op == "pow":
        if b is None and a is None:
            a = _pow_base(rng)
            return a, _pow_exp(rng, a)
        if b is None:
            return a, _pow_exp(rng, a)
        return (_pow_base(rng, b) if a is None else a), b
    if op == "multiply":
        if a is None and b is None:
            a = _bigval(rng, 1 << rng.randint(1, 62))
        if b is None:
            return a, _mul_other(rng, a)
        return (_mul_other(rng, b) if a is None else a), b
    bound = 2 ** 62 - 1                # add / subtract: any two such values give a result inside int64
    return (_bigval(rng, bound) if a is None else a), (_bigval(rng, bound) if b is None else b)


def _fill_binary(rng, op, a, b):
    """new values for the operand structures a, b (nested list or int), elementwise compatible"""
    if isinstance(a, list) and isinstance(b, list):
        ps = [_fill_binary(rng, op, x, y) for x, y in zip(a, b)]
        return [p[0] for p in ps], [p[1] for p in ps]
    if isinstance(a, list):
        return [_fill_binary(rng, op, x, b)[0] for x in a], b
    if isinstance(b, list):
        return a, [_fill_binary(rng, op, a, y)[1] for y in b]
    return _pair(rng, op, a, b)


def _numel(sh):
    n = 1
    for x in sh:
        n *= x
    return n


def gen_big_case(rng, op=None, backend=None):
    op = op or rng.choice(BIG_OPS + ["pow", "multiply", "sum", "prod"])
    case = gen_case(rng, op, backend)
    case["big"] = True
    keys = ["args"] + (["args2"] if case.get("args2") else [])
    if op in BINARY:
        a0, b0 = case["args"]
        # the scalar operand (if any) is one value for the whole call (and both Dataset variables)
        sa = sb = None
        if not isinstance(a0, list):
            sa = _pow_base(rng) if op == "pow" else _bigval(rng, 1 << rng.randint(1, 40)) if op == "multiply" else _bigval(rng, 2 ** 62 - 1)
        if not isinstance(b0, list):
            sb = rng.choice([0, 1, 2, 2, 3, 3, 4, 5, 7, 13, 31, 62]) if op == "pow" else \
                _bigval(rng, 1 << rng.randint(1, 40)) if op == "multiply" else _bigval(rng, 2 ** 62 - 1)
        for key in keys:
            blank = lambda x: _map_vals(x, lambda v: None)      # None = draw this element anew
            a, b = _fill_binary(rng, op, blank(a0) if sa is None else sa, blank(b0) if sb is None else sb)
            case[key] = [a, b]
        return case
    # number of values that meet in one output element
    k = len(case["args"])
    sh = _shape_of(case["args"][0])
    ax = case.get("axis")
    if op in ("sum", "prod"):
        if k >= 2:
            m = k
        elif ax is not None and -len(sh) <= ax < len(sh):
            m = sh[ax]
        else:
            m = _numel(sh)
        bound = I64 // max(m, 1) if op == "sum" else _iroot(I64, max(m, 1))
    else:
        bound = I64
    for key in keys:
        case[key] = [_map_vals(a, lambda v: _bigval(rng, bound)) for a in case[key]]
    return case


# --- every axis / dim value on arrays whose extents are all distinct ------------------------------------------------
# A wrong axis shows only if the extents differ (shape) or the data is not symmetric; a negative axis other than -ndim
# shows only from rank 2 on.  Every run holds, for every operation that takes an axis / dim argument, on every backend,
# every axis from -ndim to ndim-1 (stack: -(ndim+1)..ndim) on a 2-D and a 3-D array with pairwise different extents;
# for xarray objects also every dimension given by NAME; take with a non-negative scalar, a negative scalar, a list and
# an ndarray of indices (negative ones among them).

def axis_sweep(rng):
    out = []

    def add(case, lo=-4, hi=4):
        be = case["backend"]
        case["coords"] = be != "np" and rng.random() < 0.4
        case["sweep"] = True
        if be == "ds":
            case["args2"] = [_map_vals(a, lambda v: rng.randint(lo, hi)) for a in case["args"]]
        out.append(case)

    for be in ("np", "da", "ds"):
        xr_ = be != "np"
        for nd in (2, 3):
            sh = rng.sample([2, 3, 4], nd)
            # (axis value, style): positions -nd..nd-1, and for xarray every dimension by name
            forms = [(ax, "axis") for ax in range(-nd, nd)] + ([(ax, "dim") for ax in range(nd)] if xr_ else [])
            for op in REDUCTIONS:
                lo, hi = (-2, 2) if op == "prod" else (-4, 4)
                for ax, style in forms:
                    if be == "ds" and style == "axis":
                        continue                      # xarray refuses `axis=` on a Dataset: only `dim=` there
                    add({"op": op, "backend": be, "axis": ax, "style": style, "args": [_rand(rng, sh, lo, hi)]}, lo, hi)
            for ax, style in forms:
                n = sh[ax]
                neg_or_not = lambda: rng.randint(-n, n - 1)
                for index, itype in ((rng.randint(0, n - 1), "int"), (rng.randint(-n, -1), "int"),
                                     ([neg_or_not() for _ in range(rng.randint(2, 3))] + [rng.randint(-n, -1)], "list"),
                                     ([rng.randint(-n, -1)] + [neg_or_not() for _ in range(rng.randint(0, 2))], "ndarray")):
                    add({"op": "take", "backend": be, "axis": ax, "style": style, "index": index, "index_type": itype,
                         "args": [_rand(rng, sh, -4, 4)]})
            for ax in range(-(nd + 1), nd + 1):
                add({"op": "stack", "backend": be, "axis": ax, "args": [_rand(rng, sh, -4, 4) for _ in range(rng.randint(2, 3))]})
            for ax in range(-nd, nd):
                args = []
                for _ in range(rng.randint(2, 3)):
                    s2 = list(sh)
                    s2[ax] = rng.randint(1, 3)
                    args.append(_rand(rng, s2, -4, 4))
                add({"op": "concat", "backend": be, "axis": ax, "args": args})
    return out


def nontrivial(case):
    vals = set()

    def walk(a):
        if isinstance(a, list):
            for x in a:
                walk(x)
        else:
            vals.add(a)
    for a in case["args"]:
        walk(a)
    return len(vals) >= 2 and (len(case["args"]) >= 2 or isinstance(case["args"][0], list))


def derived(case):
    """the batched variants of a case: every cut into >= 2 consecutive batches"""
    if case["op"] not in VARIADIC or len(case["args"]) < 2:
        return []
    if case["op"] == "stack":
        # not batchable (c15_stack_not_batchable): cut it only if the source marks it (oracle only)
        from earthkit.workflows import backends
        if not getattr(backends.stack, "batchable", False):
            return []
    out = []
    for sizes in compositions(len(case["args"])):
        c = dict(case)
        c["batches"] = sizes
        out.append(c)
    return out


# ----------------------------------------------------------------------------- shrinking

def _map_vals(a, f):
    return [_map_vals(x, f) for x in a] if isinstance(a, list) else f(a)


def _slice_axis(a, ax, n):
    if ax == 0:
        return a[:n]
    return [_slice_axis(x, ax - 1, n) for x in a]


def _neighbours(case):
    k = len(case["args"])
    keys = ["args"] + (["args2"] if case.get("args2") else [])
    # drop one argument
    minargs = 2 if (case.get("batches") or case["op"] in BINARY) else 1
    if k > minargs:
        for i in range(k):
            c = dict(case)
            for key in keys:
                c[key] = case[key][:i] + case[key][i + 1:]
            if case.get("batches"):
                sizes, pos = list(case["batches"]), 0
                for bi, n in enumerate(sizes):
                    if pos <= i < pos + n:
                        sizes[bi] -= 1
                        break
                    pos += n
                sizes = [s for s in sizes if s > 0]
                if len(sizes) < 2:
                    continue
                c["batches"] = sizes
            yield c
    # shorten one axis of every array argument
    sh = next((_shape_of(a) for a in case["args"] if isinstance(a, list)), [])
    for ax, n in enumerate(sh):
        if n > 1 and not (case["op"] == "concat"):
            c = dict(case)
            for key in keys:
                c[key] = [_slice_axis(a, ax, n - 1) if isinstance(a, list) else a for a in case[key]]
            yield c
    # smaller values
    for key in keys:
        for i in range(k):
            for f in (lambda v: 0, lambda v: v // 2 if v > 0 else -((-v) // 2)):
                na = _map_vals(case[key][i], f)
                if na != case[key][i]:
                    c = dict(case)
                    c[key] = case[key][:i] + [na] + case[key][i + 1:]
                    yield c
    if case.get("coords"):
        c = dict(case)
        c["coords"] = False
        yield c


def _flat(a):
    return [v for x in a for v in _flat(x)] if isinstance(a, list) else [a]


def _in_domain(c, orig):
    """shrinking must not leave the domain of the generator (no zero divisor, no new negative exponent)"""
    for key in ("args", "args2"):
        if not c.get(key):
            continue
        if c["op"] == "divide" and 0 in _flat(c[key][1]):
            return False
        if c["op"] == "pow" and min(_flat(c[key][1])) < min(0, min(_flat(orig[key][1]))):
            return False
    return True


def shrink(case, sig, budget=300):
    def fails(c):
        if not _in_domain(c, case):
            return False
        st, val = run_impl(c)
        f = oracle(c, st, val)
        return f is not None and f[0] == sig
    cur, progress = case, True
    while progress and budget > 0:
        progress = False
        for c in _neighbours(cur):
            budget -= 1
            if budget <= 0:
                break
            try:
                if fails(c):
                    cur, progress = c, True
                    break
            except Exception:
                continue
    return cur


# ----------------------------------------------------------------------------- the check

def _literal_singleton(ctx, case):
    """Measured, not judged: the law read literally (a singleton batch is put through f as well)."""
    from earthkit.workflows import backends
    if not getattr(getattr(backends, case["op"]), "batchable", False) or 1 not in case["batches"]:
        return
    try:
        objs = [_wrap(r, case) for r in case["args"]]
        if case["backend"] == "ds":
            return
        mids, k = [], 0
        for n in case["batches"]:
            mids.append(_call(case, objs[k:k + n]))
            k += n
        got = _unpack(_call(case, mids), case)[0]
        exp = numpy_reference(case)
        ctx.count("literal_singleton_agrees" if _same(got, exp) is None else "literal_singleton_differs")
    except Exception:
        ctx.count("literal_singleton_raises")


def _cases(ctx, n):
    import glob
    from ekw.core import CORPUS_DIR
    cases = []
    for f in sorted(glob.glob(str(CORPUS_DIR / "C15_*.json"))):
        try:
            cases.append(json.load(open(f))["case"])
        except Exception:
            ctx.notes.append("unreadable corpus file " + f)
    # every operation on every backend at least twice, then the random mix
    for op in ALL_OPS:
        for be in ("np", "da", "ds"):
            for _ in range(2):
                cases.append(gen_case(ctx.rng, op, be))
    # integer magnitudes around and beyond 2^53 (exact in int64 only): every such operation on every backend
    for op in BIG_OPS:
        for be in ("np", "da", "ds"):
            for _ in range(ctx.budget(4, 30)):
                cases.append(gen_big_case(ctx.rng, op, be))
    for _ in range(ctx.budget(1, 4)):
        cases += axis_sweep(ctx.rng)
    # the random mix (the sweeps above come on top of it)
    for _ in range(max(0, n - 90)):
        cases.append(gen_big_case(ctx.rng) if ctx.rng.random() < 0.15 else gen_case(ctx.rng))
    return cases


def _evaluate(ctx, cases, with_model):
    """Run implementation + oracle on every case and its batched variants; optionally the model."""
    from earthkit.workflows import backends
    work = []           # (case, status, val)
    reported = set()
    unmarked_fail = {}
    for base in cases:
        variants = [base] + derived(base)
        ctx.case(base, nontrivial=nontrivial(base))
        ctx.count("op:" + base["op"])
        ctx.count("backend:" + base["backend"])
        ctx.count("k:%d" % len(base["args"]))
        a0 = next((a for a in base["args"] if isinstance(a, list)), None)
        ctx.count("rank:%d" % len(_shape_of(a0)))
        ax = base.get("axis")
        ctx.count("axis:" + ("absent" if ax is None else "negative" if ax < 0 else "name" if base.get("style") == "dim" else "position"))
        if base.get("coords"):
            ctx.count("with_coords")
        if base["op"] == "take":
            ctx.count("take_index:" + base["index_type"])
        if base.get("sweep"):
            ctx.count("axis_sweep")
            ctx.count("axis_sweep:%s:rank%d:%s" % (base["backend"], len(_shape_of(a0)), "by-name" if base.get("style") == "dim"
                                                   else "negative" if base["axis"] < 0 else "non-negative"))
        if base.get("big"):
            ctx.count("big_int64")
            ctx.count("big_int64:" + base["op"])
            if any(abs(v) > P53 for key in ("args", "args2") for a in (base.get(key) or []) for v in _flat(a)):
                ctx.count("big_operand_beyond_2^53")
        for c in variants:
            st, val = run_impl(c)
            if c.get("batches"):
                ctx.count("batched_variants")
                ctx.evaluations += 1
                if getattr(getattr(backends, c["op"]), "batchable", False):
                    ctx.count("batch_law_checked:" + c["op"])
                    if ctx.dist.get("literal_singleton_sampled", 0) < 400 and 1 in c["batches"]:
                        ctx.count("literal_singleton_sampled")
                        _literal_singleton(ctx, c)
                elif st == "ok":
                    # informative: how often an UNMARKED function breaks the law on the implementation
                    try:
                        bad = _same(val[0], numpy_reference(c)) is not None
                    except Exception:
                        bad = True
                    d = unmarked_fail.setdefault(c["op"], [0, 0])
                    d[0] += 1
                    d[1] += bad
            if st == "error":
                ctx.count("impl_errors")
            f = oracle(c, st, val)
            if f is not None:
                key = json.dumps(f[0], sort_keys=True)
                if key not in reported:
                    reported.add(key)
                    small = shrink(c, f[0])
                    st2, val2 = run_impl(small)
                    f2 = oracle(small, st2, val2) or f
                    ctx.violation(f[0], small, f2[1])
                else:
                    ctx.violation(f[0], c, f[1])
            work.append((c, st, val))
    ctx.extra["unmarked_ops_batch_law_fails_on_impl"] = {k: "%d of %d batched evaluations differ from f(all)" % (v[1], v[0])
                                                         for k, v in sorted(unmarked_fail.items())}
    if not with_model:
        return
    from ekw.core import lean_drive
    lines, index = [], []
    for c, st, val in work:
        if c.get("batches") and c["op"] in ("std", "stack"):
            continue        # std is printed as its radicand: std-of-stds is not expressible; var covers the composition
        ls = model_lines(c)
        index.append((c, st, val, len(lines), len(ls)))
        lines += ls
    res = lean_drive("C15", lines)
    if len(res) != len(lines):
        from ekw.core import InfraError
        raise InfraError("C15 driver answered %d lines for %d" % (len(res), len(lines)))
    ndis = 0
    for c, st, val, at, n in index:
        ctx.traces += 1
        impl = canon_impl(st, val, c["op"])
        model = [canon_model(x) for x in res[at:at + n]]
        if impl == ["error"]:
            impl = ["error"] * n
        if impl != model:
            ndis += 1
            if ndis <= 20:
                ctx.disagree("backend-op" + ("-batched" if c.get("batches") else ""), c,
                             [_show(m) for m in model], [_show(i) for i in impl] if st == "ok" else val)


def correspond(ctx):
    n = ctx.budget(900, 12000)
    _evaluate(ctx, _cases(ctx, n), with_model=True)


def oracle_only(ctx):
    n = ctx.budget(900, 12000)
    _evaluate(ctx, _cases(ctx, n), with_model=False)


def search(ctx, why):
    """(P) or (T) is broken: look harder for a failing input on the real code.  Targets first: the
    batch law for every function that carries the mark right now, on all backends; then the
    operations named in the disagreements; then more of the random mix."""
    from earthkit.workflows import backends
    cases = []
    marked = [op for op in VARIADIC if getattr(getattr(backends, op), "batchable", False)]
    for op in marked:
        for be in ("np", "da", "ds"):
            for _ in range(6):
                c = gen_case(ctx.rng, op, be)
                while len(c["args"]) < 3:
                    c = gen_case(ctx.rng, op, be)
                cases.append(c)
    for d in why.get("disagreements", []):
        c = d.get("case") or {}
        if c.get("op") in ALL_OPS:
            base = {k: v for k, v in c.items() if k != "batches"}
            cases.append(base)
            for _ in range(40):
                cases.append(gen_case(ctx.rng, c["op"], c.get("backend")))
    for op in BIG_OPS:
        for be in ("np", "da", "ds"):
            for _ in range(10):
                cases.append(gen_big_case(ctx.rng, op, be))
    for _ in range(3):
        cases += axis_sweep(ctx.rng)
    for _ in range(ctx.budget(400, 4000)):
        cases.append(gen_big_case(ctx.rng) if ctx.rng.random() < 0.2 else gen_case(ctx.rng))
    ctx.notes.append("violation search: %d extra cases (marked now: %s)" % (len(cases), marked))
    _evaluate(ctx, cases, with_model=False)


def replay(payload):
    case = payload["case"]
    print("case:", json.dumps(case))
    st, val = run_impl(case)
    print("implementation:", st, [v.tolist() for v in val] if st == "ok" else val)
    try:
        ref = {k: np.asarray(numpy_reference(case, k)).tolist() for k in ["args"] + (["args2"] if case.get("args2") else [])}
        print("NumPy on all arguments:", ref)
    except Exception as e:
        print("NumPy raises:", type(e).__name__, e)
    f = oracle(case, st, val)
    print("oracle:", f)
    return 1 if f else 0
