"""C15 — array backends agree with NumPy; 'batchable' functions really are batchable.

Translator `batch_marks`: backends/__init__.py (ast) -> lean/EkwVerif/Gen/BackendMarks.lean,
cross-checked with the `batchable` attribute the imported functions really carry.
Tie: every backend operation, on NumPy arrays, xarray DataArrays and Datasets, of every numeric dtype of NumPy (bool, int8-64,
uint8-64, float16/32/64, complex64/128), against Model/BackendRun.lean: error CAUSE, result dtype, shape and the coordinate
labels of xarray results for all of them; every VALUE exactly for bool, the eight integer dtypes (NumPy's wrap-around),
float64 and float32 (bit for bit through Model/F64.lean; not float32 pow) and for float16 where no accumulation is involved;
float16 reductions, float16 / float32 pow and all complex values are compared by the oracle only (counted as tie_values:opaque:*).
Oracle (from the property text only, harness/ekw/c15_oracle.py): direct NumPy on the raw data -- value AND result dtype, bit
for bit, every dtype -- and for every function that carries the `batchable` attribute at run time the law
f(f(batch_1), ..., f(batch_k)) == NumPy f(all) for every cut into consecutive batches (as reduce() forms them, and read
literally).  Where NumPy itself raises the text demands nothing: counted (oracle_silent:*), compared with the model only.
Helper modules: ekw/c15_real.py (real side, canonical forms), ekw/c15_oracle.py, ekw/c15_gen.py (generators).
"""
import ast
import json

import numpy as np

from ekw.c15_real import (ALL_OPS, BINARY, REDUCTIONS, VARIADIC, arg_shape, canon_impl, canon_model, dtype_of, flat,
                          map_vals, model_request, n_vars, py_kind, run_impl, same_canon, shape_of, value_mode)
from ekw.c15_oracle import STATS, bound_selftest, mixed_presence, numpy_reference, oracle, same_values
from ekw import c15_gen as G

PROPERTY = "C15"
LEVEL_TEXT = ("Lean theorems over Model/Backend.lean (arrays of any rank/shape over ANY element type with the dtype's arithmetic as a "
              "parameter): sum, prod, min, max are batchable -- f(f(b_1),...,f(b_k)) = f(all) for EVERY cut into >= 2 non-empty batches, "
              "singleton batches passed through as fluent reduce does -- for every dtype whose operation is associative, which is PROVED "
              "for exact rationals, for NumPy's wrapping fixed-width integers (any width, signed or not: int8..int64, uint8..uint64), for "
              "bool, and (min/max) for IEEE binary64, binary32 and binary16 incl. NaN and infinities (Model/F64.lean: bit-exact +,-,*,/ "
              "with round-to-nearest-even; float32 / float16 = the binary64 operation followed by a bit-exact rounding to the narrow "
              "format, which is the narrow format's own correctly rounded operation by the double-rounding theorem -- CITED, not "
              "proved); concat for every element type; the law is REFUTED for float64, float32 and float16 sum and for float64 and "
              "float32 prod (c15_sum_dtype_full_fails, c15_prod_dtype_full_fails, c15_sum_f32_full_fails, c15_prod_f32_full_fails, "
              "c15_sum_f16_full_fails: rounding; known finding, witnesses replayed on the real code). The result DTYPE obeys the law for "
              "all 14 dtypes (c15_batched_dtype_stable). The law read literally (every batch through f, k >= 1) is "
              "proved for concat, proved for the reductions on the partitions without a single-array batch (c15_literal_partial) and "
              "refuted otherwise (c15_literal_full_fails; known finding). mean, std, var and stack are not batchable (witnesses, also in "
              "binary64); the @batchable marks read from the source on every run are sound for every associative dtype, exact for the "
              "nine variadic functions, and not sound for float64 / float32 as the law is written (c15_marks_sound_f64_full_fails, "
              "c15_marks_sound_f32_full_fails). NaN propagation of the float64 / float32 / float16 reductions is a theorem (c15_nan_propagates, "
              "c15_nan_propagates_narrow). Complex "
              "arithmetic has no model and no theorem. Clause (a) -- each operation returns NumPy's value -- has no theorem: it is "
              "carried by the differential correspondence check (result dtype, shape, error cause, coordinate labels for all 14 "
              "dtypes; exact values for all but float16 reductions, float16 / float32 pow and complex data) and by the independent NumPy oracle (value "
              "and dtype, bit for bit, all 14 dtypes); both SAMPLE the input space (RULE), they do not exhaust it.")
LEVEL_NOTE = ("modelled, not verified: backends/__init__.py Backend.*, arrayapi.py ArrayAPIBackend.*, xarray.py XArrayBackend.* (value "
              "semantics, result dtype under NumPy-2 promotion incl. weak Python scalars, error causes, labels of results; all 14 "
              "numeric dtypes, of which float16 reductions, float16 / float32 pow and complex VALUES are opaque to the model; mixed dtypes in "
              "one call, keepdims/ddof/out kwargs, attrs, non-index coordinates and float pow with non-integer exponents are outside the "
              "model); NumPy/xarray themselves are trusted, including NumPy's order of additions (left to right; pairwise for a flat "
              "reduction of >= 8 elements, mirrored by vsumNp, float32 as float64); that rounding binary64 -> binary32/16 after one "
              "+,-,*,/ equals the narrow operation is a cited fact (Figueroa 1995; Roux 2014), tested on every float32 / float16 case; "
              "the FieldList backend (earthkit.py) cannot be imported here and is not covered")
TECHNIQUE = ("Lean 4 proof (induction over batch lists; pointwise lifting of scalar fold laws to arrays; dtype arithmetic as a parameter; "
             "binary64 decided by kernel evaluation) + AST translator of the @batchable marks + differential correspondence of both back "
             "ends with the model and with NumPy")
LEAN_PROPS = ["EkwVerif.Props.C15"]
LEAN_DRIVERS = ["C15"]
RULE = ("every run: the witnesses of the known findings and of this round's fixes (incl. float32 / float16 sum, mean, prod of values "
        "that round, on every container; take with uint64 / int8 / uint8 indices); every one of the 15 operations on every container "
        "(ndarray / DataArray / Dataset) twice with int64 data and once with each of float64, int32, uint8, bool, and once with each of "
        "float32, float16, int8, int16, uint16, uint32, uint64, complex64, complex128 on every container (<= 3 arguments); float32 values that round "
        "with every reduction and binary operation on every container; the batch law for the five marked functions with float64, "
        "float32, float16, uint8, int8, int32, uint64, bool, complex64; int64 magnitudes around 2^53 and the int64 "
        "limits; the axis sweep (every axis / dim value, by position, negative, by name, on 2-D and 3-D arrays of pairwise different "
        "extents). Random mix of the first generation (1-6 integer arrays of rank 0-3, extents 1-3, every axis form, int / list / ndarray "
        "indices) and of the second: dtypes float64 (small integers, dyadic, values that round, NaN / +-inf), int32 and uint8 near their "
        "limits (wrap-around), bool, Python int / float scalar operands incl. ones that do not fit; coordinate labels identical / on some "
        "dimensions / on some operands / shifted / permuted / partially overlapping; broadcasting shapes (different ranks, extents 1) "
        "in binary operations, stack and multi-argument reductions; tuple / list axes incl. empty and duplicate; zero extents; take with "
        "0-d and NumPy-scalar indices of every integer dtype (int8..uint64), NumPy-integer dim, missing dim, dimension name on a plain array, method=sel incl. missing labels, "
        "empty index lists; mixed ndarray / DataArray arguments; a decoy axis / dim with several arguments; stack onto an existing and "
        "concat along a missing dimension; Datasets whose variables differ in dims and dtype. For the variadic functions EVERY cut of the "
        "k arguments into >= 2 consecutive batches, and for the marked ones a sample of cuts (and the one-batch partition) read literally. "
        "non-trivial = the arguments hold >= 2 distinct values and (k >= 2 or rank >= 1); distinct by content hash of the case")
ASSUMPTIONS = [
    "all array arguments of one call have one dtype out of bool, int8/16/32/64, uint8/16/32/64, float16/32/64, complex64/128 (the two "
    "variables of a Dataset may differ); a Python int / float scalar is allowed as one operand of the binary operations (not with bool "
    "arrays; complex pow only with array exponents: `ndarray ** 2` takes NumPy's square fast path, which differs from numpy.power in "
    "the last bit for complex data); exponents of pow are integers and float pow is generated only where the exact power is "
    "representable or 1/representable",
    "floats are compared bit for bit (the sign of zero is ignored, all NaNs are one NaN; a complex number with a NaN part is a NaN); where NumPy's order of additions is not "
    "known to the model (tuple axes of var/std/mean, marked approx in the case) model and implementation are compared within 16 ulp",
    "the result dtype is part of 'the value NumPy gives' (a float32 sum answered in float64 is reported as kind dtype); where NumPy "
    "itself raises for the data nothing is demanded (counted oracle_silent:numpy-raises:*), and a refused MIXTURE of ndarray and "
    "DataArray arguments is outside the quantifier of the text ('plain arrays and xarray objects alike')",
    "complex products in batched cases use small integer parts (exact in complex64): complex data has no rounding-only verdict",
    "xarray operands are named by position, right-aligned (d(R-r)..d(R-1)); an xarray result is compared after sorting its d-dimensions "
    "by number (xarray orders the dimensions of a broadcast result by first appearance)",
    "labelled operands whose labels differ along a shared dimension (or, for concat, are present on only some operands along the joined "
    "dimension) are not 'the same data' as any plain arrays: the backend must return NumPy's positional value or refuse with an "
    "alignment error; any other value is a violation (misaligned-value)",
    "take indices are an int, a NumPy integer, a 0-d / 1-d integer ndarray or a list (a tuple is not an 'Array of int': xarray rejects it)",
    "an axis beyond the rank is passed to stack only on the NumPy backend (XArrayBackend.stack clamps it silently; error behaviour is "
    "not part of the property)",
    "a Dataset is checked variable by variable; a variable that lacks the dimension a call acts on must come back unchanged; concat "
    "along a dimension one variable lacks and axis= on a Dataset are not generated / not judged (no NumPy counterpart)",
    "calls that have no NumPy counterpart (take without dim, a dimension name on a plain array, stack onto an existing dimension, concat "
    "along a missing one) are compared with the model only",
]

# ----------------------------------------------------------------------------- translator

def read_marks(repo):
    """(ordered list of (name, marked) for the 15 operations, other Backend functions)."""
    path = repo / "src" / "earthkit" / "workflows" / "backends" / "__init__.py"
    tree = ast.parse(path.read_text())
    cls = [n for n in tree.body if isinstance(n, ast.ClassDef) and n.name == "Backend"]
    if len(cls) != 1:
        raise ValueError("batch_marks: expected exactly one class Backend in %s" % path)
    marks, others = [], []
    for n in cls[0].body:
        if not isinstance(n, (ast.FunctionDef, ast.AsyncFunctionDef)):
            continue
        decos = []
        for d in n.decorator_list:
            t = d.func if isinstance(d, ast.Call) else d
            if isinstance(t, ast.Name):
                decos.append(t.id)
            elif isinstance(t, ast.Attribute):
                decos.append(t.attr)
            else:
                raise ValueError("batch_marks: decorator of Backend.%s not recognised" % n.name)
        unknown = [d for d in decos if d not in ("batchable", "num_args", "staticmethod")]
        if unknown:
            raise ValueError("batch_marks: Backend.%s carries decorator(s) %s the translator does not know" % (n.name, unknown))
        b = "batchable" in decos
        if n.name in ALL_OPS:
            marks.append((n.name, b))
        else:
            others.append((n.name, b))
    names = [m[0] for m in marks]
    if sorted(names) != sorted(ALL_OPS):
        raise ValueError("batch_marks: Backend defines %s, expected each of %s exactly once" % (names, ALL_OPS))
    for name, b in others:
        if b:
            raise ValueError("batch_marks: Backend.%s is marked batchable but has no meaning in the model" % name)
    # anything that sets the attribute outside a decorator would escape the ast: cross-check at import time
    from earthkit.workflows import backends
    for name, b in marks + others:
        real = bool(getattr(getattr(backends.Backend, name), "batchable", False))
        if real != b:
            raise ValueError("batch_marks: Backend.%s: source says batchable=%s, imported function says %s" % (name, b, real))
        if name in ALL_OPS and bool(getattr(getattr(backends, name), "batchable", False)) != b:
            raise ValueError("batch_marks: backends.%s (module attribute) disagrees with Backend.%s" % (name, name))
    return marks, others


def render_marks(marks, others):
    rows = ",\n".join("  (.%s, %s)" % (n, "true" if b else "false") for n, b in marks)
    extra = ", ".join(n for n, _ in others) or "none"
    return ("-- GENERATED by harness/ekw/props/c15.py (translator `batch_marks`) from\n"
            "-- src/earthkit/workflows/backends/__init__.py -- do not edit.\n"
            "-- Other functions of class Backend (unmarked, outside the property): " + extra + "\n"
            "import EkwVerif.Model.Backend\n"
            "namespace EkwVerif.Gen\n"
            "open EkwVerif.Backend\n\n"
            "/-- (operation, carries `@batchable`) in source order -/\n"
            "def marks : List (Op × Bool) := [\n" + rows + "\n]\n\n"
            "end EkwVerif.Gen\n")


def translate(ctx):
    from ekw.core import LEAN_DIR, REPO
    marks, others = read_marks(REPO)
    text = render_marks(marks, others)
    out = LEAN_DIR / "EkwVerif" / "Gen" / "BackendMarks.lean"
    out.parent.mkdir(parents=True, exist_ok=True)
    if not out.exists() or out.read_text() != text:
        out.write_text(text)
    ctx.extra["batch_marks"] = {n: b for n, b in marks}



# ----------------------------------------------------------------------------- shrinking

_PARALLEL = ("args", "args2", "shapes", "shapes2", "coords", "conts", "py")


def _drop_arg(case, i):
    c = dict(case)
    for key in _PARALLEL:
        v = case.get(key)
        if isinstance(v, list) and len(v) == len(case["args"]):
            c[key] = v[:i] + v[i + 1:]
    return c


def _neighbours(case):
    k = len(case["args"])
    minargs = 2 if (case.get("batches") or case["op"] in BINARY or case.get("conts")) else 1
    if k > minargs:
        for i in range(k):
            c = _drop_arg(case, i)
            if case.get("batches"):
                sizes, pos = list(case["batches"]), 0
                for bi, n in enumerate(sizes):
                    if pos <= i < pos + n:
                        sizes[bi] -= 1
                        break
                    pos += n
                sizes = [s for s in sizes if s > 0]
                if len(sizes) < (1 if case.get("literal") else 2):
                    continue
                c["batches"] = sizes
            yield c
    # smaller values
    for key in ("args", "args2"):
        if not case.get(key):
            continue
        for i in range(k):
            def small(v, how):
                if isinstance(v, str) or isinstance(v, bool):
                    return v
                if how == 0:
                    return type(v)(0)
                if isinstance(v, float):
                    return float(int(v / 2))
                return v // 2 if v > 0 else -((-v) // 2)
            for how in (0, 1):
                na = map_vals(case[key][i], lambda v: small(v, how))
                if na != case[key][i]:
                    c = dict(case)
                    c[key] = case[key][:i] + [na] + case[key][i + 1:]
                    yield c
    if case.get("coords") is True:
        c = dict(case)
        c["coords"] = False
        yield c


def _in_domain(c, orig):
    """shrinking must not leave the domain of the generator (no new zero divisor, no new negative exponent)"""
    for key in ("args", "args2"):
        if not c.get(key):
            continue
        if c["op"] == "divide" and dtype_of(c, key) != "f64" and dtype_of(orig, key) != "f64":
            if 0 in flat(c[key][1]) and 0 not in flat(orig[key][1]):
                return False
        if c["op"] == "pow":
            num = lambda a: [v for v in flat(a) if not isinstance(v, str)]
            if num(c[key][1]) and min(num(c[key][1])) < min([0] + num(orig[key][1])):
                return False
    return True


def shrink(case, sig, budget=200):
    def fails(c):
        if not _in_domain(c, case):
            return False
        st, val = run_impl(c)
        f = oracle(c, st, val)
        return f is not None and f[0] == sig
    cur, progress = case, True
    while progress and budget > 0:
        progress = False
        for c in _neighbours(cur):
            budget -= 1
            if budget <= 0:
                break
            try:
                if fails(c):
                    cur, progress = c, True
                    break
            except Exception:
                continue
    return cur


# ----------------------------------------------------------------------------- the check

def _cases(ctx, n):
    import glob
    from ekw.core import CORPUS_DIR
    rng = ctx.rng
    cases = []
    for f in sorted(glob.glob(str(CORPUS_DIR / "C15_*.json"))):
        try:
            cases.append(json.load(open(f))["case"])
        except Exception:
            ctx.notes.append("unreadable corpus file " + f)
    cases += G.witnesses()
    # every operation on every container at least twice with int64 and once with every other dtype, then the random mix
    for op in ALL_OPS:
        for be in ("np", "da", "ds"):
            for _ in range(2):
                cases.append(G.gen_case(rng, op, be))
            for dt in ("f64", "i32", "u8", "bool"):
                if not (dt == "bool" and op == "pow"):
                    cases.append(G.gen_typed(rng, op, be, dt))
    # float64 with NaN / inf and with values that round: every reduction and binary operation on every container
    for op in REDUCTIONS + BINARY:
        for be in ("np", "da", "ds"):
            cases.append(G.gen_typed(rng, op, be, "f64", "special"))
            cases.append(G.gen_typed(rng, op, be, "f64", "round"))
    # (second audit) the rest of NumPy's numeric dtypes: every operation with every one of them on every container (at most
    # three arguments, to bound the number of cuts), and float32 -- the dtype of most field data -- once more with values that
    # round, with every reduction and binary operation on every container
    conts = ("np", "da", "ds")
    for op in ALL_OPS:
        for dt in G.NEW_DTYPES:
            for be in conts:
                c = G.gen_typed(rng, op, be, dt)
                while len(c["args"]) > 3:
                    c = G.gen_typed(rng, op, be, dt)
                if op in BINARY and rng.random() < 0.6:
                    for _ in range(4):
                        if not any(c.get("py") or []):
                            break
                        c = G.gen_typed(rng, op, be, dt)      # mostly array-with-array: the dtype's own arithmetic
                cases.append(c)
    for op in REDUCTIONS + BINARY:
        for be in conts:
            cases.append(G.gen_typed(rng, op, be, "f32", "round"))
    # the batch law on every dtype for every marked function
    for op in ("sum", "prod", "min", "max", "concat"):
        for dt in ("f64", "u8", "i32", "bool", "f32", "f16", "u64", "i8", "c64"):
            for _ in range(ctx.budget(1, 6)):
                cases.append(G.gen_batch(rng, op, None, dt))
    # integer magnitudes around and beyond 2^53 (exact in int64 only): every such operation on every backend
    for op in G.BIG_OPS:
        for be in ("np", "da", "ds"):
            for _ in range(ctx.budget(2, 30)):
                cases.append(G.gen_big_case(rng, op, be))
    for _ in range(ctx.budget(1, 4)):
        cases += G.axis_sweep(rng)
    fams = [(G.gen_typed, 8), (G.gen_coords, 5), (G.gen_take2, 4), (G.gen_broadcast, 5), (G.gen_axes, 3), (G.gen_empty, 3),
            (G.gen_mixed, 2), (G.gen_decoy, 2), (G.gen_flags, 1), (G.gen_ds_dims, 3), (G.gen_batch, 3)]
    pool = [f for f, w in fams for _ in range(w)]
    for _ in range(n):
        r = rng.random()
        if r < 0.3:
            cases.append(G.gen_big_case(rng) if rng.random() < 0.15 else G.gen_case(rng))
        else:
            cases.append(rng.choice(pool)(rng))
    return cases


def _count_case(ctx, base):
    ctx.count("op:" + base["op"])
    ctx.count("backend:" + base["backend"])
    ctx.count("k:%d" % len(base["args"]))
    ctx.count("dtype:" + dtype_of(base))
    ctx.count("family:" + base.get("fam", "big-int64" if base.get("big") else "axis-sweep" if base.get("sweep") else "first-generation"))
    i0 = next((i for i in range(len(base["args"])) if py_kind(base, i) is None), 0)
    sh = arg_shape(base, i0)
    ctx.count("rank:%d" % len(sh))
    if 0 in sh:
        ctx.count("zero_extent")
    ax = base.get("axis")
    ctx.count("axis:" + ("absent" if ax is None else "tuple" if isinstance(ax, list) else "negative" if ax < 0
                         else "name" if base.get("style") == "dim" else "position"))
    co = base.get("coords")
    if co:
        ctx.count("with_coords")
    if base["op"] == "take":
        ctx.count("take_index:" + base["index_type"])
        if base.get("index_dtype"):
            ctx.count("take_index_dtype:" + base["index_dtype"])
        ctx.count("take_dimkind:" + (base.get("dimkind") or ("name" if base.get("style") == "dim" else "int")))
    if base.get("sweep"):
        ctx.count("axis_sweep")
        ctx.count("axis_sweep:%s:rank%d:%s" % (base["backend"], len(sh), "by-name" if base.get("style") == "dim"
                                               else "negative" if base["axis"] < 0 else "non-negative"))
    if base.get("big"):
        ctx.count("big_int64")
        ctx.count("big_int64:" + base["op"])
        if any(abs(v) > G.P53 for key in ("args", "args2") for a in (base.get(key) or []) for v in flat(a)):
            ctx.count("big_operand_beyond_2^53")
    if dtype_of(base) in ("f64", "f32", "f16"):
        vals = [v for a in base["args"] for v in flat(a)]
        if "nan" in vals:
            ctx.count("f64_with_nan")
        if "inf" in vals or "-inf" in vals:
            ctx.count("f64_with_inf")
    if base.get("v_drop") is not None:
        ctx.count("dataset_vars_differ_in_dims")
    if base.get("dtype2") and base.get("dtype2") != dtype_of(base):
        ctx.count("dataset_vars_differ_in_dtype")
    if any(py_kind(base, i) for i in range(len(base["args"]))):
        ctx.count("python_scalar_operand")


def nontrivial(case):
    vals = set()
    for a in case["args"]:
        vals.update(str(v) for v in flat(a))
    return len(vals) >= 2 and (len(case["args"]) >= 2 or isinstance(case["args"][0], list))


def _evaluate(ctx, cases, with_model):
    """Run implementation + oracle on every case and its batched variants; optionally the model."""
    from earthkit.workflows import backends
    work = []           # (case, status, val)
    STATS.clear()
    st_ = bound_selftest()
    ctx.extra["rounding_bound_selftest"] = st_
    if not all(st_.values()):
        from ekw.core import InfraError
        raise InfraError("C15: the rounding bound fails its self-test: %s" % st_)
    reported = {}
    unmarked_fail = {}
    for base in cases:
        variants = [base] + G.derived(base, ctx.rng)
        ctx.case(base, nontrivial=nontrivial(base))
        _count_case(ctx, base)
        for c in variants:
            st, val = run_impl(c)
            if c.get("batches"):
                ctx.count("batched_variants")
                ctx.evaluations += 1
                if getattr(getattr(backends, c["op"]), "batchable", False):
                    ctx.count(("batch_law_literal_checked:" if c.get("literal") else "batch_law_checked:") + c["op"] + ":" + dtype_of(c))
                elif st == "ok":
                    # informative: how often an UNMARKED function breaks the law on the implementation
                    try:
                        bad = same_values(val[0]["values"], numpy_reference(c)) is not None
                    except Exception:
                        bad = True
                    d = unmarked_fail.setdefault(c["op"], [0, 0])
                    d[0] += 1
                    d[1] += bad
            if st == "error":
                ctx.count("impl_errors")
                ctx.count("impl_error:" + val[0].split(":")[0] + ("" if not val[0].startswith("other") else ":" + val[0].split(":")[1]))
            elif any(v["reordered"] for v in val):
                ctx.count("xarray_result_dims_reordered")
            f = oracle(c, st, val)
            if (f is None and st != "error" and any(v["reordered"] for v in val) and not c.get("batches")
                    and len({len(_shape_of(a)) for a in c["args"]}) == 1
                    and (c["op"] in ("stack", "concat", "take") or len(c["args"]) == 1)):
                # the comparison sorts the d-dimensions of an xarray result (named broadcasting may permute them); for stack,
                # concat, take and one-argument calls on operands of ONE rank NumPy fixes the position of every axis
                f = ({"kind": "value", "op": c["op"], "backend": c["backend"], "cause": "dimension-order"},
                     "%s on %s: the dimensions of the xarray result are not in NumPy's axis order (axis=%r): values agree only after transposing"
                     % (c["op"], c["backend"], c.get("axis")))
            if f is not None:
                key = json.dumps(f[0], sort_keys=True)
                ctx.count("oracle_fail:" + f[0]["kind"] + (":" + f[0]["cause"] if "cause" in f[0] else ""))
                if key not in reported:
                    small = shrink(c, f[0])
                    st2, val2 = run_impl(small)
                    f2 = oracle(small, st2, val2) or f
                    reported[key] = 1
                    ctx.violation(f[0], small, f2[1])
                elif reported[key] < 3:
                    reported[key] += 1
                    ctx.violation(f[0], c, f[1])
            work.append((c, st, val))
    for k_, n_ in sorted(STATS.items()):
        ctx.count(k_, n_)
    ctx.extra["unmarked_ops_batch_law_fails_on_impl"] = {k: "%d of %d batched evaluations differ from f(all)" % (v[1], v[0])
                                                         for k, v in sorted(unmarked_fail.items())}
    if not with_model:
        return
    from ekw.core import lean_drive
    lines, index = [], []
    for c, st, val in work:
        if c.get("batches") and c["op"] in ("std", "stack"):
            continue        # std is printed as its radicand: std-of-stds is not expressible; var covers the composition
        reqs = [model_request(c, v) for v in range(n_vars(c))]
        index.append((c, st, val, len(lines), reqs))
        lines += [r for r in reqs if r is not None]
    res = lean_drive("C15", lines)
    if len(res) != len(lines):
        from ekw.core import InfraError
        raise InfraError("C15 driver answered %d lines for %d" % (len(res), len(lines)))
    ndis = 0
    for c, st, val, at, reqs in index:
        ctx.traces += 1
        for key_ in ["args"] + (["args2"] if c.get("args2") else []):
            if dtype_of(c, key_) in ("f32", "f16", "c64", "c128"):
                ctx.count("tie_values:%s:%s" % (value_mode(c, key_), dtype_of(c, key_)))
        impl = canon_impl(st, val, c)
        if st == "error" and val[0] == "coords-presence" and mixed_presence(c):
            # which mixtures of labelled and unlabelled operands xarray's concat refuses is xarray's business (not modelled)
            ctx.count("tie_skipped:mixed-presence-refused")
            continue
        if st == "error":
            impl = impl * len(reqs)
        model, pos = [], at
        for vi, r in enumerate(reqs):
            if r is None:
                # the variable lacks the dimension: it must come back unchanged (checked by the oracle); nothing to ask
                model.append(impl[vi] if vi < len(impl) else None)
                ctx.count("dataset_variable_untouched")
            else:
                model.append(canon_model(res[pos], c, vi))
                pos += 1
        # an error of the call is an error for every variable
        errs = [m for m in model if isinstance(m, dict) and "error" in m]
        if errs:
            model = [errs[0]] * len(model)
        ok = len(impl) == len(model) and all(same_canon(i, m, bool(c.get("approx"))) for i, m in zip(impl, model))
        if not ok:
            ndis += 1
            ctx.count("disagree:" + c["op"])
            if ndis <= 20:
                ctx.disagree("backend-op" + ("-batched" if c.get("batches") else ""), c, model, impl if st == "ok" else list(val))


def _shape_of(a):
    sh = []
    while isinstance(a, list):
        sh.append(len(a))
        a = a[0] if a else None
    return sh


def correspond(ctx):
    n = ctx.budget(260, 12000)
    _evaluate(ctx, _cases(ctx, n), with_model=True)


def oracle_only(ctx):
    n = ctx.budget(260, 12000)
    _evaluate(ctx, _cases(ctx, n), with_model=False)


def search(ctx, why):
    """(P) or (T) is broken: look harder for a failing input on the real code.  Targets first: the
    batch law for every function that carries the mark right now, on all backends and dtypes; then the
    operations named in the disagreements; then more of the random mix."""
    from earthkit.workflows import backends
    rng = ctx.rng
    cases = []
    marked = [op for op in VARIADIC if getattr(getattr(backends, op), "batchable", False)]
    for op in marked:
        for be in ("np", "da", "ds"):
            for _ in range(6):
                c = G.gen_case(rng, op, be)
                while len(c["args"]) < 3:
                    c = G.gen_case(rng, op, be)
                cases.append(c)
                cases.append(G.retype(rng, c, rng.choice(["u8", "i32", "bool", "f32", "i8", "u64"])))
    for d in why.get("disagreements", []):
        c = d.get("case") or {}
        if c.get("op") in ALL_OPS:
            base = {k: v for k, v in c.items() if k not in ("batches", "literal")}
            cases.append(base)
            be = c.get("backend") if c.get("backend") in ("np", "da", "ds") else None
            for _ in range(25):
                cases.append(G.gen_case(rng, c["op"], be))
                cases.append(G.gen_typed(rng, c["op"], be))
            fam = (c.get("fam") or "").split(":")[0]
            g = {"coords": G.gen_coords, "take": G.gen_take2, "broadcast": G.gen_broadcast, "axes": G.gen_axes,
                 "empty": G.gen_empty, "ds-dims": G.gen_ds_dims, "decoy-axis": G.gen_decoy, "mixed": G.gen_mixed}.get(fam)
            if g:
                for _ in range(40):
                    cases.append(g(rng))
    for op in G.BIG_OPS:
        for be in ("np", "da", "ds"):
            for _ in range(10):
                cases.append(G.gen_big_case(rng, op, be))
    for _ in range(3):
        cases += G.axis_sweep(rng)
    for _ in range(ctx.budget(400, 4000)):
        cases.append(G.gen_big_case(rng) if rng.random() < 0.2 else G.gen_case(rng) if rng.random() < 0.4 else G.gen_typed(rng))
    ctx.notes.append("violation search: %d extra cases (marked now: %s)" % (len(cases), marked))
    _evaluate(ctx, cases, with_model=False)


def replay(payload):
    case = payload["case"]
    print("case:", json.dumps(case))
    st, val = run_impl(case)
    print("implementation:", st, [(v["values"].tolist(), str(v["values"].dtype), v["labels"]) for v in val] if st == "ok" else val)
    try:
        ref = {v: (np.asarray(numpy_reference(case, v)).tolist(), str(np.asarray(numpy_reference(case, v)).dtype)) for v in range(n_vars(case))}
        print("NumPy on all arguments:", ref)
    except Exception as e:
        print("NumPy raises:", type(e).__name__, e)
    f = oracle(case, st, val)
    print("oracle:", f)
    return 1 if f else 0
