"""C03 — see DESIGN.md section 5; shares Model/Ctrl.lean, Drive/Ctrl.lean and harness/ekw/sim_ctrl.py with C01–C04."""
from ekw import ctrl_check

PROPERTY = "C03"
LEVEL_TEXT = ("Lean theorems over the controller x executors system extended by the scheduler's own bookkeeping (Model/Sched.lean: host->component, weights, key "
              "sets of the heuristics' dictionaries, control flow of assign()). ALL for ANY order and batching of events (no FIFO hypothesis is left): the "
              "controller never raises from its bookkeeping (all six raise/KeyError sites of the controller functions and every KeyError site of the assignment "
              "heuristics are unreachable: c03_no_crash, c03_sched_no_crash), shutdown is issued exactly once and last, nothing is computable/ongoing/unfetched "
              "when the loop exits, an ongoing task is really queued or has run; completion of a task is detected exactly when the notices of ALL its outputs "
              "have been processed, no notice is lost or counted twice (c03_done_iff_all_notices, c03_notices_accounted; Tier P over State.published_outputs); "
              "all tasks are completed, ran and were dispatched exactly once when the loop exits (c03_done); an iteration entered with something computable "
              "and nothing ongoing dispatches a task before assign() returns on every feasible cluster (c03_progress); the loop makes at most roundBound(job) "
              "iterations (c03_bounded); whenever the controller blocks in recv_events an event is pending or an executor step is enabled (c03_no_idle_wait, "
              "c03_ongoing_is_live). The former counterexample (last output's notice overtakes an earlier one) is a decided example of Props/C03.lean. The same "
              "clauses are decided per run by the watchdog oracle, under both adversaries (any order and FIFO).")
LEVEL_NOTE = ("modelled, not verified: scheduler/api.py initialize/plan, scheduler/assign.py build_assignment + the pops of _assignment_heuristic, controller/act.py act/flush_queues, controller/notify.py notify/consider_*, impl.run loop skeleton (Model/Ctrl.lean, one Lean function per Python function). Abstracted as an oracle argument validated for admissibility by the model and supplied from what the real run chose: which (idle worker, computable task) pairs the distance/overhead heuristics and host->component migration pick per round, and which `available` host is the transmit source; theorems quantify over all admissible choices. Executors are abstract (Env; SimBridge mirrors it): a dispatched task runs once its inputs are on its host and publishes outputs in index order; transmit/fetch read the source store; purge is immediate. Hypothesis WF: tasks topologically numbered, inputs duplicate-free, >=1 output per task, requested outputs exist, worker ids distinct (the generator guarantees it). The numeric values of the distance/overhead dictionaries (hence WHICH admissible pair a phase of the heuristics picks) are outside the model; their key sets and every KeyError site are inside (Model/Sched.lean). Executor fairness (an enabled executor step is eventually taken) is SimBridge's scheduler: the theorems bound controller iterations and exclude waiting with nothing outstanding, they do not bound wall-clock time. Fixed on the way: completion of a multi-output task was inferred from the notice of its LAST output (fix commit d9c96b4, finding C03-last-output-overtakes now status fixed; its corpus witnesses are regression inputs).")
TECHNIQUE = "Lean 4 inductive system invariants (crash-freedom, shutdown discipline, completion record, liveness bookkeeping, potential function for bounded rounds) over a small-step transition system + differential correspondence with the real controller under adversarial schedules (watchdog oracles for liveness)"
LEAN_PROPS = ["EkwVerif.Props.C03"]
LEAN_DRIVERS = ["Ctrl", "CtrlX"]
RULE = ctrl_check.RULE
ASSUMPTIONS = ctrl_check.ASSUMPTIONS


def correspond(ctx):
    ctrl_check.correspond(ctx, PROPERTY)


def replay(payload):
    return ctrl_check.replay(payload, PROPERTY)
