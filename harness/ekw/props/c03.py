"""C03 — see DESIGN.md section 5; shares Model/Ctrl.lean, Drive/Ctrl.lean and harness/ekw/sim_ctrl.py with C01–C04."""
from ekw import ctrl_check

PROPERTY = "C03"
LEVEL_TEXT = ("Lean theorems over the same transition system as C02: crash-freedom of controller bookkeeping sites proved so far "
              "(no 'double add' in plan); the remaining crash sites, no-idle-wait, progress and the round bound are checked on every run "
              "by the oracle (watchdog on rounds, wait-with-nothing-outstanding detector, exception capture, shutdown count) under both "
              "adversaries (any-order and FIFO event delivery) and are open proof obligations (DESIGN.md). Two known findings are replayed.")
LEVEL_NOTE = ("as C02; liveness is only claimed under FIFO-per-origin delivery on the pinned tree (known finding C03-last-output-overtakes); "
              "executor fairness is an explicit scheduler argument of SimBridge")
TECHNIQUE = "Lean 4 invariant proof over a small-step transition system + differential correspondence with the real controller under adversarial schedules (watchdog oracles for liveness)"
LEAN_PROPS = ["EkwVerif.Props.C03"]
LEAN_DRIVERS = ["Ctrl"]
RULE = ctrl_check.RULE
ASSUMPTIONS = ctrl_check.ASSUMPTIONS


def correspond(ctx):
    ctrl_check.correspond(ctx, PROPERTY)


def replay(payload):
    return ctrl_check.replay(payload, PROPERTY)
