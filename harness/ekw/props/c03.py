"""C03 — see DESIGN.md section 5; shares Model/Ctrl.lean, Drive/Ctrl.lean and harness/ekw/sim_ctrl.py with C01–C04."""
from ekw import ctrl_check

PROPERTY = "C03"
LEVEL_TEXT = ("Lean theorems over the controller x executors system extended by the scheduler's own bookkeeping (Model/Sched.lean) and with commands interpreted with "
              "everything they carry (Cmd.taskSeq carries the publish set; a body publishes only what it names: envRunSpec). ALL for ANY order and batching of "
              "events. TERMINATION IS A THEOREM: a lexicographic measure strictly decreases at every step of the whole system - controller micro-step, assign() "
              "control flow, executor step - from every reachable state (c03_measure_decreases), so there is no infinite execution (c03_no_infinite_execution); in "
              "every reachable state but `finished` a step is enabled, a CONTROLLER step in every phase but `waiting` - in particular inside _assignment_heuristic an "
              "admissible assignment exists (c03_ctrl_step_enabled, c03_deadlock_free); hence the exit of the loop with all tasks completed, all outputs fetched and "
              "shutdown issued once is INEVITABLE on every maximal execution (c03_completes, c03_every_maximal_execution_finishes; no fairness beyond 'an enabled "
              "step is eventually taken'). Every task sequence carries all declared outputs of its task, so every notice the completion rule waits for is really sent "
              "(c03_publish_complete, c03_all_notices_sent). Further: never raises from its bookkeeping (c03_no_crash, c03_sched_no_crash; events name only known "
              "workers/hosts/datasets: c03_events_wellformed; the static tables distance_matrix/value are total on a component by C16: c03_heuristic_tables_total), "
              "at most roundBound(job) loop iterations (c03_bounded, compared with the real iteration count on every run), never waits with nothing outstanding "
              "(c03_no_idle_wait), completion exactly when the notices of ALL outputs were processed (c03_done_iff_all_notices, c03_notices_accounted), progress of "
              "assign() (c03_progress). The same clauses are decided per run by the watchdog oracle under both adversaries. ")
LEVEL_NOTE = ("modelled, not verified: scheduler/api.py initialize/plan, scheduler/assign.py build_assignment + the pops of _assignment_heuristic, controller/act.py act/flush_queues, controller/notify.py notify/consider_*, impl.run loop skeleton (Model/Ctrl.lean, one Lean function per Python function). Abstracted as an oracle argument validated for admissibility by the model and supplied from what the real run chose: which (idle worker, computable task) pairs the distance/overhead heuristics and host->component migration pick per round, and which `available` host is the transmit source; theorems quantify over all admissible choices. Executors are abstract (Env; SimBridge mirrors it): a dispatched task runs once its inputs are on its host and publishes outputs in index order; transmit/fetch read the source store; purge is immediate. Hypothesis WF: tasks topologically numbered, inputs duplicate-free, >=1 output per task, requested outputs exist, worker ids distinct (the generator guarantees it). The numeric values of the distance/overhead dictionaries (hence WHICH admissible pair a phase of the heuristics picks) are outside the model; their key sets and every KeyError site are inside (Model/Sched.lean). Executor fairness (an enabled executor step is eventually taken) is SimBridge's scheduler: the theorems bound controller iterations and exclude waiting with nothing outstanding, they do not bound wall-clock time. Fixed on the way: completion of a multi-output task was inferred from the notice of its LAST output (fix commit d9c96b4, finding C03-last-output-overtakes now status fixed; its corpus witnesses are regression inputs). Since the audit response: termination, deadlock freedom and enabledness inside assign() are theorems (Lemmas/SchedTerm*.lean); Cmd.taskSeq carries the publish set and the environment publishes only what it names (mutant 'publish trimmed in act' now deadlocks SimBridge: failing input); the static preschedule tables are covered by citing C16 (Props/C16 imported); the failure path of the real Bridge (recv_events shuts down and raises, run's finally shuts down again) is outside C03's hypothesis (executors report everything) and is modelled by C05 (Model/Failure.lean recvEvents/shutdownLoop); the real Reporter runs in a third of the cases; Bridge.shutdown's routing is checked on a shell object.")
TECHNIQUE = "Lean 4 inductive system invariants (crash-freedom, shutdown discipline, completion record, liveness bookkeeping, potential function for bounded rounds) over a small-step transition system + differential correspondence with the real controller under adversarial schedules (watchdog oracles for liveness)"
LEAN_PROPS = ["EkwVerif.Props.C03"]
LEAN_DRIVERS = ["Ctrl", "CtrlX"]
RULE = ctrl_check.RULE
ASSUMPTIONS = ctrl_check.ASSUMPTIONS


def correspond(ctx):
    ctrl_check.correspond(ctx, PROPERTY)


def replay(payload):
    return ctrl_check.replay(payload, PROPERTY)
