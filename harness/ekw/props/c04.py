"""C04 — see DESIGN.md section 5; shares Model/Ctrl.lean, Drive/Ctrl.lean and harness/ekw/sim_ctrl.py with C01–C04."""
from ekw import ctrl_check

PROPERTY = "C04"
CLAIMED = False
NOT_CLAIMED_REASON = "model, correspondence and oracle exist (shared with C02/C03); property theorems not yet proved in this round"
LEAN_PROPS = ["EkwVerif.Props.C04"]
LEAN_DRIVERS = ["Ctrl"]
RULE = ctrl_check.RULE
ASSUMPTIONS = ctrl_check.ASSUMPTIONS


def correspond(ctx):
    ctrl_check.correspond(ctx, PROPERTY)


def replay(payload):
    return ctrl_check.replay(payload, PROPERTY)
