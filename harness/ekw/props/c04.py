"""C04 — see DESIGN.md section 5; shares Model/Ctrl.lean, Drive/Ctrl.lean and harness/ekw/sim_ctrl.py with C01–C04."""
from ekw import ctrl_check

PROPERTY = "C04"
LEVEL_TEXT = ("Lean theorems over the same system as C02, for ANY event order and interleaving: a purge is commanded only after every consumer ran, after a requested "
              "value reached the controller, never while a task queued on that host needs it and never while a transfer or fetch commanded from that host is "
              "outstanding; every transmit/fetch names a source that holds the dataset and still holds it when performed; a purged dataset is never needed again; "
              "each output is fetched at most once (all C04 monitors never fire). The transmit source is the scan of build_assignment, not an oracle: whatever host "
              "the scan over ds2host returns - in any order - is believed available AND really holds the dataset, and the scan does find one (c04_scan_source_holds); "
              "a redundant transfer never exists (c04_no_redundant_transmit). 'Unanswered': when a dataset is queued for purging every transfer and fetch of it has "
              "been performed and the answer of its fetch has been DELIVERED; only the bare notice of a performed transfer may still be on its way "
              "(c04_queued_purge_io_done, c04_purge_io_done; the literal reading fails harmlessly: c04_transfer_notice_full_fails, witness replayed on the real code; "
              "interface to C07 stated there). Belief implies truth for every needed dataset (c04_belief_sound_partial / _full_fails: a late transfer notice re- "
              "creates `available` for a purged dataset). Non-atomic bodies: purge only after the notices of ALL outputs of each consumer, never while a consumer is "
              "running (c04_purge_after_last_notice, c04_no_purge_while_running). The real Bridge's routing of transmit/fetch/purge (data server of the source / "
              "executor of the host, target address, fresh index) is checked on a shell object. ")
LEVEL_NOTE = ("modelled, not verified: scheduler/api.py initialize/plan, scheduler/assign.py build_assignment + the pops of _assignment_heuristic, controller/act.py act/flush_queues, controller/notify.py notify/consider_*, impl.run loop skeleton (Model/Ctrl.lean, one Lean function per Python function). Abstracted as an oracle argument validated for admissibility by the model and supplied from what the real run chose: which (idle worker, computable task) pairs the distance/overhead heuristics and host->component migration pick per round, and which `available` host is the transmit source; theorems quantify over all admissible choices. Executors are abstract (Env + the non-atomic layer Model/CtrlN.lean; SimBridge mirrors both): a dispatched task starts once its inputs are in its host's store and publishes its outputs in index order, one step per output, interleaved with everything else; transmit/fetch read the source store; purge is immediate. Hypothesis WF: tasks topologically numbered, inputs duplicate-free, >=1 output per task, requested outputs exist, worker ids distinct (the generator guarantees it). Since the audit response: `outstanding` means 'no copy has been stored at the target yet' (transfer) / 'the payload is not yet on its way' (fetch); the answer of a fetch is shown delivered before the purge, the notice of a performed transfer may still be undelivered (literal reading fails harmlessly, witness corpus/Ctrl_c04_late_transfer_notice.json replayed on every run). Interface to C07: C04 guarantees the source is not purged before a copy is stored at the target; C07 guarantees re-sending until then (c07_retry_until_acked) and that a purge waits for sends in progress (c07_purge_waits). The executor's purge filter and the data server's `invalid` set are C07's (c07_exec_purge_filter).")
TECHNIQUE = "Lean 4 inductive system invariant (data location vs controller belief) over a small-step transition system + step-by-step state correspondence with the real controller (SimBridge with the same monitors written from the property text)"
LEAN_PROPS = ["EkwVerif.Props.C04"]
LEAN_DRIVERS = ["Ctrl"]
RULE = ctrl_check.RULE
ASSUMPTIONS = ctrl_check.ASSUMPTIONS


def correspond(ctx):
    ctrl_check.correspond(ctx, PROPERTY)


def replay(payload):
    return ctrl_check.replay(payload, PROPERTY)
