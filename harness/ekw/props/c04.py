"""C04 — see DESIGN.md section 5; shares Model/Ctrl.lean, Drive/Ctrl.lean and harness/ekw/sim_ctrl.py with C01–C04."""
from ekw import ctrl_check

PROPERTY = "C04"
LEVEL_TEXT = ("Lean theorems over the same system as C02, for ANY event order and interleaving: a purge is commanded only after every consumer ran, after a "
              "requested value reached the controller, never while a task queued on that host needs it and never while a transfer or fetch commanded from "
              "that host is unanswered; every transmit/fetch names a source that holds the dataset and still holds it when performed; a purged dataset "
              "is never needed again; each output is fetched at most once (all nine C04 monitors never fire; InvAll tiers 3/4). Non-atomic task bodies "
              "(Model/CtrlN.lean, every run of which projects onto the base system): a dataset is queued for purging / purged only after the notices of ALL "
              "outputs - in particular of the LAST one - of each consumer were processed, hence never while a consumer is still running "
              "(c04_purge_after_last_notice, c04_no_purge_while_running).")
LEVEL_NOTE = ("modelled, not verified: scheduler/api.py initialize/plan, scheduler/assign.py build_assignment + the pops of _assignment_heuristic, controller/act.py act/flush_queues, controller/notify.py notify/consider_*, impl.run loop skeleton (Model/Ctrl.lean, one Lean function per Python function). Abstracted as an oracle argument validated for admissibility by the model and supplied from what the real run chose: which (idle worker, computable task) pairs the distance/overhead heuristics and host->component migration pick per round, and which `available` host is the transmit source; theorems quantify over all admissible choices. Executors are abstract (Env + the non-atomic layer Model/CtrlN.lean; SimBridge mirrors both): a dispatched task starts once its inputs are in its host's store and publishes its outputs in index order, one step per output, interleaved with everything else; transmit/fetch read the source store; purge is immediate. Hypothesis WF: tasks topologically numbered, inputs duplicate-free, >=1 output per task, requested outputs exist, worker ids distinct (the generator guarantees it).")
TECHNIQUE = "Lean 4 inductive system invariant (data location vs controller belief) over a small-step transition system + step-by-step state correspondence with the real controller (SimBridge with the same monitors written from the property text)"
LEAN_PROPS = ["EkwVerif.Props.C04"]
LEAN_DRIVERS = ["Ctrl"]
RULE = ctrl_check.RULE
ASSUMPTIONS = ctrl_check.ASSUMPTIONS


def correspond(ctx):
    ctrl_check.correspond(ctx, PROPERTY)


def replay(payload):
    return ctrl_check.replay(payload, PROPERTY)
