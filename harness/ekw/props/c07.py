"""C07 — a transfer stores the dataset once, byte-identical, and announces it once.

Tie: two or three real DataServer objects (real __init__, real recv_loop body one iteration at a time, real
Listener / send_data / callback framing), each behind its real Executor front (recv_loop branches for
DatasetPublished / DatasetTransmitFailure / DatasetPurge) and on top of its REAL shm store (cascade.shm.client ->
api.ser/deser -> LocalServer.start dispatch -> Manager -> POSIX segments), commands built by the real
Bridge.transmit / fetch, against Model/Transfer.lean, op by op: stores (bytes re-read from the segments), open
allocations, awaiting sets, acks, invalid, futures with their stage, listener state, socket queues, frames on the
wire, the executor's dataset set and socket, every announcement / failure report / forwarded message.
Oracle: written from the property text only (see `oracle`), fed by what reached the real shm Manager and the fake
sockets, not by the data server's own tables.
"""
import glob
import json

PROPERTY = "C07"
LEVEL_TEXT = ("Lean theorems over Model/Transfer.lean (DataServer.recv_loop / maybe_clean / purge branch / 4 s retry rule; send_payload and "
              "store_payload as separate stages - validate+get | send+close, allocate | write+close | announce callback - each of which an "
              "environment fault (shm under memory pressure, failing close, failing local push, exception escaping into the Future) may hit; "
              "Listener Syn-ack-dedup framing; the shm contract allocate-conflict / get / purge where a purge of an unknown key is NOT an "
              "error; Executor.recv_loop's forwarding of announcements and failures and its purge filter): for every history of transfer, "
              "fetch and purge commands on any number of hosts, every interleaving of main loop, pool-job stages, executor and network, every "
              "pattern of loss, duplication and delay of payload and confirmation frames, every fault: at most one successful store per "
              "(dataset, host) and one copy in the store; stored, sent and fetched bytes and deser_fun equal the source's; at most one "
              "announcement per (dataset, host), none for a redundant transfer, never more than stores, with the exact balance stores = "
              "announcements + failures reported at the announce stage + store jobs between close and callback, and the executor forwards each "
              "announcement to the controller exactly once; once the data server has handled a purge - also when it overtook the payload and "
              "shm never held the dataset - nothing of it is stored, announced, sent or held there again; the shm purge is issued with no "
              "future of that dataset in progress, and EVERY job that was in flight when the message loop reached the purge - any number of "
              "them (a replicated dataset: several sends and stores of it at once), of any dataset, at any stage - has come to its end before "
              "the purge request (c07_purge_waits_every_job, _tick) - this rests on the purge arm's `wait` being the blocking call "
              "wait(all futures, ALL_COMPLETED) WITHOUT timeout: the call's arguments are read from data_server.py by a translator "
              "(Gen/DataServerWait.lean), checked by `decide` (c07_wait_calls_as_modelled), are an explicit hypothesis of "
              "c07_purge_arm_waits_every_job, and cannot be dropped (c07_purge_arm_waits_full_fails: after a wait that timed out the shm purge "
              "is issued with a send job's read buffer open); a due unconfirmed transfer (grace period passed, no ack read, dataset not "
              "purged) is re-submitted by the next iteration IF that iteration has nothing to read (socket and inbox empty: a timer "
              "iteration) - in every reachable state, hence after any number of earlier retries (no retry budget), per index (independent of "
              "other confirmations); for iterations that also read messages this clause is carried by the tie and the oracle only; never a "
              "re-send after its ack or the purge; every DatasetTransmitFailure raised is forwarded to the controller exactly once; with "
              "nothing else on its socket the executor forwards a purge if the dataset is in Executor.datasets (c07_exec_purge_filter) and "
              "drops it if it is not (c07_exec_purge_dropped), and a purge queued right behind the dataset's own announcement is forwarded "
              "(c07_exec_purge_behind_announcement); a payload of a purged dataset handed to the message loop is dropped with no store job "
              "submitted, after any continuation of the history (c07_late_payload_discarded); once the executor has acted on a dataset, it is in Executor.datasets exactly "
              "when its last action was to pass on the announcement. Existence half of 'exactly one copy' as progress theorems from quiescent hosts (_partial): a payload "
              "frame that gets through is stored with the payload's bytes, announced with its index and acked; an overdue transfer completes "
              "in five steps once one copy of payload and ack get through; a forwarded purge is executed by the data server's next iteration "
              "whatever its pool is doing (purge end-to-end, _partial under 'dataset in Executor.datasets', _full_fails: a purge the executor "
              "drops lets a later payload in). The Lean statements are unbounded in history length, hosts, datasets; the tie (an op-by-op "
              "correspondence check that runs the real shm client, server dispatch, Manager and segments) SAMPLES: 2-3 hosts, 1-3 datasets "
              "(10-40 in the many-purges family), histories of 8-60 ops (8-120 thorough) plus drain, up to ~300 ops in the long-loss family.")
LEVEL_NOTE = ("modelled, not verified: data_server.py DataServer (recv_loop, maybe_clean, send_payload, store_payload), comms.py Listener._recv_one/"
              "recv_messages + send_data/callback framing, executor.py Executor.recv_loop (DatasetPublished / DatasetTransmitFailure / DatasetPurge "
              "branches), the allocate/get/purge/close contract of shm/client.py + dataset.Manager (no paging: capacity is never reached in the "
              "model; memory pressure appears as a fault of the allocate / get stage); zmq sockets, the thread pool (a job runs stage by stage, "
              "stages are atomic), the UDP socket to the shm server and the clock are replaced by fakes; pickle is exercised by the real framing but "
              "trusted; commands and purges reach data server / executor exactly once (C06). Carried by the tie and the oracle only, not by a "
              "theorem: the announcement's transmit_idx equals the stored payload's (announcement-wrong), Bridge issues each transmit index once "
              "(transmit-idx-reused). c07_purge_waits has content at the operation level only (the micro step of the purge branch carries the "
              "blocking wait as a guard); c07_failures_forwarded and c07_exec_purge_filter(b) relate independently defined events through the "
              "executor's socket. BOUNDS OF THE TIE: 2-3 hosts; 1-3 datasets, except the many-purges family (10-40 datasets, 9-40 purges at one "
              "host, then late payloads for the datasets purged first: DataServer.invalid must never forget; ~5 of 200 quick cases); 8-60 ops "
              "per history quick (8-120 thorough) + drain, except the long-loss family (25-60 loss rounds of payload or ack on ONE transfer "
              "index, one retry per round, ~100-300 ops; 2 of 200 quick cases): a behaviour that needs more than 40 purges at one host or more "
              "than 60 retries of one index is outside the tie; values are 1-4 bytes except the big-values family (64 KiB-1 MiB, ~3 of 200 "
              "quick cases). The fake `wait` honours `timeout` (a job that has not finished is returned as not_done: jobs take longer than any "
              "timeout) and return_when; the listeners are real Listener objects (__init__ over a fake zmq context/poller); `ignored` "
              "(payload of a purged dataset discarded) and `purgeDropped` are observed at the listeners (payload handed to the loop and no "
              "store job submitted / purge handed to the executor and nothing forwarded) and compared with the model's events; the executor "
              "shells have no workers (a send to a worker socket is reported); 'a fetch delivers to the controller' is observed at a real "
              "Listener standing for the controller's (Bridge.recv_events is C06's)")
TECHNIQUE = ("Lean 4 proof: inductive invariant (13 conjuncts) over all interleavings of micro steps (main loop, pool-job stages with faults, "
             "executor, lossy/duplicating network), refinement of the recv_loop iteration to micro steps, symbolic evaluation for the progress "
             "theorems, index-based induction over the pool's wait for the every-job theorem, translator for the arguments of the two "
             "concurrent.futures.wait calls (side condition by decide) + differential correspondence with real DataServer / Executor shells over the real shm stack + property oracle")
LEAN_PROPS = ["EkwVerif.Props.C07"]
LEAN_DRIVERS = ["C07"]
RULE = ("random histories over 2-3 hosts and 1-3 datasets, commands built by the real Bridge.transmit/fetch: transfer and fetch commands (delivered "
        "at once or delayed and out of order, redundant transfers to a host that already has the dataset), purges at holders, at hosts that "
        "still expect the payload (the race) and at arbitrary hosts, half of them through the executor (forwarded or dropped by its filter), "
        "recv_loop iterations fed with 0-3 frames (taken or duplicated, any order) batched with commands/purges, executor iterations, frame "
        "drops, controller receptions, pool jobs run to their end or stage by stage in any order (70% of the histories), faults at every stage "
        "(35% of the histories: allocate wait/capacity, get wait, writer close refused, announce push raising, send_data raising, reader close "
        "raising after the send), clock advances around the 4 s grace; 45% of the histories open with a directed situation (a later transfer "
        "acked while an earlier payload of the same source was lost; purge overtaking the payload; redundant payload after the purge; a "
        "REPLICATED dataset: 2-3 jobs of one dataset - sends to different targets / the controller, stores of redundant payloads from two "
        "sources, a send next to a store - in flight on one host when its purge is handled, i.e. commands, payload frames and the purge in one "
        "recv_messages batch or one job carried over with its read open, the scheduler oracle deciding which job the pool finishes first); followed "
        "by a loss-free drain. Three directed families at fixed positions of every run: many-purges (case index = 3 mod 40: 10-40 "
        "datasets on host 1, 2-4 EARLY datasets transferred once or twice - own index each - to one target, some stored, announced and "
        "published there first; then 9-40 purges at the target, the early ones among the first, in batches of 1-6 per recv_messages, through "
        "the executor when published, else directly; then the late payloads of the early datasets), long-loss (index = 7 mod 100: one "
        "transfer or fetch whose payload - or whose confirmation, the payload being delivered every time - is lost in 25-60 consecutive "
        "rounds of drop / clock past the grace / timer iteration / send job, a second transfer of the same source confirmed meanwhile), "
        "big-values (index = 11 mod 70: 2 hosts, dataset 0 of 64 KiB, 64 KiB+1, 128 KiB, 256 KiB or 1 MiB, block-numbered contents, 6-10 "
        "ops). non-trivial = history with >=1 transfer and at least one drop, duplicate or purge; distinct by content hash")
ASSUMPTIONS = [
    "zmq sockets/poller, the UDP socket between shm client and shm server, the thread pool and time_ns are replaced by in-process fakes; the "
    "stages of a pool job are atomic (boundaries: allocate granted, writer closed, get granted)",
    "the shm store is the REAL one (client, api codec, LocalServer dispatch, Manager, POSIX segments); no other process uses it: a worker "
    "reading a dataset while the data server purges it (Manager.delayed_purge) and paging are outside the model (C08/C09)",
    "a fault is one-shot and hits one stage of one job; the failure report itself gets through",
    "a `wait` WITH a timeout (none in the source; the check honours one if a change adds it) returns with every job that had not "
    "finished before the call in not_done: pool jobs may take longer than any finite timeout (large datasets, shm under pressure)",
    "a command reaches its source data server exactly once and a purge its executor exactly once (C06); command indices come from the real "
    "Bridge counter (checked by the oracle: transmit-idx-reused)",
    "all initial copies of a dataset carry the same bytes and deser_fun; serialised datasets are non-empty (a zero-length dataset cannot be "
    "published by its producer either: shm allocate(l=0) raises)",
    "md5-truncated shm keys of different datasets do not collide",
]

GRACE_MS = 4000
# witnesses of `_full_fails` theorems: they must be there and must load
REQUIRED_CORPUS = ("C07_dropped_purge_then_stored.json", "C07_timed_wait_purges_early.json")


# ----------------------------------------------------------------------------- translator

def scan_waits(repo):
    """The two `concurrent.futures.wait` calls of DataServer, read from the source: what is waited for, `return_when`
    and `timeout`.  The purge branch is the `isinstance(m, DatasetPurge)` arm of the message loop in `recv_loop`;
    the other call is the one of `maybe_clean`.  Raises when the source no longer has this shape."""
    import ast
    from pathlib import Path
    src = (Path(repo) / "src" / "cascade" / "executor" / "data_server.py").read_text()
    tree = ast.parse(src)
    cls = next(n for n in tree.body if isinstance(n, ast.ClassDef) and n.name == "DataServer")
    fns = {n.name: n for n in cls.body if isinstance(n, ast.FunctionDef)}

    def wait_calls(node):
        return [c for c in ast.walk(node) if isinstance(c, ast.Call) and
                ((isinstance(c.func, ast.Name) and c.func.id == "wait") or (isinstance(c.func, ast.Attribute) and c.func.attr == "wait"))]

    def describe(c):
        kw = {k.arg: k.value for k in c.keywords}
        pos = list(c.args)
        over = pos[0] if pos else kw.get("fs")
        timeout = pos[1] if len(pos) > 1 else kw.get("timeout")
        rw = pos[2] if len(pos) > 2 else kw.get("return_when")
        if timeout is None or (isinstance(timeout, ast.Constant) and timeout.value is None):
            t_ms = None
        elif isinstance(timeout, ast.Constant) and isinstance(timeout.value, (int, float)):
            t_ms = int(timeout.value * 1000)
        else:
            t_ms = -1                      # some expression: a timeout of unknown length
        if rw is None:
            rws = "ALL_COMPLETED"          # the default of concurrent.futures.wait
        else:
            rws = rw.id if isinstance(rw, ast.Name) else rw.attr if isinstance(rw, ast.Attribute) else ast.unparse(rw)
        return {"over": ast.unparse(over) if over is not None else "", "timeout_ms": t_ms, "return_when": rws, "line": c.lineno}

    purge_arm = None
    for n in ast.walk(fns["recv_loop"]):
        if isinstance(n, ast.If) and isinstance(n.test, ast.Call) and getattr(n.test.func, "id", "") == "isinstance" \
                and len(n.test.args) == 2 and getattr(n.test.args[1], "id", "") == "DatasetPurge":
            purge_arm = n
    if purge_arm is None:
        raise ValueError("no `isinstance(m, DatasetPurge)` arm in DataServer.recv_loop")
    body = ast.Module(body=purge_arm.body, type_ignores=[])
    pw = wait_calls(body)
    # the wait must come BEFORE the shm purge of that arm
    purge_line = min((c.lineno for c in ast.walk(body) if isinstance(c, ast.Call) and isinstance(c.func, ast.Attribute)
                      and c.func.attr == "purge"), default=None)
    if purge_line is None:
        raise ValueError("no shm purge call in the purge arm of DataServer.recv_loop")
    pw = [c for c in pw if c.lineno < purge_line]
    cw = wait_calls(fns["maybe_clean"])
    if len(cw) != 1:
        raise ValueError(f"expected one wait() call in DataServer.maybe_clean, found {len(cw)}")
    # no wait at all before the purge = a wait that returns at once
    purge = describe(pw[-1]) if pw else {"over": "", "timeout_ms": 0, "return_when": "NONE", "line": purge_line}
    purge["n_calls"] = len(pw)
    return {"purge": purge, "clean": describe(cw[0])}


def render_gen(t):
    def opt(v):
        return "none" if v is None else "some %d" % max(v, 0)
    p, c = t["purge"], t["clean"]
    return f'''/- GENERATED by harness/ekw/props/c07.py::translate from src/cascade/executor/data_server.py — do not edit.
   How DataServer calls `concurrent.futures.wait`: in the purge arm of `recv_loop` (before the shm purge) and in
   `maybe_clean`. -/
namespace EkwVerif.Gen.DataServerWait

/-- purge arm: the first argument of `wait(...)` as written -/
def purgeWaitOver : String := {json.dumps(p["over"])}
/-- purge arm: `return_when` -/
def purgeWaitReturnWhen : String := {json.dumps(p["return_when"])}
/-- purge arm: `timeout` in ms (`none` = no timeout: the call blocks) -/
def purgeWaitTimeoutMs : Option Nat := {opt(p["timeout_ms"])}
/-- maybe_clean: the first argument of `wait(...)` -/
def cleanWaitOver : String := {json.dumps(c["over"])}
/-- maybe_clean: `return_when` -/
def cleanWaitReturnWhen : String := {json.dumps(c["return_when"])}
/-- maybe_clean: `timeout` in ms -/
def cleanWaitTimeoutMs : Option Nat := {opt(c["timeout_ms"])}

end EkwVerif.Gen.DataServerWait
'''


def translate(ctx):
    from ekw import core
    t = scan_waits(core.REPO)
    text = render_gen(t)
    path = core.LEAN_DIR / "EkwVerif" / "Gen" / "DataServerWait.lean"
    path.parent.mkdir(exist_ok=True)
    if not path.exists() or path.read_text() != text:
        path.write_text(text)
    ctx.extra["data_server_wait_calls"] = t
    for k in ("purge", "clean"):
        ctx.count("table:wait:%s:%s:timeout_ms=%s:over=%s" % (k, t[k]["return_when"], t[k]["timeout_ms"], t[k]["over"]))


# ----------------------------------------------------------------------------- generator

def _frames_to(w, h):
    a = w.aname(h)
    return [i for i, f in enumerate(w.net) if f[0] == a]


def _mk_inputs(rng, w, h, msgs, maxframes=3, all_frames=False):
    """Sequential frame picks (indices are relative to the net after the previous picks)."""
    pos = _frames_to(w, h)
    if all_frames:
        chosen = [(p, False) for p in pos]
    else:
        k = min(len(pos), rng.randint(0, maxframes)) if pos else 0
        chosen = []
        avail = list(pos)
        for _ in range(k):
            if not avail:
                break
            p = rng.choice(avail)
            dup = rng.random() < 0.22
            chosen.append((p, dup))
            if not dup:
                avail.remove(p)
    cur = list(range(len(w.net)))
    items = []
    for p, dup in chosen:
        i = cur.index(p)
        if not dup:
            cur.pop(i)
        items.append({"k": "frame", "i": i, "dup": dup})
    # interleave messages keeping the relative order of the frame picks
    for m in msgs:
        items.insert(rng.randint(0, len(items)) if not all_frames else len(items), m)
    return items


def _sched(rng):
    return [rng.randint(0, 3) for _ in range(rng.randint(0, 3))]


def _fault_for(rng, job):
    """a fault that fits the stage the job is at: (fault, how)"""
    if job.name == "store_payload":
        if job.stage == 0:
            return "fail", rng.choice(["wait", "wait", "capacity exceeded"])
        return "fail", "wait"
    if job.stage == 0:
        return "fail", "wait"
    return rng.choice(["fail", "closeExc", "closeExc"]), "wait"


def _open_replicated(rng, w, case, nds, emit, holders, cmd, frame_of):
    """A REPLICATED dataset: two or three jobs of ONE dataset are in flight on one host at the moment its purge is
    handled - sends to different targets (transfer / fetch), stores of redundant payloads from different sources,
    or a send next to a store.  `maybe_clean` at the head of every iteration brings the futures down to fewer
    than `cap` = 2, so the jobs must have been submitted by the SAME iteration that reads the purge (commands,
    payload frames and the purge in one `recv_messages` batch), or one is carried over from an earlier iteration
    (possibly stopped after its shm get: an open read) and the others come with the purge.  Which job the pool
    finishes first is the scheduler oracle `sched`: every other one is the late one."""
    variants = []
    for d in range(nds):
        hs = holders(d)
        if hs:
            variants.append(("sends", d, hs))
        if len(hs) >= 2 and len(hs) < len(w.hosts):
            variants.append(("stores", d, hs))
        if len(hs) >= 2:
            variants.append(("send+store", d, hs))
    if not variants:
        return
    kind, d, hs = rng.choice(variants)
    sched = [rng.randint(0, 3) for _ in range(rng.randint(0, 4))]
    purge = {"k": "purge", "ds": d}

    def run_all(h):
        while w.pools[h].jobs:
            emit({"op": "job", "h": h, "c": 0})

    def frame_inputs(idxs, dup_p=0.0):
        """inputs feeding the payload frames of the transfers `idxs` (sequential indices into the net)"""
        cur = list(range(len(w.net)))
        items = []
        for ix in idxs:
            p = frame_of(ix)
            if p is None or p not in cur:
                continue
            dup = rng.random() < dup_p
            i = cur.index(p)
            if not dup:
                cur.pop(i)
            items.append({"k": "frame", "i": i, "dup": dup})
        return items

    if kind == "sends":
        src = rng.choice(hs)
        tg = [h for h in w.hosts if h != src] + [0]
        rng.shuffle(tg)
        tg = tg[:rng.randint(2, min(3, len(tg)))]
        cs = [cmd(d, src, t) for t in tg]
        if rng.random() < 0.5:
            # everything in one batch: the commands, then the purge
            emit({"op": "tick", "h": src, "inputs": cs + [purge], "sched": sched})
        else:
            # the first send is already in flight (maybe stopped with its read open) when the others and the purge come
            emit({"op": "tick", "h": src, "inputs": [cs[0]], "sched": []})
            if rng.random() < 0.6:
                emit({"op": "jobstep", "h": src, "c": 0, "fault": "none"})
            emit({"op": "tick", "h": src, "inputs": cs[1:] + [purge], "sched": sched})
        host = src
    elif kind == "stores":
        tgt = rng.choice([h for h in w.hosts if h not in hs])
        srcs = rng.sample(hs, 2)
        cs = [cmd(d, s, tgt) for s in srcs]
        for s, c in zip(srcs, cs):
            emit({"op": "tick", "h": s, "inputs": [c], "sched": []})
            run_all(s)
        fr = frame_inputs([c["idx"] for c in cs], dup_p=0.15)
        if rng.random() < 0.5 or len(fr) < 2:
            emit({"op": "tick", "h": tgt, "inputs": fr + [purge], "sched": sched})
        else:
            emit({"op": "tick", "h": tgt, "inputs": fr[:1], "sched": []})
            if rng.random() < 0.6:
                emit({"op": "jobstep", "h": tgt, "c": 0, "fault": "none"})
            emit({"op": "tick", "h": tgt, "inputs": frame_inputs([cs[1]["idx"]]) + [purge], "sched": sched})
        host = tgt
    else:
        # a redundant payload for a holder that is itself sending the dataset on
        h, s2 = rng.sample(hs, 2)
        c0 = cmd(d, s2, h)
        emit({"op": "tick", "h": s2, "inputs": [c0], "sched": []})
        run_all(s2)
        c1 = cmd(d, h, rng.choice([t for t in w.hosts if t != h] + [0]))
        fr = frame_inputs([c0["idx"]])
        ins = fr + [c1] if rng.random() < 0.5 else [c1] + fr
        emit({"op": "tick", "h": h, "inputs": ins + [purge], "sched": sched})
        host = h
    # what the late job does once the pool gets to it
    run_all(host)
    case.setdefault("opening", "replicated-purge:" + kind)


BIG_SIZES = (65536, 65537, 131072, 262144, 1048576)


def _big_value(rng, size):
    """`size` bytes that differ from block to block (a copy that loses, repeats or reorders a block is seen)"""
    seed = rng.randrange(256)
    blk = bytes((seed + 7 * i) % 256 for i in range(251))
    out = bytearray()
    k = 0
    while len(out) < size:
        out += bytes([k % 256]) + blk
        k += 1
    return bytes(out[:size]).hex()


def _open_many_purges(rng, w, case, nds, emit, holders, cmd, frame_of):
    """MANY datasets (10-40) and purges of many of them at one host, then LATE payloads for the ones purged FIRST:
    `DataServer.invalid` must remember every purge, however many followed ('once purged ... nothing of it is stored
    there again' has no horizon).  Some of the early datasets were stored, announced and published at the target
    before (purge through the executor), the others are overtaken by the purge (direct purge); the late payload is
    a redundant transfer (own index: the listener's Syn de-duplication does not catch it)."""
    src = 1
    tgt = rng.choice([h for h in w.hosts if h != src])
    early = rng.sample(range(nds), rng.randint(2, 4))
    cs = []
    stored_first = {}
    for d in early:
        c = [cmd(d, src, tgt)]
        if rng.random() < 0.6:
            c.append(cmd(d, src, tgt))                 # redundant transfer of the same dataset, own index
        if len(c) == 2 and rng.random() < 0.6:
            stored_first[d] = c[0]["idx"]
        cs += c
    rng.shuffle(cs)
    while cs:
        k = rng.randint(1, 3)
        emit({"op": "tick", "h": src, "inputs": cs[:k], "sched": _sched(rng)})
        cs = cs[k:]
        while w.pools[src].jobs:
            emit({"op": "job", "h": src, "c": 0})
    for d, ix in stored_first.items():
        i = frame_of(ix)
        if i is None:
            continue
        emit({"op": "tick", "h": tgt, "inputs": [{"k": "frame", "i": i, "dup": False}], "sched": []})
        while w.pools[tgt].jobs:
            emit({"op": "job", "h": tgt, "c": 0})
        emit({"op": "etick", "h": tgt, "purges": []})
    others = [d for d in range(nds) if d not in early]
    rng.shuffle(others)
    others = others[:rng.randint(min(len(others), 9), len(others))]
    order = list(early)
    rng.shuffle(order)
    k = rng.randint(0, min(2, len(others)))
    order = others[:k] + order + others[k:]         # the early ones are among the first purges
    while order:
        k = rng.randint(1, 6)
        batch, order = order[:k], order[k:]
        via_exec = [d for d in batch if w.dsid(d) in w.exe[tgt].datasets and rng.random() < 0.8]
        direct = [d for d in batch if d not in via_exec]
        if via_exec:
            emit({"op": "etick", "h": tgt, "purges": via_exec})
        emit({"op": "tick", "h": tgt, "inputs": [{"k": "purge", "ds": d} for d in direct], "sched": _sched(rng)})
        if rng.random() < 0.2:
            emit({"op": "adv", "d": rng.choice([300, 2500, 4001])})
    # the late payloads of the early datasets
    a = w.aname(tgt)
    while True:
        pos = [i for i, f in enumerate(w.net) if f[0] == a and len(f[1]) == 3 and w.frame_json(f)["p"]["ds"] in early]
        if not pos:
            break
        emit({"op": "tick", "h": tgt, "inputs": [{"k": "frame", "i": rng.choice(pos), "dup": False}], "sched": _sched(rng)})
        if rng.random() < 0.7:
            while w.pools[tgt].jobs:
                emit({"op": "job", "h": tgt, "c": 0})
    case["opening"] = "many-purges-then-late-payloads"


def _open_long_loss(rng, w, case, nds, emit, holders, cmd, frame_of):
    """25-60 LOSS ROUNDS on ONE transfer index: the payload (or, second variant, its confirmation) is lost again and
    again; every round the source must re-send once the grace period has passed - 'retried until confirmed' has no
    retry budget.  A second transfer of the same source is confirmed meanwhile (per-index independence)."""
    hs0 = holders(0)
    if not hs0:
        return
    src = rng.choice(hs0)
    others = [h for h in w.hosts if h != src]
    variant = "payload" if rng.random() < 0.65 else "ack"
    tgt = rng.choice(others + [0]) if variant == "payload" else rng.choice(others)
    c0 = cmd(0, src, tgt)
    ins = [c0]
    c1 = None
    if rng.random() < 0.5:
        c1 = cmd(0, src, rng.choice(others + [0]))
        ins.insert(rng.randint(0, 1), c1)
    emit({"op": "tick", "h": src, "inputs": ins, "sched": _sched(rng)})
    while w.pools[src].jobs:
        emit({"op": "job", "h": src, "c": 0})
    rounds = rng.randint(25, 60) if variant == "payload" else rng.randint(25, 40)
    for r in range(rounds):
        i = frame_of(c0["idx"])
        if i is not None:
            if variant == "payload" or tgt == 0:
                emit({"op": "drop", "i": i})
            else:
                emit({"op": "tick", "h": tgt, "inputs": [{"k": "frame", "i": i, "dup": False}], "sched": []})
                while w.pools[tgt].jobs:
                    emit({"op": "job", "h": tgt, "c": 0})
                acks = [j for j, fr in enumerate(w.net) if fr[0] == w.aname(src) and len(fr[1]) == 1
                        and w.frame_json(fr)["m"].get("idx") == c0["idx"]]
                for j in reversed(acks):
                    emit({"op": "drop", "i": j})
        if c1 is not None and r == 2:
            # the other transfer gets through and is confirmed
            i = frame_of(c1["idx"])
            if i is not None:
                if c1["target"] == 0:
                    emit({"op": "ctrl", "i": i, "dup": False})
                else:
                    emit({"op": "tick", "h": c1["target"], "inputs": [{"k": "frame", "i": i, "dup": False}], "sched": []})
                    while w.pools[c1["target"]].jobs:
                        emit({"op": "job", "h": c1["target"], "c": 0})
                acks = [j for j, fr in enumerate(w.net) if fr[0] == w.aname(src) and len(fr[1]) == 1
                        and w.frame_json(fr)["m"].get("idx") == c1["idx"]]
                if acks:
                    emit({"op": "tick", "h": src, "inputs": [{"k": "frame", "i": acks[0], "dup": False}], "sched": []})
        emit({"op": "adv", "d": rng.choice([4001, 4001, 4500, 6000, 9000])})
        emit({"op": "tick", "h": src, "inputs": [], "sched": _sched(rng)})
        while w.pools[src].jobs:
            emit({"op": "job", "h": src, "c": 0})
    case["opening"] = "long-loss:%s" % variant
    case["loss_rounds"] = rounds


FAMILIES = {"many-purges": _open_many_purges, "long-loss": _open_long_loss}


def gen_case(rng, nops, with_run=False, family=None):
    from ekw.sim_c07 import World
    n = 2 if family == "big-values" else rng.randint(2, 3)
    nds = rng.randint(10, 40) if family == "many-purges" else rng.randint(1, 2) if family == "big-values" else rng.randint(1, 3)
    stores = []
    for d in range(nds):
        if family == "big-values" and d == 0:
            val = _big_value(rng, rng.choice(BIG_SIZES[:4]) if rng.random() < 0.85 else BIG_SIZES[4])
        else:
            val = bytes([rng.randrange(256) for _ in range(rng.randint(1, 4))]).hex()
        if family == "many-purges":
            hs = [1] if rng.random() < 0.8 else [1, rng.randint(2, n)]
        else:
            hs = rng.sample(range(1, n + 1), 1 if rng.random() < 0.75 else 2)
        for h in sorted(hs):
            stores.append([h, d, val, "df%d" % d])
    case = {"n": n, "stores": stores, "ops": []}
    if family:
        case["family"] = family
    w = World(n, stores)
    outs = []
    try:
        _gen_ops(rng, nops, w, case, nds, outs, family)
        if not with_run:
            return case
        # the generating run IS the real run of the case: go on with the drain on the same world
        ops = list(case["ops"])

        def emit(op):
            ops.append(op)
            outs.append(w.apply(op))
        w.drain_from = w.opno + 1
        drain(w, emit)
        w.final_store = {h: w.shm_view_fresh(h) for h in w.hosts}
    finally:
        w.close()
    return case, ops, outs, w


def _gen_ops(rng, nops, w, case, nds, outs, family=None):
    ops = case["ops"]
    undelivered = []
    faulty = rng.random() < 0.35          # histories with shm / socket faults
    staged = rng.random() < 0.7           # histories in which pool jobs are stopped between their stages

    def emit(op):
        ops.append(op)
        outs.append(w.apply(op))

    def holders(d):
        return [h for h in w.hosts if not w.crashed[h] and any(e[0] == d for e in w.shm_view(h)[0])]

    def expecting(d):
        """hosts that do not hold d but have a payload of d on the wire, in their socket or in a job"""
        out = []
        for h in w.hosts:
            if w.crashed[h] or h in holders(d):
                continue
            a = w.aname(h)
            wire = any(f[0] == a and len(f[1]) == 3 and w.frame_json(f)["p"]["ds"] == d for f in w.net)
            sock = any(len(p) == 3 for p in w.srv[h].dlistener.socket.queue)
            job = any(j.name == "store_payload" and w.job_ds(j) == d for j in w.pools[h].jobs)
            if wire or sock or job:
                out.append(h)
        return out

    def frame_of(idx):
        for i, fr in enumerate(w.net):
            if len(fr[1]) == 3 and w.frame_json(fr)["si"] == idx:
                return i
        return None

    def cmd(d, src, tgt):
        c = w.bridge_cmd(d, src, tgt)
        via = c.pop("via")
        c["k"] = "cmd"
        if via != src:
            c["misrouted"] = via
        return c

    def feed_frame(h, i):
        emit({"op": "tick", "h": h, "inputs": [{"k": "frame", "i": i, "dup": False}], "sched": _sched(rng)})

    # ---- directed openings (structured, all inputs valid): the situations the property text names
    x = rng.random()
    hs0 = holders(0)
    if family in FAMILIES:
        FAMILIES[family](rng, w, case, nds, emit, holders, cmd, frame_of)
        nops = len(ops) + rng.randint(0, 12)
    elif x < 0.10 and hs0:
        # a LATER transfer of the same source is confirmed while the payload of an EARLIER one was lost
        src = rng.choice(hs0)
        others = [h for h in w.hosts if h != src]
        t0 = rng.choice(others)
        t1 = rng.choice(others + [0])
        c0, c1 = cmd(0, src, t0), cmd(0, src, t1)
        emit({"op": "tick", "h": src, "inputs": [c0, c1], "sched": _sched(rng)})
        while w.pools[src].jobs:
            emit({"op": "job", "h": src, "c": 0})
        i = frame_of(c0["idx"])
        if i is not None:
            emit({"op": "drop", "i": i})
        i = frame_of(c1["idx"])
        if i is not None:
            if t1 == 0:
                emit({"op": "ctrl", "i": i, "dup": False})
            else:
                feed_frame(t1, i)
                while w.pools[t1].jobs:
                    emit({"op": "job", "h": t1, "c": 0})
        acks = [j for j, fr in enumerate(w.net) if fr[0] == w.aname(src) and len(fr[1]) == 1]
        if acks:
            feed_frame(src, acks[0])
        emit({"op": "adv", "d": rng.choice([4001, 5000, 9000])})
        case.setdefault("opening", "ack-overtakes-lost-payload")
    elif x < 0.20 and hs0:
        # the purge reaches the target before the payload was stored; the payload comes late
        src = rng.choice(hs0)
        tgt = rng.choice([h for h in w.hosts if h != src])
        c0 = cmd(0, src, tgt)
        emit({"op": "tick", "h": src, "inputs": [c0], "sched": _sched(rng)})
        while w.pools[src].jobs:
            emit({"op": "job", "h": src, "c": 0})
        if rng.random() < 0.5:
            emit({"op": "tick", "h": tgt, "inputs": [{"k": "purge", "ds": 0}], "sched": _sched(rng)})
        else:
            w_pub = w.dsid(0) in w.exe[tgt].datasets
            emit({"op": "etick", "h": tgt, "purges": [0]})
            emit({"op": "tick", "h": tgt, "inputs": [] if w_pub else [{"k": "purge", "ds": 0}], "sched": _sched(rng)})
        i = frame_of(c0["idx"])
        if i is not None and rng.random() < 0.8:
            feed_frame(tgt, i)
        case.setdefault("opening", "purge-overtakes-payload")
    elif x < 0.34:
        # redundant transfers of one dataset to one target, the purge between the two payloads
        cand = [(d, holders(d)) for d in range(nds)]
        cand = [(d, hs) for d, hs in cand if len(hs) >= 2 and len(hs) < len(w.hosts)]
        if cand:
            d, hsd = rng.choice(cand)
            s1, s2 = rng.sample(hsd, 2)
            tgt = rng.choice([h for h in w.hosts if h not in hsd])
            c0, c1 = cmd(d, s1, tgt), cmd(d, s2, tgt)
            for sx, cx in ((s1, c0), (s2, c1)):
                emit({"op": "tick", "h": sx, "inputs": [cx], "sched": _sched(rng)})
                while w.pools[sx].jobs:
                    emit({"op": "job", "h": sx, "c": 0})
            i = frame_of(c0["idx"])
            if i is not None:
                feed_frame(tgt, i)
                while w.pools[tgt].jobs:
                    emit({"op": "job", "h": tgt, "c": 0})
                emit({"op": "etick", "h": tgt, "purges": []})
                emit({"op": "etick", "h": tgt, "purges": [d]})
                emit({"op": "tick", "h": tgt, "inputs": [], "sched": _sched(rng)})
            i = frame_of(c1["idx"])
            if i is not None:
                feed_frame(tgt, i)
            case.setdefault("opening", "redundant-payload-after-purge")
    elif x < 0.48:
        _open_replicated(rng, w, case, nds, emit, holders, cmd, frame_of)

    attempts = 0
    while len(ops) < nops and attempts < 4 * nops:
        attempts += 1
        r = rng.random()
        alive = [h for h in w.hosts if not w.crashed[h]]
        if not alive:
            break
        part = [(h, i) for h in alive for i, j in enumerate(w.pools[h].jobs) if j.stage > 0]
        if part and rng.random() < 0.45:
            # a job that was stopped between two stages: mostly go on with it (the interesting interleavings
            # are the few ops that happen while it sits there)
            h, c = rng.choice(part)
            job = w.pools[h].jobs[c]
            if faulty and rng.random() < 0.3:
                f, how = _fault_for(rng, job)
                emit({"op": "jobstep", "h": h, "c": c, "fault": f, "how": how})
            else:
                emit({"op": "jobstep", "h": h, "c": c, "fault": "none"})
            continue
        if r < 0.14:
            d = rng.randrange(nds)
            hs = holders(d)
            x = rng.random()
            if x < 0.03:
                src = rng.choice(alive)            # maybe a non-holder: send fails, reported, retried
            elif hs:
                src = rng.choice(hs)
            else:
                continue
            if rng.random() < 0.3:
                tgt = 0
            else:
                tgt = rng.choice([h for h in w.hosts if h != src])
            c = w.bridge_cmd(d, src, tgt)          # the real Bridge.transmit / Bridge.fetch builds the command
            via = c.pop("via")
            c["k"] = "cmd"
            if via != src:
                c["misrouted"] = via
            if rng.random() < 0.7:
                emit({"op": "tick", "h": src, "inputs": _mk_inputs(rng, w, src, [c], 2), "sched": _sched(rng)})
            else:
                undelivered.append(c)
        elif r < 0.17:
            if not undelivered:
                continue
            c = undelivered.pop(rng.randrange(len(undelivered)))
            emit({"op": "tick", "h": c["source"], "inputs": _mk_inputs(rng, w, c["source"], [c], 2), "sched": _sched(rng)})
        elif r < 0.25:
            d = rng.randrange(nds)
            hs = holders(d)
            ex = expecting(d)
            x = rng.random()
            if ex and x < 0.45:
                h = rng.choice(ex)                 # the race: the purge overtakes the payload
            elif x < 0.52:
                h = rng.choice(alive)              # any host, holder or not
            elif hs and (len(hs) > 1 or x < 0.7):
                h = rng.choice(hs)
            else:
                continue
            if any(c["source"] == h and c["ds"] == d for c in undelivered) and rng.random() < 0.9:
                continue
            if rng.random() < 0.5:
                # the way of the real system: controller -> executor -> (filter) -> data server
                emit({"op": "etick", "h": h, "purges": [d] if rng.random() < 0.85 else [d, rng.randrange(nds)]})
                if rng.random() < 0.6:
                    emit({"op": "tick", "h": h, "inputs": _mk_inputs(rng, w, h, [], 2), "sched": _sched(rng)})
            else:
                emit({"op": "tick", "h": h, "inputs": _mk_inputs(rng, w, h, [{"k": "purge", "ds": d}], 2), "sched": _sched(rng)})
        elif r < 0.52:
            cands = [h for h in alive if _frames_to(w, h)]
            if not cands:
                continue
            h = rng.choice(cands)
            emit({"op": "tick", "h": h, "inputs": _mk_inputs(rng, w, h, [], 3) or _mk_inputs(rng, w, h, [], 3), "sched": _sched(rng)})
        elif r < 0.56:
            if w.net:
                emit({"op": "drop", "i": rng.randrange(len(w.net))})
        elif r < 0.61:
            pos = [i for i, f in enumerate(w.net) if f[0] == "ctrl"]
            if pos:
                emit({"op": "ctrl", "i": rng.choice(pos), "dup": rng.random() < 0.25})
        elif r < 0.85:
            hs = [h for h in alive if w.pools[h].jobs]
            if not hs:
                continue
            st = [h for h in hs if any(j.name == "store_payload" for j in w.pools[h].jobs)]
            h = rng.choice(st) if st and rng.random() < 0.6 else rng.choice(hs)
            c = rng.randint(0, 3)
            job = w.pools[h].jobs[c % len(w.pools[h].jobs)]
            x = rng.random()
            if faulty and x < 0.22:
                f, how = _fault_for(rng, job)
                emit({"op": "jobstep", "h": h, "c": c, "fault": f, "how": how})
            elif staged and x < 0.6:
                emit({"op": "jobstep", "h": h, "c": c, "fault": "none"})
            else:
                emit({"op": "job", "h": h, "c": c})
        elif r < 0.90:
            hs = [h for h in w.hosts if w.exe[h].mlistener.socket.queue]
            emit({"op": "etick", "h": rng.choice(hs) if hs else rng.choice(w.hosts), "purges": []})
        elif r < 0.97:
            emit({"op": "adv", "d": rng.choice([300, 1000, 2500, 3999, 4000, 4001, 5000, 9000])})
        else:
            emit({"op": "tick", "h": rng.choice(alive), "inputs": [], "sched": _sched(rng)})


def drain(w, emit, rounds=8):
    """Loss-free completion phase, deterministic: deliver everything, run every job, let time pass."""
    for _ in range(rounds):
        busy = False
        for h in w.hosts:
            if w.crashed[h]:
                continue
            inputs = _mk_inputs(None, w, h, [], all_frames=True)
            if inputs or w.srv[h].dlistener.socket.queue:
                busy = True
            emit({"op": "tick", "h": h, "inputs": inputs, "sched": []})
        while True:
            pos = [i for i, f in enumerate(w.net) if f[0] == "ctrl"]
            if not pos:
                break
            busy = True
            emit({"op": "ctrl", "i": pos[0], "dup": False})
        for h in w.hosts:
            while not w.crashed[h] and w.pools[h].jobs:
                busy = True
                emit({"op": "job", "h": h, "c": 0})
        for h in w.hosts:
            if w.exe[h].mlistener.socket.queue:
                busy = True
                emit({"op": "etick", "h": h, "purges": []})
        waiting = any(w.srv[h].awaiting_confirmation or w.srv[h].futs_in_progress for h in w.hosts if not w.crashed[h])
        if not busy and not waiting and not any(f[0] == "ctrl" or not w.crashed[w.aid(f[0])] for f in w.net):
            break
        emit({"op": "adv", "d": 5000})


def run_case(case, with_drain=True):
    """Run on the real code. Returns (all ops incl. drain, outputs, world)."""
    from ekw.sim_c07 import World
    w = World(case["n"], case["stores"], case.get("published"), force_wait_timeout=case.get("force_wait_timeout"))
    ops, outs = [], []

    def emit(op):
        ops.append(op)
        outs.append(w.apply(op))
    for op in case["ops"]:
        emit(op)
    w.drain_from = w.opno + 1
    try:
        if with_drain:
            drain(w, emit)
        w.final_store = {h: w.shm_view_fresh(h) for h in w.hosts}
    finally:
        w.close()
    return ops, outs, w


# ----------------------------------------------------------------------------- oracle

def oracle(case, w):
    """Reference from the property text only; reads the raw observations of the real run (what reached the
    real shm Manager, what was pushed to which socket) and the real segments at the end.
    Returns a list of (kind, what)."""
    truth = {}
    has = set()
    for h, d, v, f in case["stores"]:
        truth[d] = (v, f)
        has.add((h, d))
    fails = []
    purged = set()
    acked = set()
    pending_ann = {}          # (h, ds) -> (idx, op) : copy written and closed, announcement not yet seen
    ann_fwd = {}              # (h, ds, idx) -> [announced, forwarded to the controller]
    n_fail_pushed = {h: 0 for h in w.hosts}
    n_fail_ctrl = {h: 0 for h in w.hosts}
    faults = []               # (op, h, what)
    failed_store = set()      # (h, ds): a store of ds on h ran into a reported failure
    failed_idx = set()        # transfer indices with a reported failure
    got = {}
    cmds = []
    seen_idx = {}
    last_done = {}            # (h, idx) -> (time the last send job of the transfer returned, raised?, ds)
    due = None                # (op, h, {idx}) expectations of the current tick
    submitted_in_op = set()
    retries_in_op = []
    sock_before = []
    late = {}                 # (h, idx) -> (ds, op): payload of a dataset purged on h handed to the message loop

    def close_due():
        nonlocal due
        if due is not None:
            op, h, idxs, crashed = due
            miss = sorted(i for i in idxs if (h, i) not in submitted_in_op)
            if miss and not crashed[0]:
                fails.append(("no-retry", f"op {op}: host {h} did not re-send unconfirmed transfer(s) {miss} although the grace period had passed"))
        due = None

    for o in w.observations:
        k = o["kind"]
        h = o.get("h")
        if o["op"] == 0:
            continue          # initial contents written by the harness
        if due is not None and o["op"] != due[0]:
            close_due()
        if k == "stored":
            d = w.key2ds.get(o["key"], -1)
            if (h, d) in purged:
                fails.append(("resurrection", f"op {o['op']}: dataset {d} stored on host {h} after it was purged there"))
            elif (h, d) in has:
                fails.append(("double-store", f"op {o['op']}: dataset {d} stored a second time on host {h}"))
            has.add((h, d))
            if (o["value"].hex(), o["deser"]) != truth.get(d):
                what = "deser_fun" if o["value"].hex() == truth.get(d, ("",))[0] else "bytes"
                fails.append(("bytes-differ", f"op {o['op']}: {what} of dataset {d} stored on host {h} = {(o['value'].hex(), o['deser'])}, source has {truth.get(d)}"))
            if (h, d) in pending_ann:
                fails.append(("arrival-not-announced", f"dataset {d} arrived on host {h} (op {pending_ann[(h, d)][1]}) without DatasetPublished"))
            pending_ann[(h, d)] = (o.get("idx"), o["op"])
        elif k == "announced":
            exp = pending_ann.pop((h, o["ds"]), None)
            if exp is None:
                fails.append(("spurious-announcement", f"op {o['op']}: host {h} announced dataset {o['ds']} (transmit_idx {o['idx']}) without a new arrival"))
            elif exp[0] != o["idx"] or o["origin"] != w.hname(h):
                fails.append(("announcement-wrong", f"op {o['op']}: announcement {o} does not match the stored payload idx {exp[0]}"))
            ann_fwd.setdefault((h, o["ds"], o["idx"]), [0, 0])[0] += 1
        elif k == "ctrl-published":
            e = ann_fwd.setdefault((h, o["ds"], o["idx"]), [0, 0])
            e[1] += 1
            if e[1] > e[0]:
                fails.append(("announcement-forwarded-twice", f"op {o['op']}: the executor of host {h} told the controller about dataset {o['ds']} (transmit_idx {o['idx']}) {e[1]} times, the data server announced it {e[0]} times"))
        elif k == "sent":
            if (o["value"].hex(), o["deser"]) != truth.get(o["ds"]):
                what = "deser_fun" if o["value"].hex() == truth.get(o["ds"], ("",))[0] else "bytes"
                fails.append(("sent-differs", f"op {o['op']}: host {h} sent {what} {(o['value'].hex(), o['deser'])} for dataset {o['ds']}, its store has {truth.get(o['ds'])}"))
        elif k == "ctrl-got":
            if (o["value"].hex(), o["deser"]) != truth.get(o["ds"]):
                fails.append(("fetch-differs", f"op {o['op']}: controller received {(o['value'].hex(), o['deser'])} for dataset {o['ds']}, source has {truth.get(o['ds'])}"))
            got[o["idx"]] = got.get(o["idx"], 0) + 1
            if got[o["idx"]] > 1:
                fails.append(("fetch-twice", f"op {o['op']}: fetch {o['idx']} delivered to the controller twice"))
        elif k == "shm-purge":
            d = w.key2ds.get(o["key"], -1)
            if any(x == d for x in o["pool_pending"]):
                fails.append(("purge-no-wait", f"op {o['op']}: host {h} purged dataset {d} from shm while a send/store job of it was still in progress"))
            elif o["pre"]["readers"] > 0:
                fails.append(("purge-no-wait", f"op {o['op']}: host {h} asked shm to purge dataset {d} while {o['pre']['readers']} read(s) of it were open"))
            if o["answer"] != "ok":
                fails.append(("purge-error", f"op {o['op']}: shm purge of dataset {d} on host {h} answered {o['answer']}"))
            has.discard((h, d))
            purged.add((h, d))
        elif k == "purge-to-executor":
            if o["known"]:
                fwd = [x for x in w.observations if x["kind"] == "purge-forwarded" and x["op"] == o["op"] and x["h"] == h and x["ds"] == o["ds"]]
                if not fwd:
                    fails.append(("purge-not-forwarded", f"op {o['op']}: the executor of host {h} did not hand the purge of dataset {o['ds']} (which it had seen published) to its data server"))
        elif k == "payload-read":
            if (h, o["ds"]) in purged:
                late[(h, o["idx"])] = (o["ds"], o["op"])
        elif k == "payload-ignored":
            late.pop((h, o["idx"]), None)
        elif k == "fault":
            faults.append((o["op"], h, o["what"], o.get("ds"), o.get("job")))
        elif k == "failure":
            n_fail_pushed[h] += 1
            # a failure report is excused by a fault injected into THAT job (same op, host, dataset, kind of job), or -
            # reported by maybe_clean - by an earlier close-reader fault of a send of that dataset on that host
            jname = {"send": "send_payload", "store": "store_payload"}.get(o.get("src"))
            fault_here = any(fo == o["op"] and fh == h and fds == o.get("ds") and fj == jname for fo, fh, _, fds, fj in faults) or \
                (o.get("src") == "future" and any(fh == h and fw == "close-reader" and fo <= o["op"] and fds == o.get("ds")
                                                  for fo, fh, fw, fds, fj in faults))
            c = next((c for hh, c in cmds if hh == h and c["idx"] == o.get("idx")), None) if o.get("src") == "send" else None
            legit = o.get("src") == "send" and c is not None and \
                (c["source"] != h or c["target"] == h or (h, c["ds"]) not in has)
            if not fault_here and not legit:
                fails.append(("spurious-failure", f"op {o['op']}: data server of host {h} reported DatasetTransmitFailure ({o.get('src')} of transfer {o.get('idx')}, dataset {o.get('ds')}: {o['detail'][-80:]}) although nothing had gone wrong"))
            if o.get("src") == "store":
                failed_store.add((h, o["ds"]))
                if o.get("stage") == 2:
                    pending_ann.pop((h, o["ds"]), None)      # reported instead of announced
            failed_idx.add(o.get("idx"))
        elif k == "ctrl-failure":
            n_fail_ctrl[h] += 1
        elif k == "tick-end":
            # the socket is FIFO: what the listener read in this iteration is the head of the queue
            read = sock_before[:len(sock_before) - o["sock_left"]]
            for fr in read:
                if fr["t"] == "plain" and fr["m"]["k"] == "ack":
                    acked.add((h, fr["m"]["idx"]))
            # retries happen after the messages of the iteration have been handled
            for s_ in retries_in_op:
                if (h, s_["idx"]) in acked:
                    fails.append(("retry-after-ack", f"op {s_['op']}: host {h} re-sent transfer {s_['idx']} although its confirmation had been received"))
            retries_in_op = []
            # 'payloads arriving after a purge are discarded': the loop took no action on them (no store job)
            for (hh, ix), (d_, op_) in sorted(late.items()):
                if hh == h and not w.crashed[h]:
                    fails.append(("late-payload-not-discarded", f"op {op_}: host {h} had purged dataset {d_}; the payload of transfer {ix} arriving afterwards was not discarded (a store job was submitted)"))
            late = {kk: v for kk, v in late.items() if kk[0] != h}
        elif k == "cmd":
            cmds.append((h, o["c"]))
            i = o["c"]["idx"]
            if i in seen_idx and seen_idx[i] != (o["c"]["source"], o["c"]["target"], o["c"]["ds"]):
                fails.append(("transmit-idx-reused", f"op {o['op']}: the controller's Bridge issued transmit index {i} for two different commands: {seen_idx[i]} and {(o['c']['source'], o['c']['target'], o['c']['ds'])}"))
            seen_idx.setdefault(i, (o["c"]["source"], o["c"]["target"], o["c"]["ds"]))
            if o["c"].get("misrouted") is not None:
                fails.append(("command-misrouted", f"op {o['op']}: the Bridge addressed transfer {i} (source {o['c']['source']}) to the data server of host {o['c']['misrouted']}"))
        elif k == "job-done":
            if o["job"] == "send_payload":
                last_done[(h, o["idx"])] = (o["now"], o["exc"], o["ds"])
        elif k == "submit-send":
            last_done.pop((h, o["idx"]), None)
            submitted_in_op.add((h, o["idx"]))
            if o["retry"]:
                retries_in_op.append(o)
            if (h, o["ds"]) in purged:
                fails.append(("send-after-purge", f"op {o['op']}: host {h} submitted a send of dataset {o['ds']} after its purge"))
        elif k == "tick-begin":
            submitted_in_op = set()
            retries_in_op = []
            sock_before = o["sock"]
            blocked_idx = {f["m"]["idx"] for f in o["sock"] if f["t"] == "plain" and f["m"]["k"] == "ack"}
            blocked_ds = {f["m"]["ds"] for f in o["sock"] if f["t"] == "plain" and f["m"]["k"] == "purge"}
            # what is due is derived from what was OBSERVED (when the last send job of a transfer returned, which
            # confirmations this host has read, which datasets it has purged), not from the server's own tables
            idxs = {i for (hh, i), (t_done, exc, d) in last_done.items()
                    if hh == h and not exc and t_done + GRACE_MS < o["now"] and (h, i) not in acked and i not in blocked_idx
                    and (h, d) not in purged and d not in blocked_ds}
            due = (o["op"], h, idxs, [False])
        elif k == "crashed":
            if due is not None:
                due[3][0] = True
            # the two deliberate refusals of the loop are the controller's fault and outside the property ONLY when their
            # condition really holds on what was observed: a command for a dataset this host has purged (2), an index
            # this host was handed twice (1); anything else that ends the loop is a violation
            excused = (o["why"] == 2 and any(hh == h and (h, c["ds"]) in purged for hh, c in cmds)) or \
                      (o["why"] == 1 and any(sum(1 for hh, c in cmds if hh == h and c["idx"] == c0["idx"]) > 1 for h0, c0 in cmds if h0 == h))
            if not excused:
                fails.append(("data-server-died", f"op {o['op']}: recv_loop of host {h} raised {o['what']}"))
    close_due()
    drained = getattr(w, "drained", True)
    for (h, d), (i, op) in pending_ann.items():
        if w.crashed[h] or (not drained and any(j.name == "store_payload" for j in w.pools[h].jobs)):
            continue
        fails.append(("arrival-not-announced", f"dataset {d} arrived on host {h} (op {op}) without DatasetPublished"))
    # every injected fault is reported: by the job it hit (same op) or, when the exception escaped into the
    # Future, by the next maybe_clean of that data server
    fobs = [[o["op"], o["h"], o.get("src"), False] for o in w.observations if o["kind"] == "failure"]
    for op, h, what, _ds, _job in faults:
        if what == "close-reader":
            m = next((x for x in fobs if x[1] == h and not x[3] and x[2] == "future" and x[0] >= op), None)
        else:
            m = next((x for x in fobs if x[1] == h and not x[3] and x[2] != "future" and x[0] == op), None)
        if m is not None:
            m[3] = True
        elif what != "close-reader" or (drained and not w.crashed[h]):
            fails.append(("failure-not-reported", f"op {op}: a {what} fault hit a job of host {h} and no DatasetTransmitFailure was raised"))
    if drained:
        for h in w.hosts:
            if n_fail_ctrl[h] != n_fail_pushed[h]:
                fails.append(("failure-not-reported", f"data server of host {h} raised {n_fail_pushed[h]} DatasetTransmitFailure, its executor passed {n_fail_ctrl[h]} to the controller"))
        for (h, d, i), (a, f) in ann_fwd.items():
            if f < a:
                fails.append(("announcement-not-forwarded", f"host {h} announced dataset {d} (transmit_idx {i}) and its executor never told the controller"))
    # end state: what is REALLY in the stores (segments re-read)
    final = getattr(w, "final_store", None) or {h: w.shm_view_fresh(h) for h in w.hosts}
    for h in w.hosts:
        if final[h]["other"]:
            fails.append(("shm-state", f"host {h}: datasets in an unexpected shm state {final[h]['other']}"))
        for d in truth:
            present = d in final[h]["store"]
            if (h, d) in purged and present:
                fails.append(("resurrection", f"dataset {d} is on host {h} at the end although it was purged there"))
            if present and final[h]["store"][d] != truth[d]:
                fails.append(("bytes-differ", f"host {h} holds {final[h]['store'][d]} for dataset {d}, source had {truth[d]}"))
    if drained:
        for h, c in cmds:
            s, t, d = c["source"], c["target"], c["ds"]
            if s != h or w.crashed[s] or (s, d) in purged or d not in final[s]["store"] or c["idx"] in failed_idx:
                continue
            if t == 0:
                if got.get(c["idx"], 0) != 1:
                    fails.append(("fetch-not-delivered", f"fetch {c['idx']} of dataset {d} from host {s}: controller received it {got.get(c['idx'], 0)} times after a loss-free drain"))
            elif t in w.hosts and c["daddr"] == t:
                if w.crashed[t] or (t, d) in purged or (t, d) in failed_store:
                    continue
                if d not in final[t]["store"]:
                    fails.append(("transfer-not-completed", f"transfer {c['idx']} of dataset {d} {s}->{t}: target does not hold it after a loss-free drain"))
    return fails


# ----------------------------------------------------------------------------- compare

def model_outs(cases_ops):
    from ekw.core import lean_drive
    from ekw.sim_c07 import canon_model
    lines = []
    for case, ops in cases_ops:
        lines.append(json.dumps({"op": "init", "n": case["n"], "stores": case["stores"],
                                 "published": case.get("published", [[e[0], e[1]] for e in case["stores"]])}))
        lines += [json.dumps(o) for o in ops]
    res = lean_drive("C07", lines)
    outs = []
    k = 0
    for case, ops in cases_ops:
        k += 1
        outs.append([canon_model(json.loads(x)) for x in res[k:k + len(ops)]])
        k += len(ops)
    return outs


def first_diff(a, b):
    if a == b:
        return None
    for key in ("events", "net", "now", "ctrlAcked"):
        if a.get(key) != b.get(key):
            return key
    for i, (x, y) in enumerate(zip(a["hosts"], b["hosts"])):
        for key in x:
            if x.get(key) != y.get(key):
                return f"host{i + 1}.{key}"
    return "shape"


def shrink(case, kind):
    cur = dict(case)
    ops = list(case["ops"])

    def bad(o):
        c = dict(cur)
        c["ops"] = o
        try:
            _, _, w = run_case(c)
            return any(f[0] == kind for f in oracle(c, w))
        except Exception:
            return False
    changed = True
    budget = 400
    while changed and budget > 0:
        changed = False
        for i in range(len(ops) - 1, -1, -1):
            budget -= 1
            if budget <= 0:
                break
            cand = ops[:i] + ops[i + 1:]
            if bad(cand):
                ops = cand
                changed = True
    cur["ops"] = ops
    return cur


def _stats(ctx, case, ops, w):
    nhist = len(case["ops"])
    ctx.count("histories")
    ctx.count("ops", nhist)
    ctx.count("drain_ops", len(ops) - nhist)
    ctx.count("hosts:%d" % case["n"])
    ctx.count("opening:" + case.get("opening", "random"))
    kinds = {}
    for o in w.observations:
        if o["op"] >= w.drain_from:
            break
        if o["op"] == 0:
            continue
        kinds[o["kind"]] = kinds.get(o["kind"], 0) + 1
        if o["kind"] == "fed":
            if o["dup"]:
                ctx.count("frames_duplicated")
            ctx.count("frames_fed")
        elif o["kind"] == "cmd":
            c = o["c"]
            ctx.count("fetch_commands" if c["target"] == 0 else "transfer_commands")
        elif o["kind"] == "submit-send" and o["retry"]:
            ctx.count("retries")
        elif o["kind"] == "crashed":
            ctx.count("server_crash_why_%d" % o["why"])
        elif o["kind"] == "shm-purge":
            ctx.count("shm_purge:" + ("of-" + o["pre"]["status"] if o["pre"]["present"] else "of-unknown-key"))
        elif o["kind"] == "fault":
            ctx.count("fault:" + o["what"])
        elif o["kind"] == "jobstep":
            ctx.count("jobstep:%s@%d%s" % (o["job"], o["stage"], "" if o["fault"] == "none" else "+" + o["fault"]))
        elif o["kind"] == "failure":
            ctx.count("failure_from:" + str(o.get("src")))
        elif o["kind"] == "purge-to-executor":
            ctx.count("executor_purge:" + ("forwarded" if o["known"] else "dropped"))
    # the race of the property text: a purge handled while a payload of that dataset was still to come, then ignored
    pp = [(o["h"], w.key2ds.get(o["key"], -1), o["op"]) for o in w.observations if o["kind"] == "shm-purge" and not o["pre"]["present"]]
    if pp:
        ctx.count("histories_with_purge_before_payload_stored")
    for k, key in (("dropped", "frames_dropped"), ("purge-cmd", "purge_commands"), ("shm-purge", "purges_done"), ("stored", "stores"),
                   ("conflict", "redundant_transfers"), ("announced", "announcements"), ("ctrl-got", "fetch_deliveries"),
                   ("failure", "transmit_failures"), ("ctrl-published", "announcements_forwarded"), ("ctrl-failure", "failures_forwarded")):
        if kinds.get(k):
            ctx.count(key, kinds[k])
    nds = len({e[1] for e in case["stores"]})
    ctx.count("datasets:%s" % (nds if nds <= 3 else "10-19" if nds < 20 else "20-29" if nds < 30 else "30-40"))
    big = max(len(e[2]) // 2 for e in case["stores"])
    if big >= 65536:
        ctx.count("value_bytes:%s" % ("64KiB-256KiB" if big <= 262144 else "1MiB"))
    if case.get("loss_rounds"):
        ctx.count("loss_rounds:%s" % ("25-39" if case["loss_rounds"] < 40 else "40-60"))
    npur = {}
    for o in w.observations:
        if o["kind"] == "shm-purge" and o["op"] < w.drain_from:
            npur[o["h"]] = npur.get(o["h"], 0) + 1
        elif o["kind"] == "payload-ignored":
            ctx.count("payloads_ignored_after_purge")
            if npur.get(o["h"], 0) > 8:
                ctx.count("payloads_ignored_after_more_than_8_purges")
        elif o["kind"] == "purge-dropped" and o["op"] < w.drain_from:
            pass
    if npur:
        m = max(npur.values())
        ctx.count("purges_at_one_host:%s" % (m if m <= 3 else "4-8" if m <= 8 else "9-19" if m < 20 else "20-40"))
    rmax = {}
    for o in w.observations:
        if o["kind"] == "submit-send" and o["retry"]:
            rmax[(o["h"], o["idx"])] = rmax.get((o["h"], o["idx"]), 0) + 1
    if rmax:
        m = max(rmax.values())
        ctx.count("retries_of_one_index:%s" % (m if m <= 3 else "4-19" if m < 20 else "20-24" if m < 25 else "25-60"))
    for wt in w.waits:
        if wt["op"] < w.drain_from:
            ctx.count("wait:%s:timeout=%s:%s" % (wt["return_when"], wt["timeout"], "all-futures" if wt["all"] else "some-futures"))
    for o in case["ops"]:
        ctx.count("op:" + o["op"])
        if o["op"] == "tick" and len(o["inputs"]) > 1:
            ctx.count("ticks_with_batch")
    return kinds


def _compare(ctx, runs):
    mouts = model_outs([(c, o) for c, o, _ in runs])
    for (case, ops, outs), mo in zip(runs, mouts):
        ctx.traces += 1
        if len(mo) != len(outs):
            ctx.disagree("data-server-op:driver-output", {"n": case["n"], "stores": case["stores"], "ops": ops}, len(mo), len(outs))
            continue
        for i, (a, b) in enumerate(zip(outs, mo)):
            if a != b:
                where = first_diff(a, b)
                key = where.split(".")[-1]
                pick = (lambda x: x.get(key)) if "." not in where else (lambda x: x["hosts"][int(where[4]) - 1].get(key))
                ctx.disagree("data-server-op:" + where, {"n": case["n"], "stores": case["stores"], "ops": ops[:i + 1]},
                             pick(b), pick(a))
                break


def oracle_only(ctx):
    """The model does not build (e.g. the table read from the source refutes a side condition proved by `decide`): the
    real side and the property oracle still run on the same inputs, so that a failing input is named."""
    correspond(ctx, compare=False)


def correspond(ctx, compare=True):
    from ekw.core import CORPUS_DIR
    n = ctx.budget(200, 2500)
    maxops = ctx.budget(60, 120)
    cases = []
    expects = {}
    found = set()
    for f in sorted(glob.glob(str(CORPUS_DIR / "C07_*.json"))):
        try:
            j = json.load(open(f))
            if j.get("expect"):
                expects[len(cases)] = (j.get("witness_of"), j["expect"])
            cases.append(j["case"])
            found.add(f.rsplit("/", 1)[-1])
        except Exception as e:
            # a corpus file that does not load is a failure of the harness, not something to skip: the witness of a
            # `_full_fails` theorem would silently stop being replayed
            ctx.disagree("harness:corpus", {"file": f}, "corpus file loads", f"{type(e).__name__}: {e}"[:300])
    for need in REQUIRED_CORPUS:
        if need not in found:
            ctx.disagree("harness:corpus", {"file": need}, "the witness file is present and loads", "missing")
    ncorpus = len(cases)
    runs = []
    reported = set()
    for k in range(ncorpus + n):
        case = None
        try:
            if k < ncorpus:
                case = cases[k]
                ops, outs, w = run_case(case)
            else:
                i = k - ncorpus
                family = ("many-purges" if i % 40 == 3 else "long-loss" if i % 100 == 7 else
                          "big-values" if i % 70 == 11 else None)
                nops = ctx.rng.randint(6, 10) if family == "big-values" else ctx.rng.randint(8, maxops)
                case, ops, outs, w = gen_case(ctx.rng, nops, with_run=True, family=family)
            w.drained = True
        except Exception as e:
            ctx.disagree("harness", {"case": case}, "real side runs", f"{type(e).__name__}: {e}")
            continue
        if k in expects:
            # the witness of a `_full_fails` theorem, replayed on the real code
            name, exp = expects[k]
            ofails = oracle(case, w) if "purge_no_wait" in exp else []
            got_ = {"purge_dropped": any(o["kind"] == "purge-to-executor" and not o["known"] and [o["h"], o["ds"]] == exp.get("purge_dropped")
                                         and not any(x["kind"] == "purge-forwarded" and x["op"] == o["op"] for x in w.observations)
                                         for o in w.observations),
                    "stored": any(o["kind"] == "stored" and o["op"] > 0 and [o["h"], w.key2ds.get(o["key"])] == exp.get("stored")
                                  for o in w.observations),
                    "purge_no_wait": any(f[0] == "purge-no-wait" for f in ofails) and
                                     any(o["kind"] == "shm-purge" and [o["h"], w.key2ds.get(o["key"])] == exp.get("purge_no_wait")
                                         and any(x == w.key2ds.get(o["key"]) for x in o["pool_pending"]) for o in w.observations)}
            ok = all(got_[key] for key in exp)
            ctx.count("witness:%s:%s" % (name, "reproduced" if ok else "NOT-reproduced"))
            if not ok:
                ctx.disagree("witness:" + str(name), {"case": case}, exp, {key: got_[key] for key in exp})
            if case.get("force_wait_timeout") is not None:
                # a counterfactual (the wait of the purge arm given a timeout from outside): what the oracle says about
                # it is the expectation above, and the model (which has the source's call) is not compared
                ctx.case({"n": case["n"], "stores": case["stores"], "ops": case["ops"][:10], "n_ops": len(case["ops"]),
                          "force_wait_timeout": case["force_wait_timeout"]}, nontrivial=True)
                continue
        kinds = _stats(ctx, case, ops, w)
        nontrivial = bool(kinds.get("cmd")) and bool(kinds.get("dropped") or kinds.get("shm-purge") or any(
            o["kind"] == "fed" and o["dup"] for o in w.observations))
        ctx.case({"n": case["n"], "stores": [[e[0], e[1], e[2] if len(e[2]) <= 16 else e[2][:16] + "...(%d bytes)" % (len(e[2]) // 2), e[3]]
                                             for e in case["stores"][:12]],
                  "n_datasets": len({e[1] for e in case["stores"]}),
                  "ops": case["ops"][:10], "n_ops": len(case["ops"])}, nontrivial=nontrivial)
        fails = oracle(case, w)
        seen = set()
        for kind, what in fails:
            if kind in seen:
                continue
            seen.add(kind)
            if kind in reported:      # shrink each kind of failure once per run
                ctx.violation({"kind": kind}, case, what)
                continue
            reported.add(kind)
            small = shrink(case, kind)
            _, _, w2 = run_case(small)
            f2 = [f for f in oracle(small, w2) if f[0] == kind]
            ctx.violation({"kind": kind}, small, f2[0][1] if f2 else what)
        if compare:
            runs.append((case, ops, outs))
        if len(runs) >= 250:
            _compare(ctx, runs)
            runs = []
    if runs:
        _compare(ctx, runs)


def replay(payload):
    case = payload["case"]
    ops, outs, w = run_case(case)
    w.drained = True
    for o, out in zip(ops, outs):
        print(json.dumps(o), "->", json.dumps(out["events"]))
    fails = oracle(case, w)
    print("oracle:", fails)
    return 1 if fails else 0
