"""C07 — a transfer stores the dataset once, byte-identical, and announces it once.

Tie: two or three real DataServer shells (real recv_loop body one iteration at a time, real
Listener / send_data / callback framing) against Model/Transfer.lean, op by op: stores, awaiting
sets, acks, invalid, futures, listener state, socket queues, frames on the wire, announcements.
Oracle: written from the property text only (see `oracle`).
"""
import glob
import json

PROPERTY = "C07"
LEVEL_TEXT = ("Lean theorems over Model/Transfer.lean (DataServer.recv_loop / maybe_clean / send_payload / store_payload / purge branch / 4 s "
              "retry rule, Listener Syn-ack-dedup framing, shm allocate-conflict/get/purge): for every history of transfer, fetch and purge "
              "commands on any number of hosts, every interleaving of main loop, pool jobs and network, and every pattern of loss, duplication "
              "and delay of payload and confirmation frames: at most one successful store per (dataset, host) and one copy in the store, stored "
              "and fetched bytes and deser_fun equal the source's, exactly one announcement per arrival and none for a redundant transfer, a "
              "due unconfirmed transfer is re-submitted by the next loop iteration and never after its ack or after the purge, nothing is stored "
              "or sent for a dataset after its purge, the shm purge happens with no future of that dataset in progress. Unbounded in history "
              "length, hosts, datasets; tied to the real DataServer by an op-by-op correspondence check.")
LEVEL_NOTE = ("modelled, not verified: data_server.py DataServer (recv_loop, maybe_clean, send_payload, store_payload), comms.py Listener._recv_one/"
              "recv_messages + send_data/callback framing, the allocate/get/purge contract of shm/client.py; zmq sockets, the thread pool (jobs are "
              "atomic, run in any order), the shm server and the clock are replaced by fakes; pickle is exercised by the real framing but trusted; "
              "Executor.recv_loop's filter that drops a purge for a dataset it has not seen published is outside the model (DESIGN section 7)")
TECHNIQUE = ("Lean 4 proof: inductive invariant over all interleavings of micro steps (main loop, pool threads, lossy/duplicating network), "
             "refinement of the recv_loop iteration to micro steps + differential correspondence with real DataServer shells + property oracle")
LEAN_PROPS = ["EkwVerif.Props.C07"]
LEAN_DRIVERS = ["C07"]
RULE = ("random histories over 2-3 hosts and 1-3 datasets: transfer and fetch commands (unique idx, delivered at once or delayed and out of order, "
        "redundant transfers to a host that already has the dataset), purges (mostly at holders, rarely at a non-holder), recv_loop iterations "
        "fed with 0-3 frames (taken or duplicated, any order) batched with commands/purges, frame drops, controller receptions, pool jobs run "
        "in any order, clock advances around the 4 s grace; followed by a loss-free drain. non-trivial = history with >=1 transfer and at "
        "least one drop, duplicate or purge; distinct by content hash")
ASSUMPTIONS = [
    "zmq sockets/poller, the thread pool, the shm client module and time_ns are replaced by in-process fakes; pool jobs are atomic",
    "the fake shm client mirrors the real client: allocate of an existing key raises ConflictError, purge/get of an unknown key raise ValueError",
    "command indices are unique (Bridge.transmit_idx_counter) and a command reaches its source exactly once (C06)",
    "all initial copies of a dataset carry the same bytes and deser_fun",
    "md5-truncated shm keys of different datasets do not collide",
]

GRACE_MS = 4000


# ----------------------------------------------------------------------------- generator

def _frames_to(w, h):
    a = w.aname(h)
    return [i for i, f in enumerate(w.net) if f[0] == a]


def _mk_inputs(rng, w, h, msgs, maxframes=3, all_frames=False):
    """Sequential frame picks (indices are relative to the net after the previous picks)."""
    pos = _frames_to(w, h)
    if all_frames:
        chosen = [(p, False) for p in pos]
    else:
        k = min(len(pos), rng.randint(0, maxframes)) if pos else 0
        chosen = []
        avail = list(pos)
        for _ in range(k):
            if not avail:
                break
            p = rng.choice(avail)
            dup = rng.random() < 0.22
            chosen.append((p, dup))
            if not dup:
                avail.remove(p)
    cur = list(range(len(w.net)))
    items = []
    for p, dup in chosen:
        i = cur.index(p)
        if not dup:
            cur.pop(i)
        items.append({"k": "frame", "i": i, "dup": dup})
    # interleave messages keeping the relative order of the frame picks
    for m in msgs:
        items.insert(rng.randint(0, len(items)) if not all_frames else len(items), m)
    return items


def _sched(rng):
    return [rng.randint(0, 3) for _ in range(rng.randint(0, 3))]


def gen_case(rng, nops):
    from ekw.sim_c07 import World
    n = rng.randint(2, 3)
    nds = rng.randint(1, 3)
    stores = []
    for d in range(nds):
        val = bytes([rng.randrange(256) for _ in range(rng.randint(1, 4))]).hex()
        hs = rng.sample(range(1, n + 1), 1 if rng.random() < 0.75 else 2)
        for h in sorted(hs):
            stores.append([h, d, val, "df%d" % d])
    case = {"n": n, "stores": stores, "ops": []}
    w = World(n, stores)
    ops = case["ops"]
    idx = 0
    undelivered = []

    def emit(op):
        ops.append(op)
        w.apply(op)

    def holders(d):
        return [h for h in w.hosts if not w.crashed[h] and w.key(d) in w.stores[h]]

    for _ in range(nops):
        r = rng.random()
        alive = [h for h in w.hosts if not w.crashed[h]]
        if not alive:
            break
        if r < 0.18:
            d = rng.randrange(nds)
            hs = holders(d)
            x = rng.random()
            if x < 0.03:
                src = rng.choice(alive)            # maybe a non-holder: send fails, reported, retried
            elif hs:
                src = rng.choice(hs)
            else:
                continue
            if rng.random() < 0.3:
                tgt, daddr = 0, 0
            else:
                others = [h for h in w.hosts if h != src]
                tgt = rng.choice(others)
                daddr = tgt
            c = {"k": "cmd", "source": src, "target": tgt, "daddr": daddr, "ds": d, "idx": idx}
            idx += 1
            if rng.random() < 0.7:
                emit({"op": "tick", "h": src, "inputs": _mk_inputs(rng, w, src, [c], 2), "sched": _sched(rng)})
            else:
                undelivered.append(c)
        elif r < 0.22:
            if not undelivered:
                continue
            c = undelivered.pop(rng.randrange(len(undelivered)))
            emit({"op": "tick", "h": c["source"], "inputs": _mk_inputs(rng, w, c["source"], [c], 2), "sched": _sched(rng)})
        elif r < 0.30:
            d = rng.randrange(nds)
            hs = holders(d)
            x = rng.random()
            if x < 0.04:
                h = rng.choice(alive)              # maybe a non-holder: shm purge error kills the server
            elif hs and (len(hs) > 1 or x < 0.2):
                h = rng.choice(hs)
            else:
                continue
            if any(c["source"] == h and c["ds"] == d for c in undelivered) and rng.random() < 0.9:
                continue
            emit({"op": "tick", "h": h, "inputs": _mk_inputs(rng, w, h, [{"k": "purge", "ds": d}], 2), "sched": _sched(rng)})
        elif r < 0.58:
            cands = [h for h in alive if _frames_to(w, h)]
            if not cands:
                continue
            h = rng.choice(cands)
            emit({"op": "tick", "h": h, "inputs": _mk_inputs(rng, w, h, [], 3) or _mk_inputs(rng, w, h, [], 3), "sched": _sched(rng)})
        elif r < 0.64:
            if w.net:
                emit({"op": "drop", "i": rng.randrange(len(w.net))})
        elif r < 0.70:
            pos = [i for i, f in enumerate(w.net) if f[0] == "ctrl"]
            if pos:
                emit({"op": "ctrl", "i": rng.choice(pos), "dup": rng.random() < 0.25})
        elif r < 0.88:
            hs = [h for h in alive if w.pools[h].jobs]
            if hs:
                emit({"op": "job", "h": rng.choice(hs), "c": rng.randint(0, 3)})
        elif r < 0.96:
            emit({"op": "adv", "d": rng.choice([300, 1000, 2500, 3999, 4000, 4001, 5000, 9000])})
        else:
            emit({"op": "tick", "h": rng.choice(alive), "inputs": [], "sched": _sched(rng)})
    return case


def drain(w, emit, rounds=8):
    """Loss-free completion phase, deterministic: deliver everything, run every job, let time pass."""
    for _ in range(rounds):
        busy = False
        for h in w.hosts:
            if w.crashed[h]:
                continue
            inputs = _mk_inputs(None, w, h, [], all_frames=True)
            if inputs or w.srv[h].dlistener.socket.queue:
                busy = True
            emit({"op": "tick", "h": h, "inputs": inputs, "sched": []})
        while True:
            pos = [i for i, f in enumerate(w.net) if f[0] == "ctrl"]
            if not pos:
                break
            busy = True
            emit({"op": "ctrl", "i": pos[0], "dup": False})
        for h in w.hosts:
            while not w.crashed[h] and w.pools[h].jobs:
                busy = True
                emit({"op": "job", "h": h, "c": 0})
        waiting = any(w.srv[h].awaiting_confirmation or w.srv[h].futs_in_progress for h in w.hosts if not w.crashed[h])
        if not busy and not waiting and not any(f[0] == "ctrl" or not w.crashed[w.aid(f[0])] for f in w.net):
            break
        emit({"op": "adv", "d": 5000})


def run_case(case, with_drain=True):
    """Run on the real code. Returns (all ops incl. drain, outputs, world)."""
    from ekw.sim_c07 import World
    w = World(case["n"], case["stores"])
    ops, outs = [], []

    def emit(op):
        ops.append(op)
        outs.append(w.apply(op))
    for op in case["ops"]:
        emit(op)
    w.drain_from = w.opno + 1
    if with_drain:
        drain(w, emit)
    return ops, outs, w


# ----------------------------------------------------------------------------- oracle

def oracle(case, w):
    """Reference from the property text only; reads the raw observations of the real run.
    Returns a list of (kind, what)."""
    truth = {}
    has = set()
    for h, d, v, f in case["stores"]:
        truth[d] = (v, f)
        has.add((h, d))
    fails = []
    purged = set()
    acked = set()
    pending_ann = {}          # h -> (ds, idx, op) : stored, announcement not yet seen
    got = {}
    cmds = []
    due = None                # (op, h, {idx}) expectations of the current tick
    submitted_in_op = set()
    retries_in_op = []
    sock_before = []

    def close_due():
        nonlocal due
        if due is not None:
            op, h, idxs, crashed = due
            miss = sorted(i for i in idxs if (h, i) not in submitted_in_op)
            if miss and not crashed[0]:
                fails.append(("no-retry", f"op {op}: host {h} did not re-send unconfirmed transfer(s) {miss} although the grace period had passed"))
        due = None

    for o in w.observations:
        k = o["kind"]
        h = o.get("h")
        if due is not None and o["op"] != due[0]:
            close_due()
        if k == "stored":
            d = w.key2ds.get(o["key"], -1)
            if (h, d) in purged:
                fails.append(("resurrection", f"op {o['op']}: dataset {d} stored on host {h} after it was purged there"))
            elif (h, d) in has:
                fails.append(("double-store", f"op {o['op']}: dataset {d} stored a second time on host {h}"))
            has.add((h, d))
            if (o["value"].hex(), o["deser"]) != truth.get(d):
                what = "deser_fun" if o["value"].hex() == truth.get(d, ("",))[0] else "bytes"
                fails.append(("bytes-differ", f"op {o['op']}: {what} of dataset {d} stored on host {h} = {(o['value'].hex(), o['deser'])}, source has {truth.get(d)}"))
            if h in pending_ann:
                fails.append(("arrival-not-announced", f"dataset {pending_ann[h][0]} arrived on host {h} (op {pending_ann[h][2]}) without DatasetPublished"))
            pending_ann[h] = (d, o.get("idx"), o["op"])
        elif k == "announced":
            exp = pending_ann.pop(h, None)
            if exp is None or exp[0] != o["ds"]:
                fails.append(("spurious-announcement", f"op {o['op']}: host {h} announced dataset {o['ds']} (transmit_idx {o['idx']}) without a new arrival"))
                if exp is not None:
                    pending_ann[h] = exp
            elif exp[1] != o["idx"] or o["origin"] != w.hname(h):
                fails.append(("announcement-wrong", f"op {o['op']}: announcement {o} does not match the stored payload idx {exp[1]}"))
        elif k == "sent":
            if (o["value"].hex(), o["deser"]) != truth.get(o["ds"]):
                what = "deser_fun" if o["value"].hex() == truth.get(o["ds"], ("",))[0] else "bytes"
                fails.append(("sent-differs", f"op {o['op']}: host {h} sent {what} {(o['value'].hex(), o['deser'])} for dataset {o['ds']}, its store has {truth.get(o['ds'])}"))
        elif k == "ctrl-got":
            if (o["value"].hex(), o["deser"]) != truth.get(o["ds"]):
                fails.append(("fetch-differs", f"op {o['op']}: controller received {(o['value'].hex(), o['deser'])} for dataset {o['ds']}, source has {truth.get(o['ds'])}"))
            got[o["idx"]] = got.get(o["idx"], 0) + 1
            if got[o["idx"]] > 1:
                fails.append(("fetch-twice", f"op {o['op']}: fetch {o['idx']} delivered to the controller twice"))
        elif k == "shm-purge":
            d = w.key2ds.get(o["key"], -1)
            if any(x == d for x in o["pool_pending"]):
                fails.append(("purge-no-wait", f"op {o['op']}: host {h} purged dataset {d} from shm while a send/store job of it was still in progress"))
            has.discard((h, d))
            purged.add((h, d))
        elif k == "tick-end":
            # the socket is FIFO: what the listener read in this iteration is the head of the queue
            read = sock_before[:len(sock_before) - o["sock_left"]]
            for fr in read:
                if fr["t"] == "plain" and fr["m"]["k"] == "ack":
                    acked.add((h, fr["m"]["idx"]))
            # retries happen after the messages of the iteration have been handled
            for s_ in retries_in_op:
                if (h, s_["idx"]) in acked:
                    fails.append(("retry-after-ack", f"op {s_['op']}: host {h} re-sent transfer {s_['idx']} although its confirmation had been received"))
            retries_in_op = []
        elif k == "cmd":
            cmds.append((h, o["c"]))
        elif k == "submit-send":
            submitted_in_op.add((h, o["idx"]))
            if o["retry"]:
                retries_in_op.append(o)
            if (h, o["ds"]) in purged:
                fails.append(("send-after-purge", f"op {o['op']}: host {h} submitted a send of dataset {o['ds']} after its purge"))
        elif k == "tick-begin":
            submitted_in_op = set()
            retries_in_op = []
            sock_before = o["sock"]
            blocked_idx = {f["m"]["idx"] for f in o["sock"] if f["t"] == "plain" and f["m"]["k"] == "ack"}
            blocked_ds = {f["m"]["ds"] for f in o["sock"] if f["t"] == "plain" and f["m"]["k"] == "purge"}
            idxs = {i for i, (d, at) in o["awaiting"].items()
                    if at > 0 and at < (o["now"] - GRACE_MS) * 1_000_000 and i not in o["acks"] and i not in blocked_idx
                    and d not in o["invalid"] and d not in blocked_ds}
            due = (o["op"], h, idxs, [False])
        elif k == "crashed":
            if due is not None:
                due[3][0] = True
    close_due()
    for h, (d, i, op) in pending_ann.items():
        fails.append(("arrival-not-announced", f"dataset {d} arrived on host {h} (op {op}) without DatasetPublished"))
    # end state
    for h in w.hosts:
        for d in truth:
            present = w.key(d) in w.stores[h]
            if (h, d) in purged and present:
                fails.append(("resurrection", f"dataset {d} is on host {h} at the end although it was purged there"))
            if present and (w.stores[h][w.key(d)][0].hex(), w.stores[h][w.key(d)][1]) != truth[d]:
                fails.append(("bytes-differ", f"host {h} holds {w.stores[h][w.key(d)]} for dataset {d}, source had {truth[d]}"))
    if getattr(w, "drained", True):
        for h, c in cmds:
            s, t, d = c["source"], c["target"], c["ds"]
            if s != h or w.crashed[s] or (s, d) in purged or w.key(d) not in w.stores[s]:
                continue
            if t == 0:
                if got.get(c["idx"], 0) != 1:
                    fails.append(("fetch-not-delivered", f"fetch {c['idx']} of dataset {d} from host {s}: controller received it {got.get(c['idx'], 0)} times after a loss-free drain"))
            elif t in w.hosts and c["daddr"] == t:
                if w.crashed[t] or (t, d) in purged:
                    continue
                if w.key(d) not in w.stores[t]:
                    fails.append(("transfer-not-completed", f"transfer {c['idx']} of dataset {d} {s}->{t}: target does not hold it after a loss-free drain"))
    return fails


# ----------------------------------------------------------------------------- compare

def model_outs(cases_ops):
    from ekw.core import lean_drive
    from ekw.sim_c07 import canon_model
    lines = []
    for case, ops in cases_ops:
        lines.append(json.dumps({"op": "init", "n": case["n"], "stores": case["stores"]}))
        lines += [json.dumps(o) for o in ops]
    res = lean_drive("C07", lines)
    outs = []
    k = 0
    for case, ops in cases_ops:
        k += 1
        outs.append([canon_model(json.loads(x)) for x in res[k:k + len(ops)]])
        k += len(ops)
    return outs


def first_diff(a, b):
    if a == b:
        return None
    for key in ("events", "net", "now", "ctrlAcked"):
        if a.get(key) != b.get(key):
            return key
    for i, (x, y) in enumerate(zip(a["hosts"], b["hosts"])):
        for key in x:
            if x.get(key) != y.get(key):
                return f"host{i + 1}.{key}"
    return "shape"


def shrink(case, kind):
    cur = dict(case)
    ops = list(case["ops"])

    def bad(o):
        c = dict(cur)
        c["ops"] = o
        try:
            _, _, w = run_case(c)
            return any(f[0] == kind for f in oracle(c, w))
        except Exception:
            return False
    changed = True
    budget = 400
    while changed and budget > 0:
        changed = False
        for i in range(len(ops) - 1, -1, -1):
            budget -= 1
            if budget <= 0:
                break
            cand = ops[:i] + ops[i + 1:]
            if bad(cand):
                ops = cand
                changed = True
    cur["ops"] = ops
    return cur


def _stats(ctx, case, ops, w):
    nhist = len(case["ops"])
    ctx.count("histories")
    ctx.count("ops", nhist)
    ctx.count("drain_ops", len(ops) - nhist)
    ctx.count("hosts:%d" % case["n"])
    kinds = {}
    for o in w.observations:
        if o["op"] >= w.drain_from:
            break
        kinds[o["kind"]] = kinds.get(o["kind"], 0) + 1
        if o["kind"] == "fed":
            if o["dup"]:
                ctx.count("frames_duplicated")
            ctx.count("frames_fed")
        elif o["kind"] == "cmd":
            c = o["c"]
            ctx.count("fetch_commands" if c["target"] == 0 else "transfer_commands")
        elif o["kind"] == "submit-send" and o["retry"]:
            ctx.count("retries")
        elif o["kind"] == "crashed":
            ctx.count("server_crash_why_%d" % o["why"])
    for k, key in (("dropped", "frames_dropped"), ("purge-cmd", "purge_commands"), ("shm-purge", "purges_done"), ("stored", "stores"),
                   ("conflict", "redundant_transfers"), ("announced", "announcements"), ("ctrl-got", "fetch_deliveries"), ("failure", "transmit_failures")):
        if kinds.get(k):
            ctx.count(key, kinds[k])
    for o in case["ops"]:
        ctx.count("op:" + o["op"])
        if o["op"] == "tick" and len(o["inputs"]) > 1:
            ctx.count("ticks_with_batch")
    return kinds


def _compare(ctx, runs):
    mouts = model_outs([(c, o) for c, o, _ in runs])
    for (case, ops, outs), mo in zip(runs, mouts):
        ctx.traces += 1
        if len(mo) != len(outs):
            ctx.disagree("data-server-op:driver-output", {"n": case["n"], "stores": case["stores"], "ops": ops}, len(mo), len(outs))
            continue
        for i, (a, b) in enumerate(zip(outs, mo)):
            if a != b:
                where = first_diff(a, b)
                key = where.split(".")[-1]
                pick = (lambda x: x.get(key)) if "." not in where else (lambda x: x["hosts"][int(where[4]) - 1].get(key))
                ctx.disagree("data-server-op:" + where, {"n": case["n"], "stores": case["stores"], "ops": ops[:i + 1]},
                             pick(b), pick(a))
                break


def correspond(ctx):
    from ekw.core import CORPUS_DIR
    n = ctx.budget(240, 2500)
    maxops = ctx.budget(60, 120)
    cases = []
    for f in sorted(glob.glob(str(CORPUS_DIR / "C07_*.json"))):
        try:
            cases.append(json.load(open(f))["case"])
        except Exception:
            pass
    ncorpus = len(cases)
    runs = []
    reported = set()
    for k in range(ncorpus + n):
        case = cases[k] if k < ncorpus else gen_case(ctx.rng, ctx.rng.randint(8, maxops))
        try:
            ops, outs, w = run_case(case)
            w.drained = True
        except Exception as e:
            ctx.disagree("harness", {"case": case}, "real side runs", f"{type(e).__name__}: {e}")
            continue
        kinds = _stats(ctx, case, ops, w)
        nontrivial = bool(kinds.get("cmd")) and bool(kinds.get("dropped") or kinds.get("shm-purge") or any(
            o["kind"] == "fed" and o["dup"] for o in w.observations))
        ctx.case({"n": case["n"], "stores": case["stores"], "ops": case["ops"][:10], "n_ops": len(case["ops"])}, nontrivial=nontrivial)
        fails = oracle(case, w)
        seen = set()
        for kind, what in fails:
            if kind in seen:
                continue
            seen.add(kind)
            if kind in reported:      # shrink each kind of failure once per run
                ctx.violation({"kind": kind}, case, what)
                continue
            reported.add(kind)
            small = shrink(case, kind)
            _, _, w2 = run_case(small)
            f2 = [f for f in oracle(small, w2) if f[0] == kind]
            ctx.violation({"kind": kind}, small, f2[0][1] if f2 else what)
        runs.append((case, ops, outs))
        if len(runs) >= 250:
            _compare(ctx, runs)
            runs = []
    if runs:
        _compare(ctx, runs)


def replay(payload):
    case = payload["case"]
    ops, outs, w = run_case(case)
    w.drained = True
    for o, out in zip(ops, outs):
        print(json.dumps(o), "->", json.dumps(out["events"]))
    fails = oracle(case, w)
    print("oracle:", fails)
    return 1 if fails else 0
