"""C18 — gateway: newest progress, right job, no id reuse.

Tie: the real JobRouter + handle_fe + handle_controller (through the real parse_request /
serialize_response / report.serialize) against Model/Gateway.lean, op by op.
Oracle: written from the property text (greatest timestamp wins, results as uploaded, fresh ids,
unknown => error and keeps serving).
"""
import base64
import json

import orjson

PROPERTY = "C18"
LEVEL_TEXT = ("Lean theorems over Model/Gateway.lean (JobRouter + handle_fe/handle_controller dispatch): for every history the shown "
              "progress is the first-received among the read reports of greatest timestamp, shutdown keeps it, results per (job,dataset) "
              "are the last upload, ids are fresh and persistent, unknown job/dataset => error response with unchanged state. Unbounded in "
              "history length and number of jobs; tied to the real router/handlers by an op-by-op correspondence check.")
LEVEL_NOTE = ("modelled, not verified: router.py JobRouter, server.py handle_fe/handle_controller; zmq sockets/poller, subprocess spawn and uuid4 "
              "are replaced by fakes; pickle/orjson/pydantic are exercised by the real parse/serialize functions but trusted")
TECHNIQUE = "Lean 4 proof by induction over report histories (refinement to 'newest timestamp wins') + differential correspondence with the real JobRouter"
LEAN_PROPS = ["EkwVerif.Props.C18"]
LEAN_DRIVERS = ["C18"]
RULE = ("random histories over 1-4 jobs: spawn (uuid candidates incl. collisions), controller reports "
        "(progress / result upload / shutdown; timestamps 0..15 with reordering, ties and duplicates), frontend "
        "progress and result queries incl. unknown jobs/datasets. non-trivial = history with >=2 reports for one "
        "job arriving out of timestamp order or >=1 result upload; distinct by content hash")
ASSUMPTIONS = [
    "zmq sockets and the poller are replaced by in-process fakes; `serve` reads only registered sockets",
    "_spawn_subprocess is stubbed; uuid4 is replaced by a scripted candidate stream",
    "timestamps are non-negative integers (time.monotonic_ns)",
]


# ----------------------------------------------------------------------------- real side

class FakeSocket:
    def __init__(self):
        self.inbox = []
        self.sent = []

    def bind_to_random_port(self, addr):
        return 4242

    def recv(self):
        return self.inbox.pop(0)

    def send(self, b):
        self.sent.append(b)


class FakeCtx:
    def socket(self, kind):
        return FakeSocket()


class FakePoller:
    def __init__(self):
        self.registered = []

    def register(self, s, flags=None):
        self.registered.append(s)

    def unregister(self, s):
        self.registered.remove(s)   # ValueError if absent, like zmq's KeyError


class Real:
    def __init__(self):
        import cascade.gateway.router as router
        import cascade.gateway.server as server
        self.router_mod = router
        self.server = server
        router.get_context = lambda: FakeCtx()
        router._spawn_subprocess = lambda spec, addr, jid: None
        self.poller = FakePoller()
        self.jobs = router.JobRouter(self.poller)
        self.fe = FakeSocket()
        self.cands = []

    def _uuid(self):
        class U:
            def __init__(s, v):
                s.v = v
                s.hex = v          # uuid.UUID offers both str() and .hex

            def __str__(s):
                return s.v
        if not self.cands:
            raise RuntimeError("uuid stream exhausted")
        return U(self.cands.pop(0))

    def op(self, o):
        import cascade.gateway.api as api
        from cascade.controller.report import ControllerReport, serialize
        kind = o["op"]
        if kind == "spawn":
            self.cands = list(o["candidates"])
            self.router_mod.uuid.uuid4 = self._uuid
            spec = api.JobSpec(benchmark_name="x", envvars={}, job_instance=None, workers_per_host=1, hosts=1, use_slurm=False)
            req = api.SubmitJobRequest(job=spec)
            rsp = self._fe(req)
            return {"spawned": rsp["job_id"]}
        if kind == "report":
            job = self.jobs.jobs.get(o["job"])
            if job is None:
                return {"reported": "keyError"}
            if job.socket not in self.poller.registered:
                return {"reported": "notRead"}
            rep = ControllerReport(o["job"], o["status"], o["ts"], [(self._ds(d), bytes.fromhex(b)) for d, b in o["results"]])
            job.socket.inbox.append(serialize(rep))
            self.server.handle_controller(job.socket, self.jobs)
            return {"reported": "ok"}
        if kind == "progress":
            rsp = self._fe(api.JobProgressRequest(job_ids=o["ids"]))
            if rsp["error"] is not None:
                return {"progress": None}
            return {"progress": [[k, v] for k, v in rsp["progresses"].items()]}
        if kind == "result":
            rsp = self._fe(api.ResultRetrievalRequest(job_id=o["job"], dataset_id=self._ds(o["ds"])))
            if rsp["error"] is not None:
                return {"result": None}
            return {"result": base64.b64decode(rsp["result"]).hex()}
        raise ValueError(kind)

    @staticmethod
    def _ds(d):
        from cascade.low.core import DatasetId
        t, o = d.split("|")
        return DatasetId(task=t, output=o)

    def _fe(self, req):
        d = req.model_dump(mode="json")
        d["clazz"] = type(req).__name__
        self.fe.inbox.append(orjson.dumps(d))
        self.server.handle_fe(self.fe, self.jobs)
        return orjson.loads(self.fe.sent.pop())


# ----------------------------------------------------------------------------- generator

def gen_history(rng, nops):
    ops = []
    ids = []
    pool = ["j%d" % i for i in range(6)]
    # dataset ids incl. dotted task/output names whose repr ("task.output") coincide: ("a.b","c") vs ("a","b.c")
    dss = ["t%d|o%d" % (i, k) for i in range(2) for k in range(2)] + ["a.b|c", "a|b.c"]
    ops.append({"op": "spawn", "candidates": [pool[0]]})
    ids.append(pool[0])
    for _ in range(nops):
        r = rng.random()
        if r < 0.12:
            # candidates: maybe collide with existing ids first
            c = [rng.choice(ids) for _ in range(rng.randint(0, 2))] + [rng.choice(pool)] + ["z%d" % len(ids)]
            fresh = next(x for x in c if x not in ids)
            ids.append(fresh)
            ops.append({"op": "spawn", "candidates": c})
        elif r < 0.62:
            j = rng.choice(ids) if rng.random() < 0.95 else "nope"
            k = rng.random()
            if k < 0.6:
                status = "%d.00" % rng.randint(0, 99)
            elif k < 0.9:
                status = None
            else:
                status = "Shutdown"
            res = []
            if status is None or rng.random() < 0.1:
                res = [[rng.choice(dss), "%02x" % rng.randint(0, 255)] for _ in range(rng.randint(1, 2))]
            rep = {"op": "report", "job": j, "status": status, "ts": rng.randint(0, 15), "results": res}
            ops.append(rep)
            if rng.random() < 0.15:
                ops.append(dict(rep))  # duplicate delivery
        elif r < 0.8:
            k = rng.random()
            if k < 0.4:
                q = []
            else:
                q = [rng.choice(ids + ["nope"] if rng.random() < 0.2 else ids) for _ in range(rng.randint(1, 3))]
            ops.append({"op": "progress", "ids": q})
        else:
            ops.append({"op": "result", "job": rng.choice(ids + ["nope"]) if rng.random() < 0.15 else rng.choice(ids), "ds": rng.choice(dss + ["t9|o9"])})
    return ops


# ----------------------------------------------------------------------------- oracle

class Oracle:
    """Reference from the property text only."""

    def __init__(self):
        self.reports = {}   # job -> list of (ts, progress) read
        self.results = {}   # (job, ds) -> bytes
        self.live = {}      # job -> still reporting
        self.ids = []

    def check(self, o, out):
        kind = o["op"]
        if kind == "spawn":
            j = out["spawned"]
            if j is None:
                return None
            if j in self.ids:
                return ("id-reused", f"spawn returned id {j!r} already in use")
            self.ids.append(j)
            self.live[j] = True
            self.reports[j] = []
            return None
        if kind == "report":
            j = o["job"]
            if j not in self.ids or not self.live[j]:
                return None
            if out["reported"] != "ok":
                return ("report-crashed", f"report for live job {j} not handled: {out}")
            if o["status"] == "Shutdown":
                self.live[j] = False
            elif o["status"] is not None:
                self.reports[j].append((o["ts"], o["status"]))
            for d, b in o["results"]:
                self.results[(j, d)] = b
            return None
        if kind == "progress":
            q = o["ids"] or list(self.ids)
            if any(j not in self.ids for j in q):
                if out["progress"] is not None:
                    return ("unknown-job-no-error", f"progress query {q} naming an unknown job got {out}")
                return None
            if out["progress"] is None:
                return ("known-job-error", f"progress query {q} failed")
            got = dict(out["progress"])
            for j in q:
                rs = self.reports[j]
                if not rs:
                    ok = {"0.00"}
                else:
                    m = max(t for t, _ in rs)
                    ok = {p for t, p in rs if t == m}
                if got.get(j) not in ok:
                    return ("stale-progress", f"job {j}: shown {got.get(j)!r}, reports with the greatest timestamp carry {sorted(ok)}")
            return None
        if kind == "result":
            want = self.results.get((o["job"], o["ds"]))
            if out["result"] != want:
                return ("wrong-result", f"result for {(o['job'], o['ds'])}: got {out['result']!r}, uploaded {want!r}")
            return None


def run_history(ops):
    """Run on the real code; returns (outputs, first oracle failure or None)."""
    real = Real()
    orc = Oracle()
    outs = []
    fail = None
    for i, o in enumerate(ops):
        try:
            out = real.op(o)
        except Exception as e:  # the gateway stopped serving
            out = {"crash": f"{type(e).__name__}: {e}"}
            outs.append(out)
            if fail is None:
                fail = ("gateway-crash", f"op {i} {o} raised {out['crash']}", i)
            break
        outs.append(out)
        f = orc.check(o, out)
        if f and fail is None:
            fail = (f[0], f[1], i)
    return outs, fail


def shrink(ops, pred):
    """Greedy delta-debugging on the op list (keeps op 0: the first spawn)."""
    cur = list(ops)
    changed = True
    while changed:
        changed = False
        for i in range(len(cur) - 1, 0, -1):
            cand = cur[:i] + cur[i + 1:]
            if pred(cand):
                cur = cand
                changed = True
    return cur


def _model_outs(ctx, histories):
    from ekw.core import lean_drive
    lines = []
    for ops in histories:
        lines.append(json.dumps({"op": "reset"}))
        lines += [json.dumps(o) for o in ops]
    res = lean_drive("C18", lines)
    outs = []
    k = 0
    for ops in histories:
        k += 1
        outs.append([json.loads(x) for x in res[k:k + len(ops)]])
        k += len(ops)
    return outs


def _canon(o):
    if isinstance(o, dict) and isinstance(o.get("progress"), list):
        return {"progress": sorted({tuple(x) for x in o["progress"]})}
    return o


def correspond(ctx):
    n = ctx.budget(300, 20000)
    maxops = ctx.budget(25, 80)
    hist = []
    import glob
    from ekw.core import CORPUS_DIR
    for f in sorted(glob.glob(str(CORPUS_DIR / "C18_*.json"))):
        hist.append(json.load(open(f))["ops"])
    for _ in range(n):
        hist.append(gen_history(ctx.rng, ctx.rng.randint(3, maxops)))
    real_outs = []
    for ops in hist:
        outs, fail = run_history(ops)
        real_outs.append(outs)
        reps = [o for o in ops if o["op"] == "report" and o["status"] not in (None, "Shutdown")]
        ooo = any(a["job"] == b["job"] and a["ts"] > b["ts"] for i, a in enumerate(reps) for b in reps[i + 1:])
        upl = any(o["op"] == "report" and o["results"] for o in ops)
        ctx.case({"ops": ops[:12], "n_ops": len(ops)}, nontrivial=ooo or upl)
        ctx.count("histories")
        ctx.count("ops", len(ops))
        for o in ops:
            ctx.count("op:" + o["op"])
        if ooo:
            ctx.count("histories_with_out_of_order_reports")
        for o in outs:
            if o.get("progress", 1) is None or o.get("result", 1) is None:
                ctx.count("error_responses")
        if fail:
            small = shrink(ops, lambda c: (run_history(c)[1] or ("",))[0] == fail[0])
            f2 = run_history(small)[1]
            ctx.violation({"kind": fail[0]}, {"ops": small}, f2[1] if f2 else fail[1])
    model_outs = _model_outs(ctx, hist)
    for ops, ro, mo in zip(hist, real_outs, model_outs):
        ctx.traces += 1
        for i, (a, b) in enumerate(zip(ro, mo)):
            if _canon(a) != _canon(b):
                ctx.disagree("gateway-op", {"ops": ops[:i + 1]}, b, a)
                break


def replay(payload):
    ops = payload["case"]["ops"]
    outs, fail = run_history(ops)
    for o, out in zip(ops, outs):
        print(o, "->", out)
    print("oracle:", fail)
    return 1 if fail else 0
