"""C18 — gateway: newest progress, right job, no id reuse, keeps serving.

Tie: the real `cascade.gateway.server.serve` loop (with the real handle_fe / handle_controller / JobRouter /
_spawn_local, the real parse_request / serialize_response / report.serialize) is run once per history over a
scripted poller against Model/Gateway.lean (`poll`/`serve`), poll round by poll round.
Oracle: written from the property text (greatest timestamp wins, results as uploaded, fresh ids, unknown =>
error response, the gateway keeps serving); it sees only what went over the sockets, the launch commands and the
log, never the router's own tables. A retrieved result is additionally taken through the real frontend code
(client.request_response parsing the gateway's bytes, then api.decoded_result) and compared with the uploaded value.
What the oracle decides itself (stated in ASSUMPTIONS): a progress report with a negative timestamp may be shown or
ignored while no report with a non-negative one has arrived for the job; uploads inside a REPEATED shutdown notice may
be stored or not. Nothing switches the oracle off for the rest of a history.
"""
import base64
import json
import logging
import pickle
import types

import orjson

PROPERTY = "C18"
LEVEL_TEXT = ("Lean theorems over Model/Gateway.lean (JobRouter, handle_fe, handle_controller and the serve poll loop): for every history of "
              "handled events the shown progress is the first-received among the progress reports naming the job with the greatest timestamp "
              "(shutdown notices never erase it), the result for (job,dataset) is the last accepted upload for exactly that pair or an error, "
              "ids handed out are pairwise distinct, the tracked jobs are exactly the ids handed out, a query naming an id that was never handed "
              "out is answered with an error and leaves the state unchanged; at the serve level EVERY history of poll rounds (frontend bytes "
              "that are no request included: they get an error response) keeps the loop alive unless a shutdown request arrives, every event "
              "is answered in kind, the state is the flat run over the handled events, a closed job socket is never read again; erasing "
              "malformed frontend bytes, non-report bytes on job sockets and queries from a history changes no later answer; the text form of a "
              "result (base64, Model/Base64.lean) decodes back to the uploaded bytes for EVERY byte string and is injective. Timestamps are "
              "unbounded integers in the model. Unbounded in history length and number of jobs; tied to the real serve loop by a "
              "round-by-round correspondence check. Carried by the tie only: that a Python exception inside a try block becomes the error "
              "response / log line the model assumes; that the gateway compares timestamps as exact integers (sampled: windows of 16 "
              "neighbouring stamps at 0, at time.time_ns() size 1..300 ns apart, at monotonic_ns size, around 2^53 and around 2^63); that the "
              "text in the real responses is the model's base64 text (compared character for character for results up to 4096 bytes) and "
              "survives JSON and the client's request_response / decoded_result incl. cloudpickle (sampled: random bytes and pickled values).")
LEVEL_NOTE = ("modelled, not verified: router.py JobRouter/spawn_job, server.py handle_fe/handle_controller/serve; zmq sockets/poller, "
              "subprocess.Popen and uuid4 are replaced by fakes (Popen validates argv like the real one); pickle/orjson/pydantic are exercised "
              "by the real parse/serialize functions but trusted; slurm launches are not exercised")
TECHNIQUE = ("Lean 4 proof by induction over event histories and poll rounds (refinement to 'newest timestamp wins' / 'last upload wins' / "
             "batch loop to flat run; base64 round trip by induction over byte triples with omega) + differential correspondence with the real serve loop")
LEAN_PROPS = ["EkwVerif.Props.C18"]
LEAN_DRIVERS = ["C18"]
RULE = ("random histories of poll rounds (1-3 ready sockets each) over 1-5 jobs: submit (uuid candidates incl. collisions; launch failures: "
        "bad spec / OSError from Popen), controller reports (progress / result upload / shutdown; per history one timestamp regime -- "
        "0..15, time.time_ns()-sized (about 1.7e18, neighbours 1..300 ns apart), monotonic_ns-sized, the window around 2^53, the window "
        "around 2^63 -- each with 16 neighbouring stamps, so that one job gets reordered, tied and duplicated neighbours; some negative or "
        "1e30; payloads of 0..70000 random bytes or the pickle of a value; reports naming another, an unknown or a not-yet-spawned job; "
        "reports arriving on another job's socket or on a closed socket; non-report bytes), frontend progress/result queries incl. unknown "
        "jobs/datasets, shutdown requests, frontend bytes that are no request (10 kinds: no JSON, unknown class, missing / ill-typed "
        "field, ...); 3% wide histories: 7-10 jobs with 7-14 uploaded datasets each, every first upload asked for. non-trivial = history with >=2 progress reports for one job out of "
        "timestamp order, a result upload, a report on a foreign socket or a report naming an unknown job; distinct by content hash")
ASSUMPTIONS = [
    "zmq sockets and the poller are replaced by in-process fakes: the poller reports a socket only while it is registered, one message per socket and round",
    "of zmq the fakes keep: the socket kinds (frontend REP for the clients' REQ, job sockets PULL for the controllers' PUSH: checked by the oracle), and that recv on / polling of a closed socket raises (ENOTSOCK)",
    "subprocess.Popen is replaced by a fake that validates argv as CPython does and records it; uuid4 is replaced by a scripted candidate stream; slurm launches are not exercised",
    "frontend bytes that parse_request rejects (10 fixed byte strings, all modelled as the one event `malformed`): the oracle demands an error response (a JSON object with a non-empty `error` and no job id / progress / result) and judges every later event as if they had not arrived",
    "oracle domain: timestamps of progress reports are non-negative (clocks): while ALL progress reports received for a job carry negative timestamps the oracle accepts both the greatest of them and the initial progress; uploads inside a repeated shutdown notice (never sent by Reporter.shutdown) may be stored or dropped; non-report bytes on a job socket only have to leave the gateway serving",
    "a retrieved result is decoded twice: base64 by the harness (wire level) and by the real frontend code (client.request_response over a replaying socket + api.decoded_result); the expected value is pickle.loads of the uploaded bytes (uploads are cloudpickle streams), bytes that are no pickle stream must make the client raise",
]

LEGAL_OUT = ("spawned", "progress", "result", "bye", "reported", "rejected", "died")


# ----------------------------------------------------------------------------- fakes

class _EndOfScript(BaseException):
    pass


class FakeSocket:
    def __init__(self, run, kind, n):
        self.run = run
        self.kind = kind
        self.n = n
        self.inbox = []
        self.addr = None
        self.closed = False

    def bind(self, url):
        self.addr = url

    def bind_to_random_port(self, addr):
        port = 20000 + self.n
        self.addr = f"{addr}:{port}"
        self.run.bound_now.append(self)
        return port

    def recv(self):
        if self.closed:
            raise OSError(88, "Socket operation on non-socket")      # what zmq raises (ZMQError ENOTSOCK) on a closed socket
        tag, msg = self.inbox.pop(0)
        self.run.current = tag
        self.run.consumed.add(tag)
        return msg

    def send(self, b):
        self.run.sent.setdefault(self.run.current, []).append(b)

    def close(self, *a, **k):
        self.closed = True

    def set(self, *a, **k):
        pass

    setsockopt = set


class FakeCtx:
    def __init__(self, run):
        self.run = run

    def socket(self, kind):
        s = FakeSocket(self.run, kind, len(self.run.sockets))
        self.run.sockets.append(s)
        return s


class FakePoller:
    """zmq.Poller semantics that matter: only registered sockets are ever reported; unregister of an absent socket raises KeyError."""

    def __init__(self, run):
        self.run = run
        self.registered = []

    def register(self, s, flags=None):
        if s not in self.registered:
            self.registered.append(s)
        self.run.registered_by.setdefault(self.run.current, []).append(s)

    def unregister(self, s):
        if s not in self.registered:
            raise KeyError(s)
        self.registered.remove(s)

    def poll(self, timeout=None):
        return self.run.next_poll(self)


class FakePopenError(OSError):
    pass


class _LogTap(logging.Handler):
    def __init__(self, run):
        super().__init__(level=logging.WARNING)
        self.run = run

    def emit(self, record):
        if record.levelno >= logging.ERROR:
            self.run.errors.setdefault(self.run.current, []).append(record.getMessage()[:120])


def _ds(d):
    from cascade.low.core import DatasetId
    t, o = d.split("|")
    return DatasetId(task=t, output=o)


MALFORMED = {
    "bytes": b"\xff\xfe not json",
    "clazz": orjson.dumps({"clazz": "NopeRequest"}),
    "response": orjson.dumps({"clazz": "ShutdownResponse", "error": None}),
    "fields": orjson.dumps({"clazz": "JobProgressRequest"}),
    "fields-result": orjson.dumps({"clazz": "ResultRetrievalRequest", "job_id": "j0"}),
    "field-type": orjson.dumps({"clazz": "JobProgressRequest", "job_ids": "j0"}),
    "no-clazz": orjson.dumps({"job_ids": []}),
    "clazz-type": orjson.dumps({"clazz": 5}),
    "not-object": orjson.dumps([1, 2]),
    "empty": b"",
}


class ServeRun:
    """One run of the real `serve` over a scripted sequence of poll rounds."""

    def __init__(self, batches):
        self.batches = batches
        self.sockets = []
        self.current = None
        self.consumed = set()
        self.sent = {}
        self.errors = {}
        self.bound_now = []
        self.launches = []          # (tag, argv) of successful Popen calls
        self.launch_tries = []      # (tag, argv or None) of every Popen call
        self.addr_of = {}           # job id -> address its controller was told to report to
        self.cands = []
        self.round = -1
        self.ready_tags = []        # per round: tags delivered to a ready socket
        self.unready_tags = set()
        self.poller = None
        self.death = None
        self.phase = "running"
        self.bound_by = {}          # tag -> sockets bound while that event was handled
        self.registered_by = {}     # tag -> sockets registered with the poller while that event was handled
        self.fail_now = None

    # -- fakes wired into the real modules
    def _uuid(self):
        run = self

        class U:
            def __init__(s, v):
                s.v = v
                s.hex = v          # uuid.UUID offers both str() and .hex

            def __str__(s):
                return s.v
        if not run.cands:
            raise RuntimeError("uuid stream exhausted")
        return U(run.cands.pop(0))

    def _popen(self, argv, *a, **k):
        tag = self.current
        if self.fail_now == "oserror":
            self.launch_tries.append((tag, None))
            raise FakePopenError(2, "No such file or directory: 'python'")
        # CPython's subprocess: every element of args must be str, bytes or os.PathLike
        import os
        for x in argv:
            if not isinstance(x, (str, bytes, os.PathLike)):
                self.launch_tries.append((tag, None))
                raise TypeError(f"expected str, bytes or os.PathLike object, not {type(x).__name__}")
        self.launch_tries.append((tag, list(argv)))
        self.launches.append((tag, list(argv)))
        argv = [x if isinstance(x, str) else os.fsdecode(x) for x in argv]
        if "--report_address" in argv:
            val = argv[argv.index("--report_address") + 1]
            addr, _, jid = val.partition(",")
            self.addr_of[jid] = addr
        return types.SimpleNamespace(pid=4242, poll=lambda: None, wait=lambda *a, **k: 0)

    def _sock_at(self, addr):
        for s in self.sockets:
            if s.addr == addr and s.kind != self.fe_kind:
                return s
        return None

    # -- the scripted poller
    def _encode(self, ev):
        import cascade.gateway.api as api
        from cascade.controller.report import ControllerReport, serialize
        k = ev["k"]
        if k == "submit":
            fail = ev.get("fail")
            from cascade.low.core import JobInstance
            spec = api.JobSpec(benchmark_name=None if fail == "neither" else "x", envvars={},
                               job_instance=JobInstance(tasks={}, edges=[]) if fail == "both" else None,
                               workers_per_host=1, hosts=1, use_slurm=False)
            return self._req(api.SubmitJobRequest(job=spec))
        if k == "progress":
            return self._req(api.JobProgressRequest(job_ids=ev["ids"]))
        if k == "result":
            return self._req(api.ResultRetrievalRequest(job_id=ev["job"], dataset_id=_ds(ev["ds"])))
        if k == "shutdown":
            return self._req(api.ShutdownRequest())
        if k == "malformed":
            return MALFORMED[ev["how"]]
        if k == "report":
            rep = ControllerReport(ev["job"], ev["status"], ev["ts"], [(_ds(d), bytes.fromhex(b)) for d, b in ev["results"]])
            return serialize(rep)
        if k == "garbage":
            return b"\x00garbage" if ev["how"] == "unpicklable" else pickle.dumps({"not": "a report"})
        raise ValueError(k)

    @staticmethod
    def _req(req):
        d = req.model_dump(mode="json")
        d["clazz"] = type(req).__name__
        return orjson.dumps(d)

    def next_poll(self, poller):
        self._end_event()
        self.round += 1
        if self.round >= len(self.batches):
            raise _EndOfScript()
        if any(s.closed for s in poller.registered):
            # zmq: polling a closed socket that is still registered raises ZMQError(ENOTSOCK)
            raise OSError(88, "Socket operation on non-socket (a closed socket is still registered with the poller)")
        ready = []
        tags = []
        for i, ev in enumerate(self.batches[self.round]):
            tag = (self.round, i)
            if ev["k"] in ("report", "garbage"):
                addr = self.addr_of.get(ev["owner"])
                sock = self._sock_at(addr) if addr is not None else None
            else:
                sock = self.fe
            if sock is None or sock not in poller.registered:
                self.unready_tags.add(tag)
                continue
            sock.inbox.append((tag, self._encode(ev)))
            ready.append((sock, 1))
            tags.append(tag)
        self.ready_tags.append(tags)
        return ready

    def _end_event(self):
        pass

    def _on_recv_submit(self, tag):
        r, i = tag
        ev = self.batches[r][i]
        self.bound_now = []
        self.bound_by[tag] = self.bound_now
        if ev["k"] == "submit":
            self.cands = list(ev["candidates"])
            self.fail_now = ev.get("fail")
        else:
            self.fail_now = None

    # -- run
    def run(self):
        import cascade.gateway.router as router
        import cascade.gateway.server as server
        import zmq
        run = self
        self.fe_kind = zmq.REP

        class ZmqShim:
            def __getattr__(s, name):
                return getattr(zmq, name)

            def Poller(s):
                run.poller = FakePoller(run)
                return run.poller
        ctx = FakeCtx(self)
        saved = {(m, n): getattr(m, n) for m, n in ((server, "get_context"), (server, "zmq"), (router, "get_context"),
                                                    (router, "subprocess"), (router, "uuid"), (router, "getfqdn"),
                                                    (router, "local_job_port"))}
        server.get_context = lambda: ctx
        server.zmq = ZmqShim()
        router.get_context = lambda: ctx
        router.subprocess = types.SimpleNamespace(Popen=self._popen, run=lambda *a, **k: (_ for _ in ()).throw(FakePopenError(1, "no slurm here")))
        router.uuid = types.SimpleNamespace(uuid4=self._uuid)
        router.getfqdn = lambda: "gw"
        # recv hook: set up the per-event scripted inputs when the event is taken from the socket
        orig_recv = FakeSocket.recv

        def recv(sock):
            msg = orig_recv(sock)
            run._on_recv_submit(run.current)
            return msg
        FakeSocket.recv = recv
        lg = logging.getLogger("cascade")
        tap = _LogTap(self)
        old = (lg.propagate, lg.level, list(lg.handlers))
        lg.handlers = [tap]
        lg.propagate = False
        lg.setLevel(logging.WARNING)
        was_disabled = logging.root.manager.disable
        logging.disable(logging.NOTSET)      # the check's cli silences logging globally; the log is an output here
        try:
            try:
                server.serve("tcp://gw:1")
                self.phase = "stopped"
            except _EndOfScript:
                self.phase = "running"
            except Exception as e:     # the gateway process would end here
                self.phase = "dead"
                self.death = (self.current, type(e).__name__, str(e)[:100])
        finally:
            FakeSocket.recv = orig_recv
            lg.propagate, lg.handlers = old[0], old[2]
            logging.disable(was_disabled)
            lg.setLevel(old[1])
            for (m, n), v in saved.items():
                setattr(m, n, v)
        return self._outs()

    @property
    def fe(self):
        return self.sockets[0] if self.sockets else None

    def _outs(self):
        outs = []
        for r, batch in enumerate(self.batches):
            row = []
            for i, ev in enumerate(batch):
                tag = (r, i)
                if r > self.round or r >= len(self.ready_tags):
                    row.append("notServed")          # the loop had ended before this poll round
                elif tag in self.unready_tags:
                    row.append("notRead")
                elif tag not in self.consumed:
                    row.append("lost" if self.phase == "dead" else "ignored")
                elif self.death is not None and self.death[0] == tag:
                    row.append({"died": self.death[1], "msg": self.death[2]})
                else:
                    row.append(self._out_of(tag, ev))
            outs.append(row)
        return outs

    def _out_of(self, tag, ev):
        k = ev["k"]
        if k in ("report", "garbage"):
            return {"reported": "error" if self.errors.get(tag) else "ok"}
        sent = self.sent.get(tag, [])
        if len(sent) != 1:
            return {"responses": len(sent)}
        try:
            rsp = orjson.loads(sent[0])
        except Exception:
            return {"unparsable-response": sent[0][:40].hex()}
        if not isinstance(rsp, dict):
            return {"unparsable-response": sent[0][:40].hex()}
        if k == "malformed":
            # an error response: names an error and carries nothing that reads as success
            if isinstance(rsp.get("error"), str) and rsp["error"] and not any(rsp.get(f) for f in ("job_id", "progresses", "result")):
                return {"rejected": True}
            return {"accepted-malformed": rsp.get("clazz")}
        want = {"submit": "SubmitJobResponse", "progress": "JobProgressResponse", "result": "ResultRetrievalResponse",
                "shutdown": "ShutdownResponse"}.get(k)
        if rsp.get("clazz") != want:
            return {"badclazz": rsp.get("clazz")}
        if k == "submit":
            o = {"spawned": rsp["job_id"]}
            if rsp["job_id"] is None:
                o["error"] = (rsp["error"] or "")[:80]
            elif rsp["error"] is not None:
                o["error_and_id"] = True
            return o
        if k == "progress":
            if rsp["error"] is not None:
                return {"progress": None}
            return {"progress": [[a, b] for a, b in rsp["progresses"].items()]}
        if k == "result":
            if rsp["error"] is not None:
                return {"result": None}
            # wire level: the text in the response, base64-decoded here; client level: the REAL client code
            # (client.request_response parsing the very bytes the gateway sent, then api.decoded_result)
            return {"result": base64.b64decode(rsp["result"]).hex(), "decoded": client_decode(ev, self._encode(ev), sent[0]),
                    "text": rsp["result"]}
        if k == "shutdown":
            return {"bye": rsp["error"] is None}
        return {"unexpected": k}


def show_value(v):
    import hashlib
    r = repr(v)
    return f"{type(v).__name__}:{r}" if len(r) <= 200 else f"{type(v).__name__}:{r[:200]}...#{len(r)}#{hashlib.sha1(r.encode('utf-8', 'replace')).hexdigest()[:12]}"


def client_decode(ev, request_bytes, reply_bytes):
    """The frontend side, real code: `client.request_response` (its own serialisation of the request, its parsing of the very
    bytes the gateway sent) over a replaying REQ socket, then `api.decoded_result` on the response object it returns.
    -> "<type>:<repr>" of the decoded value | "error:<where>:<exception class>" """
    import cascade.gateway.api as api
    import cascade.gateway.client as client
    import zmq
    sent = []

    class Sock:
        def set(self, *a, **k):
            pass

        def connect(self, *a, **k):
            pass

        def send(self, b):
            sent.append(b)

        def poll(self, *a, **k):
            return 1

        def recv(self):
            return reply_bytes

        def close(self, *a, **k):
            pass

    class Shim:
        def __getattr__(self, name):
            return getattr(zmq, name)

        def Context(self):
            return types.SimpleNamespace(socket=lambda kind: Sock())
    old = client.zmq
    lg = logging.getLogger("cascade.gateway.client")
    old_disabled = lg.disabled
    lg.disabled = True
    try:
        client.zmq = Shim()
        try:
            rsp = client.request_response(api.ResultRetrievalRequest(job_id=ev["job"], dataset_id=_ds(ev["ds"])), "tcp://gw:1")
        except Exception as e:
            return f"error:request_response:{type(e).__name__}"
    finally:
        client.zmq = old
        lg.disabled = old_disabled
    if sent != [request_bytes]:
        return "error:client-sends-other-request-bytes"
    try:
        return show_value(api.decoded_result(rsp, None))
    except BaseException as e:
        return f"error:decoded_result:{type(e).__name__}"


def expect_decoded(hexbytes):
    """what the frontend must get for an upload of these bytes: the value they are the pickle of (results are uploaded as
    cloudpickle = pickle streams); bytes that are no pickle stream cannot be decoded by any client"""
    try:
        return show_value(pickle.loads(bytes.fromhex(hexbytes)))
    except BaseException:
        return "error"


def run_real(batches):
    run = ServeRun(batches)
    try:
        outs = run.run()
    except Exception as e:   # harness trouble is reported as a result, never a crash of the check
        outs = [[{"harness": f"{type(e).__name__}: {e}"[:200]} for _ in b] for b in batches]
    return outs, run


# ----------------------------------------------------------------------------- generator

POOL = ["j%d" % i for i in range(6)]
# dataset ids incl. dotted task/output names whose repr ("task.output") coincide: ("a.b","c") vs ("a","b.c")
DSS = ["t%d|o%d" % (i, k) for i in range(2) for k in range(2)] + ["a.b|c", "a|b.c"]


# values whose pickle stream is uploaded as a result (what a controller uploads: cloudpickle.dumps(value) = a pickle stream)
PICKLED = [None, True, 0, -1, 2 ** 70, 1.5, "text", "\u00e9\u2028 ", b"\x00\xff", [1, [2, "x"]], (1, "a"), {"k": [1, 2], "": None},
           list(range(300)), "x" * 1000, b"\xfb\xef\xbe" * 40, [0.1, -0.0, 1e300]]


def _payload(rng, cnt):
    r = rng.random()
    if r < 0.30:
        v = rng.choice(PICKLED)
        if rng.random() < 0.01:
            v = b"\x07" * 70000
        cnt("payload:pickled-value")
        return pickle.dumps(v, protocol=rng.choice([2, 4, 5])).hex()
    r = rng.random()
    if r < 0.10:
        n = 0
    elif r < 0.68:
        n = 1
    elif r < 0.88:
        n = rng.randint(2, 8)
    elif r < 0.996:
        n = 300
    else:
        n = 70000
    cnt("payload_bytes:%s" % (n if n in (0, 1, 300, 70000) else "2-8"))
    if n <= 8:
        return "".join("%02x" % rng.randint(0, 255) for _ in range(n))
    seed = rng.randint(0, 255)
    return "".join("%02x" % ((seed + 7 * i) % 256) for i in range(n))


def ts_regime(rng, cnt):
    """Per history: where the timestamps of its reports live. All reports of a history draw from base + step * (0..15), so
    several reports of ONE job carry neighbouring stamps, in both orders of arrival, with ties and duplicates.
      small        0..15
      time_ns      what time.time_ns() returns today (about 1.7e18), neighbours 1..300 ns apart
      monotonic_ns what time.monotonic_ns() returns (uptime: seconds to months), neighbours 1 ns .. 1 ms apart
      2^53         the window around 2^53 (first integers a double cannot tell apart)
      2^63         the window around 2^63 (signed 64-bit boundary)"""
    r = rng.random()
    if r < 0.46:
        name, base, steps = "small", 0, [1]
    elif r < 0.68:
        name, base, steps = "time_ns", rng.randint(1_600_000_000, 1_900_000_000) * 10 ** 9 + rng.randint(0, 10 ** 9 - 1), [1, 1, 3, 20, 100, 255, 300]
    elif r < 0.78:
        name, base, steps = "monotonic_ns", rng.randint(10 ** 9, 10 ** 16), [1, 1, 1000, 10 ** 6]
    elif r < 0.89:
        name, base, steps = "2^53", 2 ** 53 - rng.randint(0, 15), [1]
    else:
        name, base, steps = "2^63", 2 ** 63 - rng.randint(0, 15), [1]
    cnt("ts_regime:" + name)
    return name, base, rng.choice(steps)


def _ts(rng, cnt, reg=("small", 0, 1)):
    r = rng.random()
    if r < 0.93:
        cnt("ts:" + reg[0])
        return reg[1] + reg[2] * rng.randint(0, 15)
    if r < 0.97:
        cnt("ts:negative")
        return -rng.randint(1, 3)
    cnt("ts:1e30")
    return 10 ** 30 + rng.randint(0, 2)


WIDE_DSS = ["w%d|o" % i for i in range(16)]


def gen_wide_history(rng, cnt=lambda k, n=1: None):
    """Many jobs, many datasets per job: 7-10 jobs, 7-14 uploaded datasets each (some re-uploaded), then every first upload and a
    sample of the others is asked for, and the progress of all jobs: a bound on the number of results kept per job, or on the number
    of tracked jobs, shows here."""
    reg = ts_regime(rng, cnt)
    nj = rng.randint(7, 10)
    ids = ["j%d" % i for i in range(nj)]
    batches = [[{"k": "submit", "candidates": [j], "fail": None}] for j in ids]
    reports = []
    asked = []
    for j in ids:
        dss = rng.sample(WIDE_DSS, rng.randint(7, 14))
        cnt("wide:datasets_per_job", len(dss))
        i = 0
        while i < len(dss):
            n = rng.randint(1, 3)
            reports.append({"k": "report", "owner": j, "job": j, "status": None, "ts": _ts(rng, cnt, reg),
                            "results": [[d, _payload(rng, cnt)] for d in dss[i:i + n]]})
            i += n
        if rng.random() < 0.5:
            reports.append({"k": "report", "owner": j, "job": j, "status": None, "ts": _ts(rng, cnt, reg), "results": [[rng.choice(dss), _payload(rng, cnt)]]})
        reports.append({"k": "report", "owner": j, "job": j, "status": "%d.00" % rng.randint(1, 99), "ts": _ts(rng, cnt, reg), "results": []})
        asked += [(j, dss[0]), (j, dss[-1])] + [(j, rng.choice(WIDE_DSS)) for _ in range(2)]
    # reports of one job stay in order among themselves (uploads are not timestamp-guarded), jobs interleave
    per = {j: [r for r in reports if r["job"] == j] for j in ids}
    while any(per.values()):
        j = rng.choice([j for j in ids if per[j]])
        batches.append([per[j].pop(0)])
    rng.shuffle(asked)
    batches += [[{"k": "result", "job": j, "ds": d}] for j, d in asked]
    batches.append([{"k": "progress", "ids": []}])
    cnt("histories_wide")
    cnt("wide:jobs", nj)
    return batches


def gen_history(rng, nops, cnt=lambda k, n=1: None):
    reg = ts_regime(rng, cnt)
    batches = [[{"k": "submit", "candidates": [POOL[0]], "fail": None}]]
    ids = [POOL[0]]          # ids the generator believes are handed out (a guide for the distribution only)
    made = 1
    while made <= nops:
        size = 1 if rng.random() < 0.75 else (2 if rng.random() < 0.72 else 3)
        batch = []
        socks = set()
        for _ in range(size):
            ev = _gen_event(rng, ids, made / max(1, nops), cnt, reg)
            sock = ev.get("owner", "fe") if ev["k"] in ("report", "garbage") else "fe"
            if sock in socks:
                continue            # a poller reports a socket once per round
            socks.add(sock)
            batch.append(ev)
            made += 1
            if ev["k"] == "report" and rng.random() < 0.15:
                batches.append(batch)
                batch = [dict(ev)]   # duplicate delivery, next round
                cnt("duplicate_delivery")
                made += 1
                break
        if batch:
            batches.append(batch)
    return batches


def _gen_event(rng, ids, progress_frac, cnt, reg=("small", 0, 1)):
    r = rng.random()
    if r < 0.12:
        c = [rng.choice(ids) for _ in range(rng.randint(0, 2))] + [rng.choice(POOL)] + ["z%d" % len(ids)]
        f = rng.random()
        fail = None if f < 0.78 else ("oserror" if f < 0.90 else ("neither" if f < 0.95 else "both"))
        if fail is None:
            ids.append(next(x for x in c if x not in ids))
        cnt("submit:" + (fail or "ok"))
        return {"k": "submit", "candidates": c, "fail": fail}
    if r < 0.62:
        u = rng.random()
        if u < 0.90:
            j = rng.choice(ids)
            cnt("report:names-known-job")
        elif u < 0.95:
            j = "nope"
            cnt("report:names-unknown-job")
        else:
            j = rng.choice(POOL)          # maybe not (yet) spawned
            cnt("report:names-pool-id")
        owner = j if (j in ids and rng.random() < 0.88) else rng.choice(ids)
        if owner != j:
            cnt("report:on-foreign-socket")
        k = rng.random()
        if k < 0.57:
            status = "%d.00" % rng.randint(0, 99)
        elif k < 0.60:
            status = rng.choice(["shutdown", "Shutdown ", "", "100.00", "Shutdowné"])
            cnt("report:odd-progress-string")
        elif k < 0.88:
            status = None
        else:
            status = "Shutdown"
        res = []
        if (status is None and rng.random() < 0.93) or (status is not None and rng.random() < 0.1):
            res = [[rng.choice(DSS), _payload(rng, cnt)] for _ in range(rng.randint(1, 2))]
        if status is None and not res:
            cnt("report:empty")
        return {"k": "report", "owner": owner, "job": j, "status": status, "ts": _ts(rng, cnt, reg), "results": res}
    if r < 0.78:
        if rng.random() < 0.4:
            q = []
        else:
            q = [rng.choice(ids + ["nope"] if rng.random() < 0.2 else ids) for _ in range(rng.randint(1, 3))]
        return {"k": "progress", "ids": q}
    if r < 0.96:
        return {"k": "result", "job": rng.choice(ids + ["nope"]) if rng.random() < 0.15 else rng.choice(ids), "ds": rng.choice(DSS + ["t9|o9"])}
    if r < 0.975:
        if rng.random() < 0.4:
            return {"k": "malformed", "how": rng.choice(sorted(MALFORMED))}
        return {"k": "garbage", "owner": rng.choice(ids), "how": rng.choice(["unpicklable", "wrong-type"])}
    # loop-ending events: rare, and mostly late in the history
    if rng.random() < 0.3 + 0.7 * progress_frac:
        if rng.random() < 0.6:
            return {"k": "shutdown"}
        return {"k": "malformed", "how": rng.choice(sorted(MALFORMED))}
    return {"k": "progress", "ids": []}


# ----------------------------------------------------------------------------- oracle

def _trigger(ev, orc):
    k = ev["k"]
    if k == "report":
        if ev["job"] not in orc.ids:
            return "report-naming-unknown-job"
        if ev["status"] == "Shutdown" and ev["job"] in orc.shut:
            return "second-shutdown-notice"
        if ev["owner"] != ev["job"]:
            return "report-on-foreign-socket"
        return "report"
    if k == "progress":
        return "progress-query-unknown-job" if any(j not in orc.ids for j in ev["ids"]) else "progress-query"
    if k == "result":
        return "result-query-unknown-job" if ev["job"] not in orc.ids else "result-query"
    return k


class Oracle:
    """Reference from the property text only. Sees events, responses, consumption of messages, launch commands."""

    def __init__(self):
        self.ids = []          # ids handed out by submit responses, in order
        self.prog = {}         # job -> list of (ts, progress) received for it
        self.res = {}          # (job, ds) -> set of acceptable answers (hex or None)
        self.shut = set()      # jobs whose shutdown notice was received
        self.alive = True      # no shutdown request answered yet

    def check_round(self, batch, outs, run, r):
        """Returns (kind, signature-extras, text) of the first failure in this poll round, or None."""
        alive0 = self.alive
        open0 = {j for j in self.ids if j not in self.shut}
        if r == 0:
            import zmq
            # frontends talk REQ (client.request_response): the gateway's frontend socket must be its REP counterpart
            if run.fe is None or run.fe.kind != zmq.REP:
                return ("socket-kind", {"socket": "frontend"}, f"the frontend socket is of zmq kind {getattr(run.fe, 'kind', None)}, clients connect with REQ and need REP ({zmq.REP})")
        for i, (ev, out) in enumerate(zip(batch, outs)):
            f = self._event(ev, out, run, (r, i), alive0 and self.alive, open0)
            if f:
                return f
        return None

    def _event(self, ev, out, run, tag, alive, open0):
        k = ev["k"]
        is_ctrl = k in ("report", "garbage")
        must = alive and (not is_ctrl or (ev["owner"] in open0 and ev["owner"] not in self.shut))
        served = isinstance(out, dict) and not ("died" in out)
        if isinstance(out, dict) and "harness" in out:
            return ("harness-error", {}, out["harness"])
        if must and not served:
            trig = _trigger(ev, self)
            if isinstance(out, dict):
                return ("gateway-died", {"trigger": trig, "exc": out["died"]},
                        f"the gateway process ended with {out['died']}({out.get('msg')}) while handling {ev}: no job is served any more")
            return ("not-served", {"trigger": trig, "how": out}, f"{ev} should have been handled by the running gateway but was {out}")
        if not served:
            return None
        if k == "submit":
            return self._submit(ev, out, run, tag)
        if k == "shutdown":
            self.alive = False
            if out.get("bye") is not True:
                return ("bad-response", {"to": k}, f"shutdown request answered with {out}")
            return None
        if k == "progress":
            return self._progress(ev, out)
        if k == "result":
            return self._result(ev, out)
        if k == "report":
            return self._report(ev, out)
        if k == "malformed":
            # bytes that are no request (or a request class with a missing / ill-typed field): whoever sent them gets an error
            # response; nothing else may change (every later query is judged as if they had not arrived)
            if out.get("rejected") is not True:
                return ("malformed-request-no-error", {}, f"frontend bytes {MALFORMED[ev['how']][:40]!r} that are no valid request were answered with {out}")
            return None
        # k == "garbage": bytes on a job's socket that are no report: the gateway only has to survive them (served, above);
        # every later query is judged as if they had not arrived
        return None

    def _submit(self, ev, out, run, tag):
        if "spawned" not in out:
            return ("bad-response", {"to": "submit"}, f"submit answered with {out}")
        j = out["spawned"]
        if j is None:
            if ev.get("fail") is None:
                err = out.get("error", "")
                return ("spawn-failed", {"error": err.split("(")[0]},
                        f"a well-formed submit (launch command accepted by the OS) was refused: {err}")
            return None
        if out.get("error_and_id"):
            return ("bad-response", {"to": "submit"}, "submit response carries both a job id and an error")
        if j in self.ids:
            return ("id-reused", {}, f"submit returned id {j!r} already handed out")
        self.ids.append(j)
        self.prog[j] = []
        # the controller of the new job must be told this id and an address the gateway listens on for it
        mine = [argv for t, argv in run.launches if t == tag]
        if len(mine) != 1 or "--report_address" not in mine[0]:
            return ("spawn-misaddressed", {}, f"submit answered with id {j!r} but launched {len(mine)} controller(s) with a report address")
        val = mine[0][mine[0].index("--report_address") + 1]
        bound = [s for s in run.bound_by.get(tag, []) if s in run.registered_by.get(tag, [])]
        import zmq
        if any(s.kind != zmq.PULL for s in bound):
            # controllers report through a PUSH socket (report.Reporter): only a PULL socket receives every report of one peer
            return ("socket-kind", {"socket": "job"}, f"job {j!r}: its report socket is of zmq kind {[s.kind for s in bound]}, controllers PUSH and need PULL ({zmq.PULL})")
        if val not in [f"{s.addr},{j}" for s in bound]:
            return ("spawn-misaddressed", {}, f"job {j!r}: controller told to report to {val!r}; sockets bound and polled for it: {[s.addr for s in bound]}")
        return None

    def _progress(self, ev, out):
        if "progress" not in out:
            return ("bad-response", {"to": "progress"}, f"progress query answered with {out}")
        q = ev["ids"]
        if any(j not in self.ids for j in q):
            if out["progress"] is not None:
                return ("unknown-job-no-error", {}, f"progress query {q} naming an unknown job got {out}")
            return None
        if out["progress"] is None:
            return ("known-job-error", {}, f"progress query {q} failed")
        got = dict(out["progress"])
        if not q:
            extra = sorted(set(got) - set(self.ids))
            if extra:
                return ("phantom-job", {}, f"the gateway shows progress for {extra}: ids it never handed out (handed out: {self.ids})")
            q = list(self.ids)
        missing = [j for j in q if j not in got]
        if missing:
            return ("job-forgotten", {}, f"progress query: no entry for {missing}")
        for j in q:
            rs = self.prog[j]
            if not rs:
                ok = {"0.00"}
            else:
                m = max(t for t, _ in rs)
                ok = {p for t, p in rs if t == m}
                if m < 0:
                    # every progress report so far carries a negative timestamp: outside the domain (clocks are non-negative);
                    # showing the greatest of them or still the initial progress are both accepted. As soon as a report
                    # with a non-negative timestamp has arrived the text decides again.
                    ok = ok | {"0.00"}
            if got.get(j) not in ok:
                return ("stale-progress", {}, f"job {j}: shown {got.get(j)!r}, reports with the greatest timestamp carry {sorted(ok)}")
        return None

    def _result(self, ev, out):
        if "result" not in out:
            return ("bad-response", {"to": "result"}, f"result query answered with {out}")
        key = (ev["job"], ev["ds"])
        want = self.res.get(key, {None})
        if out["result"] not in want:
            if want == {None}:
                return ("unknown-dataset-no-error" if ev["job"] in self.ids else "unknown-job-no-error", {},
                        f"result query for {key}: nothing was uploaded for it, got {_short(out['result'])}")
            return ("wrong-result", {"size": _size_class(want)}, f"result for {key}: got {_short(out['result'])}, uploaded {sorted(_short(w) for w in want)}")
        if out["result"] is not None:
            # the same answer as the frontend sees it: through the real client (request_response + decoded_result)
            exp = expect_decoded(out["result"])
            got = out.get("decoded")
            if (exp == "error") != str(got).startswith("error") or (exp != "error" and got != exp):
                return ("result-decoded-wrong", {"expected": "error" if exp == "error" else "value"},
                        f"result for {key}: the uploaded bytes {_short(out['result'])} are the pickle of {exp[:80]}; the client (request_response + decoded_result) gives {str(got)[:80]}")
        return None

    def _report(self, ev, out):
        j = ev["job"]
        if j not in self.ids:
            return None               # names no job of this gateway: ignored (it must only not stop the gateway)
        second = ev["status"] == "Shutdown" and j in self.shut
        if out.get("reported") != "ok" and not second:
            return ("report-rejected", {}, f"report {_short_ev(ev)} for the known job {j} was rejected")
        if ev["status"] == "Shutdown":
            self.shut.add(j)
        elif ev["status"] is not None:
            self.prog[j].append((ev["ts"], ev["status"]))
        for d, b in ev["results"]:
            if second:      # uploads inside a REPEATED shutdown notice (never sent by a controller): either outcome is accepted
                self.res[(j, d)] = set(self.res.get((j, d), {None})) | {b}
            else:
                self.res[(j, d)] = {b}
        return None


def _short(x):
    if isinstance(x, str) and len(x) > 24:
        return f"{x[:16]}…({len(x) // 2} bytes)"
    return x


def _short_ev(ev):
    e = dict(ev)
    if "results" in e:
        e["results"] = [[d, _short(b)] for d, b in e["results"]]
    return e


def _size_class(want):
    n = max((len(w) // 2 for w in want if w is not None), default=0)
    return "empty" if n == 0 else ("small" if n <= 8 else "large")


def run_history(batches, phase=None):
    """Run on the real code; returns (outs per round, first oracle failure or None)."""
    outs, run = run_real(batches)
    if phase is not None:
        phase.append(run.phase)
    orc = Oracle()
    for r, (batch, row) in enumerate(zip(batches, outs)):
        f = orc.check_round(batch, row, run, r)
        if f:
            return outs, (f[0], f[1], f[2], r)
    return outs, None


def shrink(batches, pred, budget=400):
    """Greedy delta-debugging: drop whole rounds, then single events."""
    cur = [list(b) for b in batches]
    changed = True
    while changed and budget > 0:
        changed = False
        for i in range(len(cur) - 1, -1, -1):
            cand = cur[:i] + cur[i + 1:]
            budget -= 1
            if cand and pred(cand):
                cur = cand
                changed = True
        for i in range(len(cur) - 1, -1, -1):
            if i >= len(cur) or len(cur[i]) < 2:
                continue
            for k in range(len(cur[i]) - 1, -1, -1):
                cand = cur[:i] + [cur[i][:k] + cur[i][k + 1:]] + cur[i + 1:]
                budget -= 1
                if pred(cand):
                    cur = cand
                    changed = True
                    break
    return cur


# ----------------------------------------------------------------------------- model side

def _lean_ev(ev):
    e = dict(ev)
    if e["k"] == "submit":
        e["fail"] = e.get("fail") is not None
    return e


B64_TIE_MAX_BYTES = 4096      # the text form of longer results is not compared with the model (the driver is an interpreter)


def _model_outs(histories, hexes=()):
    """-> (model outputs per history and round, {hex: (base64 text the model renders, decode(encode) = bytes?)})"""
    from ekw.core import lean_drive
    lines = []
    for bs in histories:
        lines.append(json.dumps({"op": "reset"}))
        lines += [json.dumps({"op": "poll", "events": [_lean_ev(e) for e in b]}) for b in bs]
    hexes = list(hexes)
    lines += [json.dumps({"op": "b64", "hex": h}) for h in hexes]
    res = lean_drive("C18", lines)
    outs = []
    k = 0
    for bs in histories:
        k += 1
        outs.append([json.loads(x) for x in res[k:k + len(bs)]])
        k += len(bs)
    texts = {}
    for h, x in zip(hexes, res[k:k + len(hexes)]):
        m = json.loads(x)
        texts[h] = (m.get("text"), m.get("back")) if isinstance(m, dict) else (None, None)
    return outs, texts


def _canon(o):
    if isinstance(o, dict):
        if isinstance(o.get("progress"), list):
            return {"progress": sorted({tuple(x) for x in o["progress"]})}
        if "died" in o:
            return {"died": True}
        if "spawned" in o:
            return {"spawned": o["spawned"]}
        if "decoded" in o:
            return {k: v for k, v in o.items() if k not in ("decoded", "text")}
    return o


def legacy_to_batches(ops):
    """Histories of the first version of this check (one handler call per op) as poll rounds of one event."""
    out = []
    for o in ops:
        k = o["op"]
        if k == "spawn":
            out.append([{"k": "submit", "candidates": o["candidates"], "fail": None}])
        elif k == "report":
            out.append([{"k": "report", "owner": o["job"], "job": o["job"], "status": o["status"], "ts": o["ts"], "results": o["results"]}])
        elif k == "progress":
            out.append([{"k": "progress", "ids": o["ids"]}])
        elif k == "result":
            out.append([{"k": "result", "job": o["job"], "ds": o["ds"]}])
    return out


# witnesses that are replayed on every run (found by this check on the tree before the fix: commits; kept as regression inputs)
WITNESSES = [
    # a report naming a job this gateway never spawned (stale controller of an earlier gateway on a reused port)
    [[{"k": "submit", "candidates": ["j0"], "fail": None}],
     [{"k": "report", "owner": "j0", "job": "nope", "status": "50.00", "ts": 3, "results": []}],
     [{"k": "progress", "ids": ["j0"]}]],
    [[{"k": "submit", "candidates": ["j0"], "fail": None}],
     [{"k": "report", "owner": "j0", "job": "nope", "status": None, "ts": 3, "results": [["t0|o0", "aa"]]}],
     [{"k": "result", "job": "j0", "ds": "t0|o0"}]],
    # a second shutdown notice for a job (arriving through another job's socket)
    [[{"k": "submit", "candidates": ["j0"], "fail": None}], [{"k": "submit", "candidates": ["j1"], "fail": None}],
     [{"k": "report", "owner": "j0", "job": "j0", "status": "Shutdown", "ts": 5, "results": []}],
     [{"k": "report", "owner": "j1", "job": "j0", "status": "Shutdown", "ts": 6, "results": []}],
     [{"k": "progress", "ids": []}]],
    # a failed launch must not leave a tracked job behind
    [[{"k": "submit", "candidates": ["j0"], "fail": None}], [{"k": "submit", "candidates": ["j1"], "fail": "oserror"}],
     [{"k": "progress", "ids": []}], [{"k": "submit", "candidates": ["j1"], "fail": None}], [{"k": "progress", "ids": []}]],
    # shutdown request in the middle of a poll round: the rest of the round is still handled, then the loop ends
    [[{"k": "submit", "candidates": ["j0"], "fail": None}],
     [{"k": "shutdown"}, {"k": "report", "owner": "j0", "job": "j0", "status": "10.00", "ts": 1, "results": []}],
     [{"k": "progress", "ids": []}]],
    # a socket closed earlier in the same round is still read in that round
    [[{"k": "submit", "candidates": ["j0"], "fail": None}], [{"k": "submit", "candidates": ["j1"], "fail": None}],
     [{"k": "report", "owner": "j1", "job": "j0", "status": "Shutdown", "ts": 5, "results": []},
      {"k": "report", "owner": "j0", "job": "j0", "status": "70.00", "ts": 9, "results": [["a.b|c", ""]]}],
     [{"k": "report", "owner": "j0", "job": "j0", "status": "80.00", "ts": 10, "results": []}],
     [{"k": "progress", "ids": ["j0"]}, ], [{"k": "result", "job": "j0", "ds": "a.b|c"}], [{"k": "result", "job": "j0", "ds": "a|b.c"}]],
    # timestamps as clocks give them: two reports of one job 1 ns / 100 ns apart near 2^63 and at time.time_ns() size, the older one
    # arriving late, and the newer one arriving in order (a last_seen kept with less than integer precision fails one of them)
    [[{"k": "submit", "candidates": ["j0"], "fail": None}],
     [{"k": "report", "owner": "j0", "job": "j0", "status": "20.00", "ts": 2 ** 63 + 2, "results": []}],
     [{"k": "report", "owner": "j0", "job": "j0", "status": "10.00", "ts": 2 ** 63 + 1, "results": []}],
     [{"k": "progress", "ids": ["j0"]}]],
    [[{"k": "submit", "candidates": ["j0"], "fail": None}],
     [{"k": "report", "owner": "j0", "job": "j0", "status": "20.00", "ts": 1758700000123456789 + 200, "results": []}],
     [{"k": "report", "owner": "j0", "job": "j0", "status": "10.00", "ts": 1758700000123456789 + 100, "results": []}],
     [{"k": "progress", "ids": ["j0"]}]],
    [[{"k": "submit", "candidates": ["j0"], "fail": None}],
     [{"k": "report", "owner": "j0", "job": "j0", "status": "10.00", "ts": 1758700000123456789 + 130, "results": []}],
     [{"k": "report", "owner": "j0", "job": "j0", "status": "20.00", "ts": 1758700000123456789 + 131, "results": []}],
     [{"k": "progress", "ids": ["j0"]}]],
    [[{"k": "submit", "candidates": ["j0"], "fail": None}],
     [{"k": "report", "owner": "j0", "job": "j0", "status": "10.00", "ts": 2 ** 53, "results": []}],
     [{"k": "report", "owner": "j0", "job": "j0", "status": "20.00", "ts": 2 ** 53 + 1, "results": []}],
     [{"k": "progress", "ids": ["j0"]}]],
    # frontend bytes that are no request (incl. a request class with a missing field): error response, every job still served
    [[{"k": "submit", "candidates": ["j0"], "fail": None}],
     [{"k": "report", "owner": "j0", "job": "j0", "status": "50.00", "ts": 3, "results": [["t0|o0", "8004952d"]]}],
     [{"k": "malformed", "how": "fields"}], [{"k": "progress", "ids": ["j0"]}], [{"k": "malformed", "how": "bytes"}],
     [{"k": "malformed", "how": "fields-result"}, {"k": "report", "owner": "j0", "job": "j0", "status": "40.00", "ts": 2, "results": []}],
     [{"k": "result", "job": "j0", "ds": "t0|o0"}], [{"k": "progress", "ids": []}]],
    # non-report bytes on a job's socket, a report with a negative timestamp: what follows is still judged
    [[{"k": "submit", "candidates": ["j0"], "fail": None}],
     [{"k": "garbage", "owner": "j0", "how": "unpicklable"}],
     [{"k": "report", "owner": "j0", "job": "j0", "status": "5.00", "ts": -2, "results": []}],
     [{"k": "report", "owner": "j0", "job": "j0", "status": "70.00", "ts": 9, "results": []}],
     [{"k": "garbage", "owner": "j0", "how": "wrong-type"}],
     [{"k": "report", "owner": "j0", "job": "j0", "status": "60.00", "ts": 8, "results": []}],
     [{"k": "progress", "ids": ["j0"]}]],
    # a pickled value uploaded in the first shutdown notice; seven datasets for one job
    [[{"k": "submit", "candidates": ["j0"], "fail": None}],
     [{"k": "report", "owner": "j0", "job": "j0", "status": None, "ts": 1, "results": [["w%d|o" % i, pickle.dumps(i).hex()] for i in range(4)]}],
     [{"k": "report", "owner": "j0", "job": "j0", "status": "Shutdown", "ts": 2, "results": [["w%d|o" % i, pickle.dumps([i, "\u00e9"]).hex()] for i in range(4, 7)]}],
     [{"k": "result", "job": "j0", "ds": "w0|o"}], [{"k": "result", "job": "j0", "ds": "w6|o"}], [{"k": "result", "job": "j0", "ds": "w3|o"}]],
]


def _classify(batches):
    flat = [e for b in batches for e in b]
    reps = [e for e in flat if e["k"] == "report" and e["status"] not in (None, "Shutdown")]
    ooo = any(a["job"] == b["job"] and a["ts"] > b["ts"] for i, a in enumerate(reps) for b in reps[i + 1:])
    upl = any(e["k"] == "report" and e["results"] for e in flat)
    foreign = any(e["k"] == "report" and e["owner"] != e["job"] for e in flat)
    return flat, ooo, upl, foreign


def correspond(ctx):
    n = ctx.budget(500, 12000)
    maxops = ctx.budget(25, 80)
    hist = []
    import glob
    from ekw.core import CORPUS_DIR
    for f in sorted(glob.glob(str(CORPUS_DIR / "C18_*.json"))):
        c = json.load(open(f))
        hist.append(c["batches"] if "batches" in c else legacy_to_batches(c["ops"]))
    hist += [json.loads(json.dumps(w)) for w in WITNESSES]
    for _ in range(n):
        if ctx.rng.random() < 0.03:
            hist.append(gen_wide_history(ctx.rng, ctx.count))
        else:
            hist.append(gen_history(ctx.rng, ctx.rng.randint(3, maxops), ctx.count))
    real_outs = []
    real_phase = []
    seen_sig = set()
    for batches in hist:
        outs, fail = run_history(batches, real_phase)
        real_outs.append(outs)
        ctx.count("final_phase:" + real_phase[-1])
        flat, ooo, upl, foreign = _classify(batches)
        ctx.case({"batches": batches[:8], "n_rounds": len(batches), "n_events": len(flat)}, nontrivial=ooo or upl or foreign)
        ctx.count("histories")
        ctx.count("events", len(flat))
        for b in batches:
            ctx.count("round_size:%d" % len(b))
        for e in flat:
            ctx.count("ev:" + e["k"])
        if ooo:
            ctx.count("histories_with_out_of_order_reports")
        for row in outs:
            for o in row:
                if isinstance(o, str):
                    ctx.count("out:" + o)
                elif "died" in o:
                    ctx.count("out:died")
                elif o.get("reported") == "error":
                    ctx.count("out:report-error-logged")
                elif o.get("progress", 1) is None or o.get("result", 1) is None or ("spawned" in o and o["spawned"] is None):
                    ctx.count("out:error-response")
        if fail:
            sig = dict(fail[1])
            sig["kind"] = fail[0]
            key = json.dumps(sig, sort_keys=True)
            if key in seen_sig and len(seen_sig) < 50:
                ctx.violation(sig, {"batches": batches}, fail[2])      # same signature: reported once by core, unshrunk is fine
                continue
            seen_sig.add(key)

            def same(c, sig=sig):
                f = run_history(c)[1]
                return f is not None and dict(f[1], kind=f[0]) == sig
            small = shrink(batches, same)
            f2 = run_history(small)[1]
            ctx.violation(sig, {"batches": small}, f2[2] if f2 else fail[2])
    # the text form of every retrieved result (what went into the JSON response) against Model/Base64.lean
    real_text = {}
    for outs in real_outs:
        for row in outs:
            for o in row:
                if isinstance(o, dict) and isinstance(o.get("text"), str) and len(o["result"]) <= 2 * B64_TIE_MAX_BYTES:
                    real_text.setdefault(o["result"], o["text"])
    model_outs, model_text = _model_outs(hist, sorted(real_text))
    ctx.count("result_texts_compared_with_model", len(real_text))
    for h, t in sorted(real_text.items()):
        mt, back = model_text.get(h, (None, None))
        if mt != t or back is not True:
            ctx.disagree("result-text-base64", {"uploaded_hex": h}, {"text": mt, "decode_encode_is_identity": back}, {"text": t})
            break
    for batches, ro, ph, mo in zip(hist, real_outs, real_phase, model_outs):
        ctx.traces += 1
        for i, (a, b) in enumerate(zip(ro, mo)):
            ca = [_canon(x) for x in a]
            cb = [_canon(x) for x in b.get("outs", [])] if isinstance(b, dict) else b
            if ca != cb:
                ctx.disagree("gateway-poll-round", {"batches": batches[:i + 1]}, b, a)
                break
        else:
            if mo and isinstance(mo[-1], dict) and mo[-1].get("phase") != ph:
                ctx.disagree("gateway-final-phase", {"batches": batches}, mo[-1].get("phase"), ph)


def replay(payload):
    case = payload["case"]
    batches = case["batches"] if "batches" in case else legacy_to_batches(case["ops"])
    outs, fail = run_history(batches)
    for b, row in zip(batches, outs):
        print("poll round:")
        for e, o in zip(b, row):
            print("   ", _short_ev(e), "->", {k: _short(v) for k, v in o.items()} if isinstance(o, dict) else o)
    print("oracle:", fail)
    return 1 if fail else 0
