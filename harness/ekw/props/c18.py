"""C18 — gateway: newest progress, right job, no id reuse, keeps serving.

Tie: the real `cascade.gateway.server.serve` loop (with the real handle_fe / handle_controller / JobRouter /
_spawn_local, the real parse_request / serialize_response / report.serialize) is run once per history over a
scripted poller against Model/Gateway.lean (`poll`/`serve`), poll round by poll round.
Oracle: written from the property text (greatest timestamp wins, results as uploaded, fresh ids, unknown =>
error response, the gateway keeps serving); it sees only what went over the sockets, the launch commands and the
log, never the router's own tables.
"""
import base64
import json
import logging
import pickle
import types

import orjson

PROPERTY = "C18"
LEVEL_TEXT = ("Lean theorems over Model/Gateway.lean (JobRouter, handle_fe, handle_controller and the serve poll loop): for every history of "
              "handled events the shown progress is the first-received among the progress reports naming the job with the greatest timestamp "
              "(shutdown notices never erase it), the result for (job,dataset) is the last accepted upload for exactly that pair or an error, "
              "ids handed out are pairwise distinct, the tracked jobs are exactly the ids handed out, a query naming an id that was never handed "
              "out is answered with an error and leaves the state unchanged; at the serve level every history of poll rounds without a malformed "
              "frontend message keeps the loop alive, every event is answered in kind, the state is the flat run over the handled events, a "
              "closed job socket is never read again. Unbounded in history length and number of jobs; tied to the real serve loop by a "
              "round-by-round correspondence check. Carried by the tie only: that a Python exception inside a try block becomes the error "
              "response / log line the model assumes.")
LEVEL_NOTE = ("modelled, not verified: router.py JobRouter/spawn_job, server.py handle_fe/handle_controller/serve; zmq sockets/poller, "
              "subprocess.Popen and uuid4 are replaced by fakes (Popen validates argv like the real one); pickle/orjson/pydantic are exercised "
              "by the real parse/serialize functions but trusted; slurm launches are not exercised")
TECHNIQUE = ("Lean 4 proof by induction over event histories and poll rounds (refinement to 'newest timestamp wins' / 'last upload wins' / "
             "batch loop to flat run) + differential correspondence with the real serve loop")
LEAN_PROPS = ["EkwVerif.Props.C18"]
LEAN_DRIVERS = ["C18"]
RULE = ("random histories of poll rounds (1-3 ready sockets each) over 1-5 jobs: submit (uuid candidates incl. collisions; launch failures: "
        "bad spec / OSError from Popen), controller reports (progress / result upload / shutdown; timestamps 0..15 with reordering, ties and "
        "duplicates, some negative or >= 2^63; payloads of 0..70000 bytes; reports naming another, an unknown or a not-yet-spawned job; reports "
        "arriving on another job's socket or on a closed socket; non-report bytes), frontend progress/result queries incl. unknown "
        "jobs/datasets, shutdown requests, malformed frontend bytes. non-trivial = history with >=2 progress reports for one job out of "
        "timestamp order, a result upload, a report on a foreign socket or a report naming an unknown job; distinct by content hash")
ASSUMPTIONS = [
    "zmq sockets and the poller are replaced by in-process fakes: the poller reports a socket only while it is registered, one message per socket and round",
    "subprocess.Popen is replaced by a fake that validates argv as CPython does and records it; uuid4 is replaced by a scripted candidate stream; slurm launches are not exercised",
    "frontend messages are instances of the API request classes: bytes that parse_request rejects end the serve loop (modelled as `malformed`, compared by the tie, outside the oracle)",
    "oracle domain: timestamps of progress reports are non-negative (time.monotonic_ns); shutdown notices carry no uploads (Reporter.shutdown)",
]

LEGAL_OUT = ("spawned", "progress", "result", "bye", "reported", "died")


# ----------------------------------------------------------------------------- fakes

class _EndOfScript(BaseException):
    pass


class FakeSocket:
    def __init__(self, run, kind, n):
        self.run = run
        self.kind = kind
        self.n = n
        self.inbox = []
        self.addr = None
        self.closed = False

    def bind(self, url):
        self.addr = url

    def bind_to_random_port(self, addr):
        port = 20000 + self.n
        self.addr = f"{addr}:{port}"
        self.run.bound_now.append(self)
        return port

    def recv(self):
        tag, msg = self.inbox.pop(0)
        self.run.current = tag
        self.run.consumed.add(tag)
        return msg

    def send(self, b):
        self.run.sent.setdefault(self.run.current, []).append(b)

    def close(self, *a, **k):
        self.closed = True

    def set(self, *a, **k):
        pass

    setsockopt = set


class FakeCtx:
    def __init__(self, run):
        self.run = run

    def socket(self, kind):
        s = FakeSocket(self.run, kind, len(self.run.sockets))
        self.run.sockets.append(s)
        return s


class FakePoller:
    """zmq.Poller semantics that matter: only registered sockets are ever reported; unregister of an absent socket raises KeyError."""

    def __init__(self, run):
        self.run = run
        self.registered = []

    def register(self, s, flags=None):
        if s not in self.registered:
            self.registered.append(s)
        self.run.registered_by.setdefault(self.run.current, []).append(s)

    def unregister(self, s):
        if s not in self.registered:
            raise KeyError(s)
        self.registered.remove(s)

    def poll(self, timeout=None):
        return self.run.next_poll(self)


class FakePopenError(OSError):
    pass


class _LogTap(logging.Handler):
    def __init__(self, run):
        super().__init__(level=logging.WARNING)
        self.run = run

    def emit(self, record):
        if record.levelno >= logging.ERROR:
            self.run.errors.setdefault(self.run.current, []).append(record.getMessage()[:120])


def _ds(d):
    from cascade.low.core import DatasetId
    t, o = d.split("|")
    return DatasetId(task=t, output=o)


MALFORMED = {
    "bytes": b"\xff\xfe not json",
    "clazz": orjson.dumps({"clazz": "NopeRequest"}),
    "response": orjson.dumps({"clazz": "ShutdownResponse", "error": None}),
    "fields": orjson.dumps({"clazz": "JobProgressRequest"}),
}


class ServeRun:
    """One run of the real `serve` over a scripted sequence of poll rounds."""

    def __init__(self, batches):
        self.batches = batches
        self.sockets = []
        self.current = None
        self.consumed = set()
        self.sent = {}
        self.errors = {}
        self.bound_now = []
        self.launches = []          # (tag, argv) of successful Popen calls
        self.launch_tries = []      # (tag, argv or None) of every Popen call
        self.addr_of = {}           # job id -> address its controller was told to report to
        self.cands = []
        self.round = -1
        self.ready_tags = []        # per round: tags delivered to a ready socket
        self.unready_tags = set()
        self.poller = None
        self.death = None
        self.phase = "running"
        self.bound_by = {}          # tag -> sockets bound while that event was handled
        self.registered_by = {}     # tag -> sockets registered with the poller while that event was handled
        self.fail_now = None

    # -- fakes wired into the real modules
    def _uuid(self):
        run = self

        class U:
            def __init__(s, v):
                s.v = v
                s.hex = v          # uuid.UUID offers both str() and .hex

            def __str__(s):
                return s.v
        if not run.cands:
            raise RuntimeError("uuid stream exhausted")
        return U(run.cands.pop(0))

    def _popen(self, argv, *a, **k):
        tag = self.current
        if self.fail_now == "oserror":
            self.launch_tries.append((tag, None))
            raise FakePopenError(2, "No such file or directory: 'python'")
        # CPython's subprocess: every element of args must be str, bytes or os.PathLike
        import os
        for x in argv:
            if not isinstance(x, (str, bytes, os.PathLike)):
                self.launch_tries.append((tag, None))
                raise TypeError(f"expected str, bytes or os.PathLike object, not {type(x).__name__}")
        self.launch_tries.append((tag, list(argv)))
        self.launches.append((tag, list(argv)))
        argv = [x if isinstance(x, str) else os.fsdecode(x) for x in argv]
        if "--report_address" in argv:
            val = argv[argv.index("--report_address") + 1]
            addr, _, jid = val.partition(",")
            self.addr_of[jid] = addr
        return types.SimpleNamespace(pid=4242, poll=lambda: None, wait=lambda *a, **k: 0)

    def _sock_at(self, addr):
        for s in self.sockets:
            if s.addr == addr and s.kind != self.fe_kind:
                return s
        return None

    # -- the scripted poller
    def _encode(self, ev):
        import cascade.gateway.api as api
        from cascade.controller.report import ControllerReport, serialize
        k = ev["k"]
        if k == "submit":
            fail = ev.get("fail")
            from cascade.low.core import JobInstance
            spec = api.JobSpec(benchmark_name=None if fail == "neither" else "x", envvars={},
                               job_instance=JobInstance(tasks={}, edges=[]) if fail == "both" else None,
                               workers_per_host=1, hosts=1, use_slurm=False)
            return self._req(api.SubmitJobRequest(job=spec))
        if k == "progress":
            return self._req(api.JobProgressRequest(job_ids=ev["ids"]))
        if k == "result":
            return self._req(api.ResultRetrievalRequest(job_id=ev["job"], dataset_id=_ds(ev["ds"])))
        if k == "shutdown":
            return self._req(api.ShutdownRequest())
        if k == "malformed":
            return MALFORMED[ev["how"]]
        if k == "report":
            rep = ControllerReport(ev["job"], ev["status"], ev["ts"], [(_ds(d), bytes.fromhex(b)) for d, b in ev["results"]])
            return serialize(rep)
        if k == "garbage":
            return b"\x00garbage" if ev["how"] == "unpicklable" else pickle.dumps({"not": "a report"})
        raise ValueError(k)

    @staticmethod
    def _req(req):
        d = req.model_dump(mode="json")
        d["clazz"] = type(req).__name__
        return orjson.dumps(d)

    def next_poll(self, poller):
        self._end_event()
        self.round += 1
        if self.round >= len(self.batches):
            raise _EndOfScript()
        ready = []
        tags = []
        for i, ev in enumerate(self.batches[self.round]):
            tag = (self.round, i)
            if ev["k"] in ("report", "garbage"):
                addr = self.addr_of.get(ev["owner"])
                sock = self._sock_at(addr) if addr is not None else None
            else:
                sock = self.fe
            if sock is None or sock not in poller.registered:
                self.unready_tags.add(tag)
                continue
            sock.inbox.append((tag, self._encode(ev)))
            ready.append((sock, 1))
            tags.append(tag)
        self.ready_tags.append(tags)
        return ready

    def _end_event(self):
        pass

    def _on_recv_submit(self, tag):
        r, i = tag
        ev = self.batches[r][i]
        self.bound_now = []
        self.bound_by[tag] = self.bound_now
        if ev["k"] == "submit":
            self.cands = list(ev["candidates"])
            self.fail_now = ev.get("fail")
        else:
            self.fail_now = None

    # -- run
    def run(self):
        import cascade.gateway.router as router
        import cascade.gateway.server as server
        import zmq
        run = self
        self.fe_kind = zmq.REP

        class ZmqShim:
            def __getattr__(s, name):
                return getattr(zmq, name)

            def Poller(s):
                run.poller = FakePoller(run)
                return run.poller
        ctx = FakeCtx(self)
        saved = {(m, n): getattr(m, n) for m, n in ((server, "get_context"), (server, "zmq"), (router, "get_context"),
                                                    (router, "subprocess"), (router, "uuid"), (router, "getfqdn"),
                                                    (router, "local_job_port"))}
        server.get_context = lambda: ctx
        server.zmq = ZmqShim()
        router.get_context = lambda: ctx
        router.subprocess = types.SimpleNamespace(Popen=self._popen, run=lambda *a, **k: (_ for _ in ()).throw(FakePopenError(1, "no slurm here")))
        router.uuid = types.SimpleNamespace(uuid4=self._uuid)
        router.getfqdn = lambda: "gw"
        # recv hook: set up the per-event scripted inputs when the event is taken from the socket
        orig_recv = FakeSocket.recv

        def recv(sock):
            msg = orig_recv(sock)
            run._on_recv_submit(run.current)
            return msg
        FakeSocket.recv = recv
        lg = logging.getLogger("cascade")
        tap = _LogTap(self)
        old = (lg.propagate, lg.level, list(lg.handlers))
        lg.handlers = [tap]
        lg.propagate = False
        lg.setLevel(logging.WARNING)
        was_disabled = logging.root.manager.disable
        logging.disable(logging.NOTSET)      # the check's cli silences logging globally; the log is an output here
        try:
            try:
                server.serve("tcp://gw:1")
                self.phase = "stopped"
            except _EndOfScript:
                self.phase = "running"
            except Exception as e:     # the gateway process would end here
                self.phase = "dead"
                self.death = (self.current, type(e).__name__, str(e)[:100])
        finally:
            FakeSocket.recv = orig_recv
            lg.propagate, lg.handlers = old[0], old[2]
            logging.disable(was_disabled)
            lg.setLevel(old[1])
            for (m, n), v in saved.items():
                setattr(m, n, v)
        return self._outs()

    @property
    def fe(self):
        return self.sockets[0] if self.sockets else None

    def _outs(self):
        outs = []
        for r, batch in enumerate(self.batches):
            row = []
            for i, ev in enumerate(batch):
                tag = (r, i)
                if r > self.round or r >= len(self.ready_tags):
                    row.append("notServed")          # the loop had ended before this poll round
                elif tag in self.unready_tags:
                    row.append("notRead")
                elif tag not in self.consumed:
                    row.append("lost" if self.phase == "dead" else "ignored")
                elif self.death is not None and self.death[0] == tag:
                    row.append({"died": self.death[1], "msg": self.death[2]})
                else:
                    row.append(self._out_of(tag, ev))
            outs.append(row)
        return outs

    def _out_of(self, tag, ev):
        k = ev["k"]
        if k in ("report", "garbage"):
            return {"reported": "error" if self.errors.get(tag) else "ok"}
        sent = self.sent.get(tag, [])
        if len(sent) != 1:
            return {"responses": len(sent)}
        rsp = orjson.loads(sent[0])
        want = {"submit": "SubmitJobResponse", "progress": "JobProgressResponse", "result": "ResultRetrievalResponse",
                "shutdown": "ShutdownResponse"}.get(k)
        if rsp.get("clazz") != want:
            return {"badclazz": rsp.get("clazz")}
        if k == "submit":
            o = {"spawned": rsp["job_id"]}
            if rsp["job_id"] is None:
                o["error"] = (rsp["error"] or "")[:80]
            elif rsp["error"] is not None:
                o["error_and_id"] = True
            return o
        if k == "progress":
            if rsp["error"] is not None:
                return {"progress": None}
            return {"progress": [[a, b] for a, b in rsp["progresses"].items()]}
        if k == "result":
            if rsp["error"] is not None:
                return {"result": None}
            return {"result": base64.b64decode(rsp["result"]).hex()}
        if k == "shutdown":
            return {"bye": rsp["error"] is None}
        return {"unexpected": k}


def run_real(batches):
    run = ServeRun(batches)
    try:
        outs = run.run()
    except Exception as e:   # harness trouble is reported as a result, never a crash of the check
        outs = [[{"harness": f"{type(e).__name__}: {e}"[:200]} for _ in b] for b in batches]
    return outs, run


# ----------------------------------------------------------------------------- generator

POOL = ["j%d" % i for i in range(6)]
# dataset ids incl. dotted task/output names whose repr ("task.output") coincide: ("a.b","c") vs ("a","b.c")
DSS = ["t%d|o%d" % (i, k) for i in range(2) for k in range(2)] + ["a.b|c", "a|b.c"]


def _payload(rng, cnt):
    r = rng.random()
    if r < 0.10:
        n = 0
    elif r < 0.68:
        n = 1
    elif r < 0.88:
        n = rng.randint(2, 8)
    elif r < 0.996:
        n = 300
    else:
        n = 70000
    cnt("payload_bytes:%s" % (n if n in (0, 1, 300, 70000) else "2-8"))
    if n <= 8:
        return "".join("%02x" % rng.randint(0, 255) for _ in range(n))
    seed = rng.randint(0, 255)
    return "".join("%02x" % ((seed + 7 * i) % 256) for i in range(n))


def _ts(rng, cnt):
    r = rng.random()
    if r < 0.90:
        cnt("ts:0-15")
        return rng.randint(0, 15)
    if r < 0.95:
        cnt("ts:negative")
        return -rng.randint(1, 3)
    cnt("ts:>=2^63")
    return rng.choice([2 ** 63, 2 ** 63 + rng.randint(1, 3), 10 ** 30 + rng.randint(0, 2)])


def gen_history(rng, nops, cnt=lambda k, n=1: None):
    batches = [[{"k": "submit", "candidates": [POOL[0]], "fail": None}]]
    ids = [POOL[0]]          # ids the generator believes are handed out (a guide for the distribution only)
    made = 1
    while made <= nops:
        size = 1 if rng.random() < 0.75 else (2 if rng.random() < 0.72 else 3)
        batch = []
        socks = set()
        for _ in range(size):
            ev = _gen_event(rng, ids, made / max(1, nops), cnt)
            sock = ev.get("owner", "fe") if ev["k"] in ("report", "garbage") else "fe"
            if sock in socks:
                continue            # a poller reports a socket once per round
            socks.add(sock)
            batch.append(ev)
            made += 1
            if ev["k"] == "report" and rng.random() < 0.15:
                batches.append(batch)
                batch = [dict(ev)]   # duplicate delivery, next round
                cnt("duplicate_delivery")
                made += 1
                break
        if batch:
            batches.append(batch)
    return batches


def _gen_event(rng, ids, progress_frac, cnt):
    r = rng.random()
    if r < 0.12:
        c = [rng.choice(ids) for _ in range(rng.randint(0, 2))] + [rng.choice(POOL)] + ["z%d" % len(ids)]
        f = rng.random()
        fail = None if f < 0.78 else ("oserror" if f < 0.90 else ("neither" if f < 0.95 else "both"))
        if fail is None:
            ids.append(next(x for x in c if x not in ids))
        cnt("submit:" + (fail or "ok"))
        return {"k": "submit", "candidates": c, "fail": fail}
    if r < 0.62:
        u = rng.random()
        if u < 0.90:
            j = rng.choice(ids)
            cnt("report:names-known-job")
        elif u < 0.95:
            j = "nope"
            cnt("report:names-unknown-job")
        else:
            j = rng.choice(POOL)          # maybe not (yet) spawned
            cnt("report:names-pool-id")
        owner = j if (j in ids and rng.random() < 0.88) else rng.choice(ids)
        if owner != j:
            cnt("report:on-foreign-socket")
        k = rng.random()
        if k < 0.57:
            status = "%d.00" % rng.randint(0, 99)
        elif k < 0.60:
            status = rng.choice(["shutdown", "Shutdown ", "", "100.00", "Shutdowné"])
            cnt("report:odd-progress-string")
        elif k < 0.88:
            status = None
        else:
            status = "Shutdown"
        res = []
        if (status is None and rng.random() < 0.93) or (status is not None and rng.random() < 0.1):
            res = [[rng.choice(DSS), _payload(rng, cnt)] for _ in range(rng.randint(1, 2))]
        if status is None and not res:
            cnt("report:empty")
        return {"k": "report", "owner": owner, "job": j, "status": status, "ts": _ts(rng, cnt), "results": res}
    if r < 0.78:
        if rng.random() < 0.4:
            q = []
        else:
            q = [rng.choice(ids + ["nope"] if rng.random() < 0.2 else ids) for _ in range(rng.randint(1, 3))]
        return {"k": "progress", "ids": q}
    if r < 0.96:
        return {"k": "result", "job": rng.choice(ids + ["nope"]) if rng.random() < 0.15 else rng.choice(ids), "ds": rng.choice(DSS + ["t9|o9"])}
    if r < 0.975:
        return {"k": "garbage", "owner": rng.choice(ids), "how": rng.choice(["unpicklable", "wrong-type"])}
    # loop-ending events: rare, and mostly late in the history
    if rng.random() < 0.3 + 0.7 * progress_frac:
        if rng.random() < 0.6:
            return {"k": "shutdown"}
        return {"k": "malformed", "how": rng.choice(sorted(MALFORMED))}
    return {"k": "progress", "ids": []}


# ----------------------------------------------------------------------------- oracle

def _trigger(ev, orc):
    k = ev["k"]
    if k == "report":
        if ev["job"] not in orc.ids:
            return "report-naming-unknown-job"
        if ev["status"] == "Shutdown" and ev["job"] in orc.shut:
            return "second-shutdown-notice"
        if ev["owner"] != ev["job"]:
            return "report-on-foreign-socket"
        return "report"
    if k == "progress":
        return "progress-query-unknown-job" if any(j not in orc.ids for j in ev["ids"]) else "progress-query"
    if k == "result":
        return "result-query-unknown-job" if ev["job"] not in orc.ids else "result-query"
    return k


class Oracle:
    """Reference from the property text only. Sees events, responses, consumption of messages, launch commands."""

    def __init__(self):
        self.ids = []          # ids handed out by submit responses, in order
        self.prog = {}         # job -> list of (ts, progress) received for it
        self.negts = set()     # jobs that received a progress report with a negative timestamp (outside the domain)
        self.res = {}          # (job, ds) -> set of acceptable answers (hex or None)
        self.shut = set()      # jobs whose shutdown notice was received
        self.alive = True      # no shutdown request answered yet
        self.in_domain = True

    def check_round(self, batch, outs, run, r):
        """Returns (kind, signature-extras, text) of the first failure in this poll round, or None."""
        alive0 = self.alive
        open0 = {j for j in self.ids if j not in self.shut}
        for i, (ev, out) in enumerate(zip(batch, outs)):
            if not self.in_domain:
                return None
            k = ev["k"]
            if k in ("malformed", "garbage"):
                self.in_domain = False        # not a request / not a report: outside the property
                return None
            f = self._event(ev, out, run, (r, i), alive0 and self.alive, open0)
            if f:
                return f
        return None

    def _event(self, ev, out, run, tag, alive, open0):
        k = ev["k"]
        is_ctrl = k == "report"
        must = alive and (not is_ctrl or (ev["owner"] in open0 and ev["owner"] not in self.shut))
        served = isinstance(out, dict) and not ("died" in out)
        if isinstance(out, dict) and "harness" in out:
            return ("harness-error", {}, out["harness"])
        if must and not served:
            trig = _trigger(ev, self)
            if isinstance(out, dict):
                return ("gateway-died", {"trigger": trig, "exc": out["died"]},
                        f"the gateway process ended with {out['died']}({out.get('msg')}) while handling {ev}: no job is served any more")
            return ("not-served", {"trigger": trig, "how": out}, f"{ev} should have been handled by the running gateway but was {out}")
        if not served:
            return None
        if k == "submit":
            return self._submit(ev, out, run, tag)
        if k == "shutdown":
            self.alive = False
            if out.get("bye") is not True:
                return ("bad-response", {"to": k}, f"shutdown request answered with {out}")
            return None
        if k == "progress":
            return self._progress(ev, out)
        if k == "result":
            return self._result(ev, out)
        if k == "report":
            return self._report(ev, out)
        return None

    def _submit(self, ev, out, run, tag):
        if "spawned" not in out:
            return ("bad-response", {"to": "submit"}, f"submit answered with {out}")
        j = out["spawned"]
        if j is None:
            if ev.get("fail") is None:
                err = out.get("error", "")
                return ("spawn-failed", {"error": err.split("(")[0]},
                        f"a well-formed submit (launch command accepted by the OS) was refused: {err}")
            return None
        if out.get("error_and_id"):
            return ("bad-response", {"to": "submit"}, "submit response carries both a job id and an error")
        if j in self.ids:
            return ("id-reused", {}, f"submit returned id {j!r} already handed out")
        self.ids.append(j)
        self.prog[j] = []
        # the controller of the new job must be told this id and an address the gateway listens on for it
        mine = [argv for t, argv in run.launches if t == tag]
        if len(mine) != 1 or "--report_address" not in mine[0]:
            return ("spawn-misaddressed", {}, f"submit answered with id {j!r} but launched {len(mine)} controller(s) with a report address")
        val = mine[0][mine[0].index("--report_address") + 1]
        bound = [s for s in run.bound_by.get(tag, []) if s in run.registered_by.get(tag, [])]
        if val not in [f"{s.addr},{j}" for s in bound]:
            return ("spawn-misaddressed", {}, f"job {j!r}: controller told to report to {val!r}; sockets bound and polled for it: {[s.addr for s in bound]}")
        return None

    def _progress(self, ev, out):
        if "progress" not in out:
            return ("bad-response", {"to": "progress"}, f"progress query answered with {out}")
        q = ev["ids"]
        if any(j not in self.ids for j in q):
            if out["progress"] is not None:
                return ("unknown-job-no-error", {}, f"progress query {q} naming an unknown job got {out}")
            return None
        if out["progress"] is None:
            return ("known-job-error", {}, f"progress query {q} failed")
        got = dict(out["progress"])
        if not q:
            extra = sorted(set(got) - set(self.ids))
            if extra:
                return ("phantom-job", {}, f"the gateway shows progress for {extra}: ids it never handed out (handed out: {self.ids})")
            q = list(self.ids)
        missing = [j for j in q if j not in got]
        if missing:
            return ("job-forgotten", {}, f"progress query: no entry for {missing}")
        for j in q:
            if j in self.negts:
                continue
            rs = self.prog[j]
            if not rs:
                ok = {"0.00"}
            else:
                m = max(t for t, _ in rs)
                ok = {p for t, p in rs if t == m}
            if got.get(j) not in ok:
                return ("stale-progress", {}, f"job {j}: shown {got.get(j)!r}, reports with the greatest timestamp carry {sorted(ok)}")
        return None

    def _result(self, ev, out):
        if "result" not in out:
            return ("bad-response", {"to": "result"}, f"result query answered with {out}")
        key = (ev["job"], ev["ds"])
        want = self.res.get(key, {None})
        if out["result"] not in want:
            if want == {None}:
                return ("unknown-dataset-no-error" if ev["job"] in self.ids else "unknown-job-no-error", {},
                        f"result query for {key}: nothing was uploaded for it, got {_short(out['result'])}")
            return ("wrong-result", {"size": _size_class(want)}, f"result for {key}: got {_short(out['result'])}, uploaded {sorted(_short(w) for w in want)}")
        return None

    def _report(self, ev, out):
        j = ev["job"]
        if j not in self.ids:
            return None               # names no job of this gateway: ignored (it must only not stop the gateway)
        second = ev["status"] == "Shutdown" and j in self.shut
        if out.get("reported") != "ok" and not second:
            return ("report-rejected", {}, f"report {_short_ev(ev)} for the known job {j} was rejected")
        if ev["status"] == "Shutdown":
            self.shut.add(j)
        elif ev["status"] is not None:
            self.prog[j].append((ev["ts"], ev["status"]))
            if ev["ts"] < 0:
                self.negts.add(j)
        for d, b in ev["results"]:
            if ev["status"] == "Shutdown":      # outside the domain: either outcome is accepted
                self.res[(j, d)] = set(self.res.get((j, d), {None})) | {b}
            else:
                self.res[(j, d)] = {b}
        return None


def _short(x):
    if isinstance(x, str) and len(x) > 24:
        return f"{x[:16]}…({len(x) // 2} bytes)"
    return x


def _short_ev(ev):
    e = dict(ev)
    if "results" in e:
        e["results"] = [[d, _short(b)] for d, b in e["results"]]
    return e


def _size_class(want):
    n = max((len(w) // 2 for w in want if w is not None), default=0)
    return "empty" if n == 0 else ("small" if n <= 8 else "large")


def run_history(batches, phase=None):
    """Run on the real code; returns (outs per round, first oracle failure or None)."""
    outs, run = run_real(batches)
    if phase is not None:
        phase.append(run.phase)
    orc = Oracle()
    for r, (batch, row) in enumerate(zip(batches, outs)):
        f = orc.check_round(batch, row, run, r)
        if f:
            return outs, (f[0], f[1], f[2], r)
    return outs, None


def shrink(batches, pred, budget=400):
    """Greedy delta-debugging: drop whole rounds, then single events."""
    cur = [list(b) for b in batches]
    changed = True
    while changed and budget > 0:
        changed = False
        for i in range(len(cur) - 1, -1, -1):
            cand = cur[:i] + cur[i + 1:]
            budget -= 1
            if cand and pred(cand):
                cur = cand
                changed = True
        for i in range(len(cur) - 1, -1, -1):
            if i >= len(cur) or len(cur[i]) < 2:
                continue
            for k in range(len(cur[i]) - 1, -1, -1):
                cand = cur[:i] + [cur[i][:k] + cur[i][k + 1:]] + cur[i + 1:]
                budget -= 1
                if pred(cand):
                    cur = cand
                    changed = True
                    break
    return cur


# ----------------------------------------------------------------------------- model side

def _lean_ev(ev):
    e = dict(ev)
    if e["k"] == "submit":
        e["fail"] = e.get("fail") is not None
    return e


def _model_outs(histories):
    from ekw.core import lean_drive
    lines = []
    for bs in histories:
        lines.append(json.dumps({"op": "reset"}))
        lines += [json.dumps({"op": "poll", "events": [_lean_ev(e) for e in b]}) for b in bs]
    res = lean_drive("C18", lines)
    outs = []
    k = 0
    for bs in histories:
        k += 1
        outs.append([json.loads(x) for x in res[k:k + len(bs)]])
        k += len(bs)
    return outs


def _canon(o):
    if isinstance(o, dict):
        if isinstance(o.get("progress"), list):
            return {"progress": sorted({tuple(x) for x in o["progress"]})}
        if "died" in o:
            return {"died": True}
        if "spawned" in o:
            return {"spawned": o["spawned"]}
    return o


def legacy_to_batches(ops):
    """Histories of the first version of this check (one handler call per op) as poll rounds of one event."""
    out = []
    for o in ops:
        k = o["op"]
        if k == "spawn":
            out.append([{"k": "submit", "candidates": o["candidates"], "fail": None}])
        elif k == "report":
            out.append([{"k": "report", "owner": o["job"], "job": o["job"], "status": o["status"], "ts": o["ts"], "results": o["results"]}])
        elif k == "progress":
            out.append([{"k": "progress", "ids": o["ids"]}])
        elif k == "result":
            out.append([{"k": "result", "job": o["job"], "ds": o["ds"]}])
    return out


# witnesses that are replayed on every run (found by this check on the tree before the fix: commits; kept as regression inputs)
WITNESSES = [
    # a report naming a job this gateway never spawned (stale controller of an earlier gateway on a reused port)
    [[{"k": "submit", "candidates": ["j0"], "fail": None}],
     [{"k": "report", "owner": "j0", "job": "nope", "status": "50.00", "ts": 3, "results": []}],
     [{"k": "progress", "ids": ["j0"]}]],
    [[{"k": "submit", "candidates": ["j0"], "fail": None}],
     [{"k": "report", "owner": "j0", "job": "nope", "status": None, "ts": 3, "results": [["t0|o0", "aa"]]}],
     [{"k": "result", "job": "j0", "ds": "t0|o0"}]],
    # a second shutdown notice for a job (arriving through another job's socket)
    [[{"k": "submit", "candidates": ["j0"], "fail": None}], [{"k": "submit", "candidates": ["j1"], "fail": None}],
     [{"k": "report", "owner": "j0", "job": "j0", "status": "Shutdown", "ts": 5, "results": []}],
     [{"k": "report", "owner": "j1", "job": "j0", "status": "Shutdown", "ts": 6, "results": []}],
     [{"k": "progress", "ids": []}]],
    # a failed launch must not leave a tracked job behind
    [[{"k": "submit", "candidates": ["j0"], "fail": None}], [{"k": "submit", "candidates": ["j1"], "fail": "oserror"}],
     [{"k": "progress", "ids": []}], [{"k": "submit", "candidates": ["j1"], "fail": None}], [{"k": "progress", "ids": []}]],
    # shutdown request in the middle of a poll round: the rest of the round is still handled, then the loop ends
    [[{"k": "submit", "candidates": ["j0"], "fail": None}],
     [{"k": "shutdown"}, {"k": "report", "owner": "j0", "job": "j0", "status": "10.00", "ts": 1, "results": []}],
     [{"k": "progress", "ids": []}]],
    # a socket closed earlier in the same round is still read in that round
    [[{"k": "submit", "candidates": ["j0"], "fail": None}], [{"k": "submit", "candidates": ["j1"], "fail": None}],
     [{"k": "report", "owner": "j1", "job": "j0", "status": "Shutdown", "ts": 5, "results": []},
      {"k": "report", "owner": "j0", "job": "j0", "status": "70.00", "ts": 9, "results": [["a.b|c", ""]]}],
     [{"k": "report", "owner": "j0", "job": "j0", "status": "80.00", "ts": 10, "results": []}],
     [{"k": "progress", "ids": ["j0"]}, ], [{"k": "result", "job": "j0", "ds": "a.b|c"}], [{"k": "result", "job": "j0", "ds": "a|b.c"}]],
]


def _classify(batches):
    flat = [e for b in batches for e in b]
    reps = [e for e in flat if e["k"] == "report" and e["status"] not in (None, "Shutdown")]
    ooo = any(a["job"] == b["job"] and a["ts"] > b["ts"] for i, a in enumerate(reps) for b in reps[i + 1:])
    upl = any(e["k"] == "report" and e["results"] for e in flat)
    foreign = any(e["k"] == "report" and e["owner"] != e["job"] for e in flat)
    return flat, ooo, upl, foreign


def correspond(ctx):
    n = ctx.budget(500, 12000)
    maxops = ctx.budget(25, 80)
    hist = []
    import glob
    from ekw.core import CORPUS_DIR
    for f in sorted(glob.glob(str(CORPUS_DIR / "C18_*.json"))):
        c = json.load(open(f))
        hist.append(c["batches"] if "batches" in c else legacy_to_batches(c["ops"]))
    hist += [json.loads(json.dumps(w)) for w in WITNESSES]
    for _ in range(n):
        hist.append(gen_history(ctx.rng, ctx.rng.randint(3, maxops), ctx.count))
    real_outs = []
    real_phase = []
    seen_sig = set()
    for batches in hist:
        outs, fail = run_history(batches, real_phase)
        real_outs.append(outs)
        ctx.count("final_phase:" + real_phase[-1])
        flat, ooo, upl, foreign = _classify(batches)
        ctx.case({"batches": batches[:8], "n_rounds": len(batches), "n_events": len(flat)}, nontrivial=ooo or upl or foreign)
        ctx.count("histories")
        ctx.count("events", len(flat))
        for b in batches:
            ctx.count("round_size:%d" % len(b))
        for e in flat:
            ctx.count("ev:" + e["k"])
        if ooo:
            ctx.count("histories_with_out_of_order_reports")
        for row in outs:
            for o in row:
                if isinstance(o, str):
                    ctx.count("out:" + o)
                elif "died" in o:
                    ctx.count("out:died")
                elif o.get("reported") == "error":
                    ctx.count("out:report-error-logged")
                elif o.get("progress", 1) is None or o.get("result", 1) is None or ("spawned" in o and o["spawned"] is None):
                    ctx.count("out:error-response")
        if fail:
            sig = dict(fail[1])
            sig["kind"] = fail[0]
            key = json.dumps(sig, sort_keys=True)
            if key in seen_sig and len(seen_sig) < 50:
                ctx.violation(sig, {"batches": batches}, fail[2])      # same signature: reported once by core, unshrunk is fine
                continue
            seen_sig.add(key)

            def same(c, sig=sig):
                f = run_history(c)[1]
                return f is not None and dict(f[1], kind=f[0]) == sig
            small = shrink(batches, same)
            f2 = run_history(small)[1]
            ctx.violation(sig, {"batches": small}, f2[2] if f2 else fail[2])
    model_outs = _model_outs(hist)
    for batches, ro, ph, mo in zip(hist, real_outs, real_phase, model_outs):
        ctx.traces += 1
        for i, (a, b) in enumerate(zip(ro, mo)):
            ca = [_canon(x) for x in a]
            cb = [_canon(x) for x in b.get("outs", [])] if isinstance(b, dict) else b
            if ca != cb:
                ctx.disagree("gateway-poll-round", {"batches": batches[:i + 1]}, b, a)
                break
        else:
            if mo and isinstance(mo[-1], dict) and mo[-1].get("phase") != ph:
                ctx.disagree("gateway-final-phase", {"batches": batches}, mo[-1].get("phase"), ph)


def replay(payload):
    case = payload["case"]
    batches = case["batches"] if "batches" in case else legacy_to_batches(case["ops"])
    outs, fail = run_history(batches)
    for b, row in zip(batches, outs):
        print("poll round:")
        for e, o in zip(b, row):
            print("   ", _short_ev(e), "->", {k: _short(v) for k, v in o.items()} if isinstance(o, dict) else o)
    print("oracle:", fail)
    return 1 if fail else 0
