"""C09 — shared-memory datasets keep their bytes, are protected in use, stay reachable.

Tie: as C08 (the REAL Manager / Disk / client buffers / LocalServer dispatch against Model/Shm.lean
after every op), with a generator profile that reads more, purges during reads, jumps over the
staleness window and ends most histories with the 'everybody finishes, retry the allocation' scenario.
Oracle (from the property text): bytes read == bytes written; no granted get before the writer
finished; while a young reader holds, the dataset stays in memory with its segment; a purge during
a read takes effect at the last close; an allocation that idle datasets could make room for is
granted after a bounded number of retries with all disk jobs completed in between.
"""
from ekw import sim_shm

PROPERTY = "C09"
LEVEL_TEXT = ("Lean theorems over Model/Shm.lean: content (granted get => the segment has the granted size and holds the writer's bytes, via the invariant "
              "in_memory/created => segment, on_disk => file, transitional => the one the pending job has not consumed yet; proved for all histories of "
              "the _partial class, counterexample c09_content_full_fails outside it), get answers wait before the writer's close and during page-out/in "
              "(every state), the ghost 'wrote' is set by the writer's create-and-write step and by no other step, winners of page_out_at_least are "
              "is_pageoutable and a dataset with a reader younger than STALE_READ is untouched by it (every state) and by EVERY step of every client "
              "and disk job except that reader's own close (all invariant states), purge during a read only sets delayed_purge and the last "
              "reader's close executes it (every state), lock discipline "
              "pageout_all held <=> pageout_count > 0 = number of pending page-out jobs after EVERY history (true only with the fix), eventual grant (quiescent reachable state, "
              "size <= capacity and <= free + evictable: add is granted at once or after the launched page-outs completed; composes lock "
              "discipline, 'the lottery frees enough', 'one job per winner', 'a completed page-out returns its size'). "
              "Unbounded histories, keys, clients; tied to the real Manager by a step-by-step correspondence check.")
LEVEL_NOTE = ("modelled, not verified: as C08. The history-level reading of 'not readable before the writer finished' has a known exception (a writer older "
              "than STALE_CREATE is treated as dead: known finding C09-stale-writer-readable); purge requests racing an in-flight disk job are the excluded "
              "class of the content theorem (known finding C08-purge-in-flight)")
TECHNIQUE = "Lean 4 invariant proof (induction over op histories) + differential correspondence of the real shm Manager with harness-controlled disk jobs"
LEAN_PROPS = ["EkwVerif.Props.C09"]
LEAN_DRIVERS = ["C08"]
RULE = ("as C08 with the read-heavy profile: more get / purge-during-read / clock jumps beyond STALE_READ, 80% of the histories end with 'all clients "
        "finish, all disk jobs complete, retry add up to 4 times' (the scenario that exposes a leaked pageout lock). non-trivial = history with a "
        "completed disk-job callback, a 'wait' answer or a granted get; distinct by content hash")
ASSUMPTIONS = [
    "request handlers and pool-thread callbacks are atomic steps (DESIGN section 3); a disk job is an I/O step plus a callback step",
    "the writer creates its segment with the granted size while its dataset is still 'created'",
    "time.time_ns and uuid.uuid4 are replaced by deterministic fakes; get_capacity() is stubbed; the per-process multiprocessing resource tracker is disabled in the harness process",
    "eventual grant is claimed for: key new, size <= capacity, size <= free + sizes of in_memory datasets without readers, all disk I/O succeeding",
]
KINDS = sim_shm.C09_KINDS


def correspond(ctx):
    n = ctx.budget(260, 6000)
    sim_shm.run_batch(ctx, KINDS, "c09", n, ctx.budget(80, 120), ctx.budget(5, 6), "C09_*.json")


def search(ctx, why):
    sim_shm.run_batch(ctx, KINDS, "c09", ctx.budget(600, 6000), 80, 5, "C09_none*.json")


def replay(payload):
    return sim_shm.replay_print(payload, KINDS)
