"""C09 — shared-memory datasets keep their bytes, are protected in use, stay reachable.

Tie: as C08 (the REAL Manager / Disk / client buffers / LocalServer dispatch against Model/Shm.lean
after every op), with a generator profile that reads more, purges during reads, jumps over the
staleness window and ends most histories with the 'everybody finishes, retry the allocation' scenario.
Oracle (from the property text): bytes read == bytes written; no granted get before the writer
finished; while a young reader holds, the dataset stays in memory with its segment; a purge during
a read takes effect at the last close; an allocation that idle datasets could make room for is
granted after a bounded number of retries with all disk jobs completed in between.
"""
from ekw import sim_shm

PROPERTY = "C09"
LEVEL_TEXT = ("Lean theorems over Model/Shm.lean. (a) content: granted get => the segment has the granted size and holds the writer's bytes, via the invariant "
              "in_memory/created => segment, on_disk => file, transitional => the one the pending job has not consumed yet; for all histories of the _partial class "
              "(SafeRun; counterexample c09_content_full_fails outside it), incl. key reuse: a page-out writes the CURRENT segment whatever file an earlier life left behind "
              "(c09_content_after_reuse). (b) not readable before the writer finished: history level -- in every SafeRun history in which writers close their own allocation "
              "and none is older than STALE_CREATE at an eviction attempt, a granted get is preceded by the close of that allocation's own writer "
              "(c09_readable_after_close_partial; both exclusions are necessary: c09_readable_after_close_full_fails = the two known findings); per state: get answers wait "
              "before the close and during page-out/in. (c) protection: winners of page_out_at_least are is_pageoutable; a dataset with a reader younger than STALE_READ is "
              "untouched by EVERY step of every client and disk job except that reader's own close (all invariant states). (d) a purge during a read only sets "
              "delayed_purge and the close that leaves no reader executes it (any number of readers; every in_memory state); false when the dataset was evicted under readers "
              "gone stale (c09_delayed_purge_stale_full_fails, known finding). (e) lock discipline (pageout_all held <=> a page-out job pending, counter = number of them) after EVERY history of HANDLER-ATOMIC steps "
              "(c09_lock_discipline), and at thread level for the counter itself: with the decrement split into acquire/read/write/test/release micro steps and the callbacks "
              "of a batch interleaving in every way, the counter ends at 0 and pageout_all is released exactly once, by the last one, when every callback takes pageout_one "
              "(c09_batch_lock_released_exact); false with the decrement outside the lock (c09_unlocked_decrement_full_fails: the lock is held for ever; the harness forces that "
              "window on the real callbacks); a batch in flight always ends "
              "(c09_batch_in_flight_ends, every history, any outcomes); a page-out returns its space whatever its outcome; eventual grant from ANY SafeRun-reachable state with "
              "ANY outcomes of the disk jobs, for add and for get of a dataset on disk (evict, page in, grant), and at the API the workers use: client.allocate returns the "
              "buffer after at most two requests and client.get of a dataset on disk after at most three when the environment completes the launched jobs during the "
              "pauses, for every timeout above 100 / 200 ms; TimeoutError only after the budget is used up (wait is never fatal); the buffer client.get returns closes with the reader id the store registered for that very read (c09_client_get_close_id). Unbounded histories, keys, clients; tied to the real Manager (brought up through server.entrypoint / LocalServer.__init__), the server loop LocalServer.start and the client layer step by step, "
              "on sampled histories of at most 80 (thorough 120) ops.")
LEVEL_NOTE = ("modelled, not verified: as C08. Known exceptions kept as _full_fails witnesses replayed on the real store: a writer older than STALE_CREATE is treated as dead "
              "(C09-stale-writer-readable), a dataset dropped while being written + key reuse (C09-purge-created-key-reuse), purge requests racing an in-flight disk job "
              "(C08-purge-in-flight, the excluded class SafeRun), a reader's close refused after eviction under stale readers (C09-stale-reader-close). Liveness is stated per "
              "retry with the environment completing the pending jobs in between (fairness of the disk threads is an argument, not proved); under steady read traffic the "
              "'last close' that executes a delayed purge need not come (no liveness claim). The eventual grant of get assumes the page-in itself succeeds")
TECHNIQUE = "Lean 4 invariant proof (induction over op histories) + differential correspondence of the real shm Manager with harness-controlled disk jobs"
LEAN_PROPS = ["EkwVerif.Props.C09"]
LEAN_DRIVERS = ["C08"]
RULE = ("as C08 with the read-heavy profile: more get / purge-during-read / clock jumps beyond and between the windows, 80% of the histories end with 'all clients "
        "finish, all disk jobs complete; every dataset still held is read again (up to 5 requests, bare or through the real client.get with its default timeout); an "
        "allocation of half to all of the capacity is retried up to 4 times (bare or through client.allocate)'. Datasets larger than the chunk size, size 0, real I/O "
        "failures, STALE_CREATE != STALE_READ, life-cycle histories (same key, same size, other bytes, across eviction and page-in) as in C08. The content oracle compares "
        "whole byte strings with a pattern that is not periodic in 256 or 4096. non-trivial = history with a completed disk-job callback, a 'wait' answer or a granted get")
ASSUMPTIONS = [
    "request handlers and pool-thread callbacks are atomic steps (free_space and pageout_count updates, the scan of Manager.datasets: see C08); a disk job is an I/O step plus a callback step",
    "the writer creates its segment with the granted size while its dataset is still 'created' (executed for real in the client ops)",
    "time.time_ns, uuid.uuid4, time.sleep and socket of the client module are replaced by deterministic fakes; get_capacity() is stubbed; the per-process multiprocessing resource tracker is disabled in the harness process; STALE_CREATE/STALE_READ are replaced by small, mostly different values",
    "eventual grant is claimed when every client has finished what it holds and the disk jobs complete between the attempts: any new key with size <= capacity; any dataset the store still holds",
    "explicit client timeouts are those for which the loop's float arithmetic makes the same number of attempts as exact arithmetic",
]
KINDS = sim_shm.C09_KINDS


def correspond(ctx):
    n = ctx.budget(260, 4000)
    sim_shm.run_batch(ctx, KINDS, "c09", n, ctx.budget(80, 120), ctx.budget(5, 6), "C09_*.json")


def search(ctx, why):
    sim_shm.run_batch(ctx, KINDS, "c09", ctx.budget(600, 6000), 80, 5, "C09_none*.json")


def replay(payload):
    return sim_shm.replay_print(payload, KINDS)
