"""C17 — every wire and file encoding round-trips over its whole value domain.

Proved part (shm api): translator `shm_api` (ekw/c17_translate.py) reads src/cascade/shm/api.py with `ast`
and regenerates lean/EkwVerif/Gen/ShmApi.lean; Model/Codec.lean interprets the table; Props/C17.lean
proves round trip + rejection generically and `SchemaOK Gen.shmApi` by `decide`.
Tie: the generated table + Lean codec must produce byte for byte what the real api.ser produces
and decode what api.deser decodes (also on truncated / corrupted bytes), which validates the
translator as well.
Oracle (property text only): decode(encode(m)) == m for every class and boundary value on the real
code; a value may be refused only if it is outside the admitted domain; nothing is ever altered.
Sampled part (pickle / pydantic / orjson): ekw/c17_sampled.py.
"""
import dataclasses
import enum
import glob
import hashlib
import json

PROPERTY = "C17"
LEVEL_TEXT = ("Lean theorems over Model/Codec.lean (generic interpreter of the ser/deser field sequences and the tag table of "
              "cascade.shm.api): for EVERY schema whose ser and deser sequences agree and EVERY value in the domain (unbounded integers "
              "and strings, by induction over the field list) decode(encode v) = v also with trailing bytes; every value outside the "
              "domain makes the encoder fail (never truncation); the table regenerated from src/cascade/shm/api.py on every run "
              "satisfies SchemaOK (ser = deser per class, distinct one-byte tags, every concrete class tagged, size and free-space "
              "fields >= 8 bytes, string length prefixes >= 4 bytes) by `decide`, hence every message of cascade.shm.api with sizes "
              "< 2^64 and ASCII strings < 2^32 round-trips (with a witness per class at 2^64-1). Tied to the real api.ser/api.deser byte "
              "for byte, also on corrupted input. Additionally the JSON shape of a job instance (Model/Json.lean: keys of job.dict()) "
              "is proved to load back to the same instance for jobs of any size and compared with the dump the real code writes.")
LEVEL_NOTE = ("proved: shm api (src/cascade/shm/api.py) through the generated table; modelled, not verified: the translator "
              "(validated each run by the byte-level comparison with the real code) and Model/Codec.lean. SAMPLED, NOT PROVED: executor "
              "messages (pickle; serde.py, comms.callback / ReliableSender.send / send_data -> Listener._recv_one incl. payload frames), "
              "controller reports (pickle), gateway request/response pairs (pydantic + orjson; request_response, parse_request, "
              "serialize_response) and JobInstance -> orjson.dumps(job.dict()) -> file -> JobInstance (router._spawn_local writer, "
              "benchmarks get_job reader) are round-tripped through the real code: a deterministic sweep (every class x every leaf x "
              "every boundary value / structured identifier / container shape) plus boundary-biased random values generated from the "
              "type annotations; decoded objects are compared FIELD BY FIELD (never by repr), and mappings whose order carries meaning "
              "(JobInstance.tasks, TaskDefinition.input_schema / output_schema, static_input_kw / static_input_ps) are compared WITH "
              "their order; pickle, pydantic and orjson themselves are trusted (Model/Json.lean models only the key layout of the job "
              "dump, not pydantic's coercions, orjson's number formatting nor the ORDER of object keys -- Lean's Json objects are "
              "sorted maps, the order is checked by the Python oracle only). The frame-sequence "
              "parser of comms.Listener is proved under C06, here it is only used as a pipe. String lengths compared with the real "
              "code reach 70 000 characters (2^32-1 is covered by the theorem only). The UDP transport of the shm protocol "
              "(recv(1024)) is outside the model.")
TECHNIQUE = ("Lean 4 proof by induction over field sequences (generic codec) + AST translator emitting the schema table checked by "
             "`decide` + byte-for-byte differential correspondence with the real api.ser/api.deser + round-trip oracle on the real code")
LEAN_PROPS = ["EkwVerif.Props.C17"]
LEAN_DRIVERS = ["C17"]
RULE = ("shm: (a) deterministic sweep: every class x every field x every boundary value (ints 0, 1, 2^8, 2^16, 2^31, 2^32-1, 2^32, "
        "2^32+1, 2^63, 2^64-1, 2^64, 2^64+1, 2^70, negatives; strings empty, md5-like, control chars, DEL, non-ASCII, lone surrogate, "
        "lengths 255/256/65535/65536/70000 for keys; enum members and non-members; wrong-typed values) with distinct values in the "
        "other fields; (b) random messages, boundary-biased; (c) decoding of truncated / corrupted / re-tagged byte strings. "
        "sampled families exec/report/gateway/job: (a) deterministic sweep, the same for every seed: per message class a base value with "
        "distinct fields and every variant that differs from it in ONE leaf -- ints at the 2^31/2^32/2^53/2^63/2^64 boundaries, "
        "identifier strings with the separators the code itself uses ('.', ',', ':', '/', '|', blanks), empty components, fully "
        "qualified host names, ip addresses, zmq addresses, unicode, NUL; container shapes (empty, duplicates, pairs of ids with EQUAL "
        "repr such as ('a.b','c') / ('a','b.c')); every str-keyed mapping with >= 2 keys declared in NON-sorted order "
        "(['b','a'], ['10','9','2'], ['upper','lower','__aux'], ...); (b) random values generated from the real type annotations, "
        "with the same structured shapes frequent (ids re-used / recombined inside one message), bytes payloads, multi-output "
        "tasks with positional and keyword edges, 11 positional static inputs; (c) fixed probes outside the JSON domain. A failing "
        "case is shrunk greedily before it is reported. "
        "non-trivial = message with at least one field carrying a non-default value; distinct by content hash")
ASSUMPTIONS = [
    "the translator recognises only declarative module-level code in api.py; behaviour installed at run time (monkeypatching inside a function) is seen by the byte-level comparison only",
    "shm messages travel in one datagram that is delivered whole (server/client use recv(1024); longer messages are outside the model)",
    "all int fields of cascade.shm.api carry byte counts (dataset size, free space): the admitted domain is 0 <= n < 2^64",
    "EmptyCommand is an abstract base (never sent): it need not be in the tag table",
    "zmq sockets, the poller, subprocess and open() of router/benchmarks are replaced by in-process fakes in the sampled part",
    "JSON domain for the sampled part: integers in [-2^63, 2^64), well-formed unicode, finite floats, JSON-native containers",
]
TRUSTED_EXTRA = ["pickle / cloudpickle / pydantic / orjson round trips are sampled through the real code, not modelled"]

TWO64 = 2 ** 64
INT_BOUNDS = [0, 1, 255, 256, 65535, 65536, 2**31 - 1, 2**31, 2**32 - 1, 2**32, 2**32 + 1, 2**40, 2**63 - 1, 2**63,
              2**64 - 1, 2**64, 2**64 + 1, 2**70, -1, -2**31]
STR_BOUNDS = ["", "a", "d41d8cd98f00b204e9800998ecf8427e", "\x00", "\x7f", "\x80", "é", "€", "\U0001f600", "a\ud800",
              "k" * 255, "k" * 256]
LONG_LENS = [65535, 65536, 70000]


# ----------------------------------------------------------------------------- translator

def translate(ctx):
    from ekw import core
    from ekw.c17_translate import translate_file
    tab = translate_file(core.REPO / "src/cascade/shm/api.py", core.LEAN_DIR / "EkwVerif/Gen/ShmApi.lean")
    ctx.extra["translator"] = {"classes": len(tab["msgs"]), "tags": len(tab["tags"]),
                               "ser_str": tab["str"]["ser"], "deser_str": tab["str"]["deser"]}


# ----------------------------------------------------------------------------- real side: shm api

def shm_classes():
    """runtime introspection of the real module (independent of the translator): {name: (class, [(field, type)], is_base)}"""
    import cascade.shm.api as api
    found = []
    for n, o in vars(api).items():
        if (isinstance(o, type) and o.__module__ == api.__name__ and not getattr(o, "_is_protocol", False)
                and callable(getattr(o, "ser", None)) and callable(getattr(o, "deser", None))):
            found.append((n, o))
    out = {}
    for n, o in found:
        fields = [(f.name, f.type) for f in dataclasses.fields(o)] if dataclasses.is_dataclass(o) else []
        is_base = any(o2 is not o and issubclass(o2, o) for _, o2 in found)
        out[n] = (o, fields, is_base)
    return out


def _is_enum(tp):
    return isinstance(tp, type) and issubclass(tp, enum.Enum)


def py_val(v, tp):
    if "i" in v:
        n = int(v["i"])
        if _is_enum(tp):
            try:
                return tp(n)
            except ValueError:
                return n
        return n
    return "".join(chr(c) for c in v["s"])


def canon_val(x):
    if isinstance(x, enum.Enum):
        return {"i": str(int(x.value))}
    if isinstance(x, bool):
        return {"other": repr(x)}
    if isinstance(x, int):
        return {"i": str(x)}
    if isinstance(x, str):
        return {"s": [ord(c) for c in x]}
    return {"other": repr(x)}


def err_name(e):
    if isinstance(e, OverflowError):
        return "overflow"
    if isinstance(e, UnicodeError):
        return "unicode"
    if isinstance(e, (AttributeError, TypeError)):
        return "type"
    if isinstance(e, KeyError):
        return "key"
    if isinstance(e, ValueError):
        return "value"
    return "other:" + type(e).__name__


def real_enc(case, classes=None):
    import cascade.shm.api as api
    classes = classes or shm_classes()
    try:
        cls, fields, _ = classes[case["cls"]]
        if len(fields) != len(case["vals"]):
            return {"err": "arity"}
        obj = cls(**{n: py_val(v, tp) for (n, tp), v in zip(fields, case["vals"])})
    except Exception as e:
        return {"err": "build:" + type(e).__name__}
    try:
        b = api.ser(obj)
    except Exception as e:
        return {"err": err_name(e)}
    if not isinstance(b, (bytes, bytearray)):
        return {"err": "other:not-bytes"}
    return {"ok": bytes(b).hex()}


def real_dec(hexs, classes=None):
    import cascade.shm.api as api
    classes = classes or shm_classes()
    try:
        m = api.deser(bytes.fromhex(hexs))
    except Exception as e:
        return {"err": err_name(e)}
    name = type(m).__name__
    if name not in classes or classes[name][0] is not type(m):
        return {"err": "other:unknown-class " + name}
    return {"ok": {"cls": name, "vals": [canon_val(getattr(m, n, None)) for n, _ in classes[name][1]]}}


# ----------------------------------------------------------------------------- oracle: shm api (from the property text)

def _in_domain(v, tp):
    """admitted domain: byte counts 0 <= n < 2^64; ASCII strings (length < 2^32); members of the enum"""
    if _is_enum(tp):
        if "i" not in v:
            return False
        try:
            tp(int(v["i"]))
            return True
        except ValueError:
            return False
    if tp is int:
        return "i" in v and 0 <= int(v["i"]) < TWO64
    if tp is str:
        return "s" in v and all(c < 128 for c in v["s"]) and len(v["s"]) < 2 ** 32
    return False


def shm_oracle(case, classes=None):
    """-> None | (signature, what)"""
    classes = classes or shm_classes()
    if case["cls"] not in classes:
        return None
    cls, fields, is_base = classes[case["cls"]]
    if is_base or len(fields) != len(case["vals"]):
        return None
    dom = [_in_domain(v, tp) for (n, tp), v in zip(fields, case["vals"])]
    e = real_enc(case, classes)
    if "err" in e:
        if e["err"].startswith("build:"):
            return None
        if all(dom):
            return ({"kind": "in-domain-value-rejected", "family": "shm", "cls": case["cls"], "error": e["err"]},
                    f"api.ser({_show(case, classes)}) raised {e['err']} although every field is inside the admitted domain")
        return None
    d = real_dec(e["ok"], classes)
    if "err" in d:
        return ({"kind": "decode-raised", "family": "shm", "cls": case["cls"], "error": d["err"]},
                f"api.deser(api.ser({_show(case, classes)})) raised {d['err']}")
    if d["ok"]["cls"] != case["cls"] or d["ok"]["vals"] != case["vals"]:
        kind = "roundtrip-mismatch" if all(dom) else "silently-altered"
        return ({"kind": kind, "family": "shm", "cls": case["cls"]},
                f"api.deser(api.ser({_show(case, classes)})) = {_show(d['ok'], classes)}")
    return None


def _show(case, classes):
    fields = classes.get(case["cls"], (None, [], False))[1]
    parts = []
    for i, v in enumerate(case["vals"]):
        n = fields[i][0] if i < len(fields) else f"#{i}"
        if "i" in v:
            parts.append(f"{n}={v['i']}")
        elif "s" in v:
            s = "".join(chr(c) for c in v["s"])
            parts.append(f"{n}={s!r}" if len(s) <= 40 else f"{n}=<str of {len(s)} chars {s[:8]!r}...>")
        else:
            parts.append(f"{n}={v}")
    return f"{case['cls']}({', '.join(parts)})"


def _default(tp, idx, name):
    """distinct, in-domain filler values (so that swapped fields show)"""
    if _is_enum(tp):
        return {"i": str(int(list(tp)[0].value))}
    if tp is int:
        return {"i": str(idx + 1)}
    return {"s": [ord(c) for c in name]}


def shm_shrink(case, kind, classes):
    cur = {"family": "shm", "cls": case["cls"], "vals": list(case["vals"])}
    fields = classes[case["cls"]][1]

    def bad(c):
        r = shm_oracle(c, classes)
        return r is not None and r[0]["kind"] == kind
    if not bad(cur):
        return cur
    for i, (n, tp) in enumerate(fields):
        for cand in ([{"i": "0"}] if tp is int else []) + [_default(tp, i, n)] + ([{"s": []}] if tp is str else []):
            c2 = dict(cur, vals=cur["vals"][:i] + [cand] + cur["vals"][i + 1:])
            if cand != cur["vals"][i] and bad(c2):
                cur = c2
                break
    for i, (n, tp) in enumerate(fields):
        v = cur["vals"][i]
        if tp is int and "i" in v:
            for b in sorted(x for x in INT_BOUNDS if 0 <= x < abs(int(v["i"]))):
                c2 = dict(cur, vals=cur["vals"][:i] + [{"i": str(b)}] + cur["vals"][i + 1:])
                if bad(c2):
                    cur = c2
                    break
        if tp is str and "s" in v and len(v["s"]) > 1:
            for cand in [[c] for c in v["s"][:50]] + [v["s"][:k] for k in (2, 4, 16, 256, 65536) if k < len(v["s"])]:
                c2 = dict(cur, vals=cur["vals"][:i] + [{"s": cand}] + cur["vals"][i + 1:])
                if bad(c2):
                    cur = c2
                    break
    return cur


# ----------------------------------------------------------------------------- generators: shm api

def _sv(s):
    return {"s": [ord(c) for c in s]}


def sweep_cases(classes, long_keys=True):
    out = []
    for cname, (cls, fields, is_base) in classes.items():
        base = [_default(tp, i, n) for i, (n, tp) in enumerate(fields)]
        out.append({"family": "shm", "cls": cname, "vals": list(base)})
        for i, (n, tp) in enumerate(fields):
            if _is_enum(tp):
                cands = [{"i": str(int(m.value))} for m in tp] + [{"i": str(x)} for x in (0, len(list(tp)) + 1, -1, 2**32)] + [_sv("ready")]
            elif tp is int:
                cands = [{"i": str(b)} for b in INT_BOUNDS] + [_sv("12")]
            else:
                cands = [_sv(s) for s in STR_BOUNDS] + [{"i": "7"}]
                if n == "key":      # key lengths around the 2-byte boundary (one class with all of them, the others with one)
                    lens = [4096] if not long_keys else (LONG_LENS if cname == "AllocateRequest" else [65536] if cname == "GetRequest" else [4096])
                    cands += [_sv("k" * L) for L in lens]
            for c in cands:
                out.append({"family": "shm", "cls": cname, "vals": base[:i] + [c] + base[i + 1:]})
    return out


_ALPHA = "abcdefghijklmnopqrstuvwxyzABCDEFGHIJKLMNOPQRSTUVWXYZ0123456789_.-:/ "


def rand_int(rng):
    r = rng.random()
    if r < 0.4:
        return rng.choice(INT_BOUNDS)
    if r < 0.55:
        return rng.choice(INT_BOUNDS) + rng.choice([-2, -1, 1, 2, 3])
    v = rng.getrandbits(rng.choice([1, 7, 8, 16, 31, 32, 33, 48, 63, 64, 65, 72]))
    return -v if rng.random() < 0.06 else v


def rand_str(rng):
    r = rng.random()
    if r < 0.15:
        return ""
    if r < 0.55:
        return "".join(rng.choice(_ALPHA) for _ in range(rng.randint(1, 24)))
    if r < 0.70:
        return "%032x" % rng.getrandbits(128)
    if r < 0.82:
        return "".join(chr(rng.randrange(0, 128)) for _ in range(rng.randint(1, 12)))
    if r < 0.92:
        s = [rng.choice(_ALPHA) for _ in range(rng.randint(0, 6))]
        s.insert(rng.randint(0, len(s)), rng.choice(["\x80", "é", "ÿ", "€", "\U0001f600", "\ud800", "Ā"]))
        return "".join(s)
    return rng.choice(_ALPHA) * rng.choice([255, 256, 1000, 4095, 4096, 4097, 9000, rng.choice([255, 65535, 65536])])


def rand_case(rng, classes):
    cname = rng.choice(list(classes))
    cls, fields, _ = classes[cname]
    vals = []
    for n, tp in fields:
        r = rng.random()
        if r < 0.03:        # wrong python type
            vals.append({"i": str(rand_int(rng))} if tp is str else _sv(rand_str(rng)))
        elif _is_enum(tp):
            vals.append({"i": str(int(rng.choice(list(tp)).value))} if rng.random() < 0.8 else {"i": str(rng.choice([0, 4, 5, -1, 255, 2**32]))})
        elif tp is int:
            vals.append({"i": str(rand_int(rng))})
        else:
            vals.append(_sv(rand_str(rng)))
    return {"family": "shm", "cls": cname, "vals": vals}


def fuzz_bytes(rng, hexs):
    b = bytearray(bytes.fromhex(hexs))
    k = rng.randrange(6)
    if k == 0 and b:
        del b[rng.randrange(len(b)):]                     # truncate
    elif k == 1 and b:
        b[rng.randrange(len(b))] = rng.randrange(256)       # corrupt one byte (may hit a length prefix or break ASCII)
    elif k == 2 and b:
        b[0] = rng.randrange(0, 20)                         # other / unknown tag
    elif k == 3:
        b += bytes(rng.randrange(256) for _ in range(rng.randint(1, 6)))   # trailing bytes
    elif k == 4 and len(b) > 1:
        i = rng.randrange(1, len(b))
        del b[i:i + rng.randint(1, 4)]                      # drop bytes in the middle
    else:
        b = bytearray(rng.randrange(256) for _ in range(rng.randint(0, 12)))
    if len(b) > 4096:
        b = b[:4096]
    return bytes(b).hex()


def _nontrivial(case, classes):
    fields = classes.get(case["cls"], (None, [], False))[1]
    return any(v != _default(tp, i, n) for i, ((n, tp), v) in enumerate(zip(fields, case["vals"])))


# ----------------------------------------------------------------------------- the check

def _load_corpus():
    from ekw.core import CORPUS_DIR
    out = []
    for f in sorted(glob.glob(str(CORPUS_DIR / "C17_*.json"))):
        try:
            d = json.load(open(f))
            out += d["cases"] if "cases" in d else [d["case"]]
        except Exception:
            pass
    return out


def _run_shm(ctx, with_model, n_random, long_keys=True):
    from ekw.core import lean_drive
    try:
        classes = shm_classes()
    except Exception as e:     # the module does not even import: nothing can be encoded
        ctx.violation({"kind": "module-import-failed", "family": "shm"}, {"family": "import", "module": "cascade.shm.api"},
                      f"import cascade.shm.api raised {type(e).__name__}: {e}")
        return
    cases = [c for c in _load_corpus() if c.get("family") == "shm"]
    ncorpus = len(cases)
    sweep = sweep_cases(classes, long_keys)
    cases += sweep
    for _ in range(n_random):
        cases.append(rand_case(ctx.rng, classes))
    ctx.count("shm:corpus", ncorpus)
    ctx.count("shm:sweep", len(sweep))
    ctx.count("shm:random", n_random)
    real_encs = []
    reported = set()
    for case in cases:
        e = real_enc(case, classes)
        real_encs.append(e)
        nt = _nontrivial(case, classes)
        ctx.case({"family": "shm", "case": _show(case, classes)}, nontrivial=nt)
        ctx.count("shm:cls:" + case["cls"])
        ctx.count("shm:enc:" + ("ok" if "ok" in e else e["err"]))
        if any("i" in v and int(v["i"]) >= 2**32 for v in case["vals"]):
            ctx.count("shm:with_int_ge_2^32")
        if any("s" in v and len(v["s"]) >= 65536 for v in case["vals"]):
            ctx.count("shm:with_str_ge_65536")
        if any("s" in v and any(c >= 128 for c in v["s"]) for v in case["vals"]):
            ctx.count("shm:with_non_ascii")
        v = shm_oracle(case, classes)
        if v is not None:
            key = json.dumps(v[0], sort_keys=True)
            if key not in reported:           # shrink once per kind of failure
                reported.add(key)
                small = shm_shrink(case, v[0]["kind"], classes)
                v2 = shm_oracle(small, classes) or v
                ctx.violation(v2[0], small, v2[1])
            else:
                ctx.count("shm:oracle_failures_same_kind")
    # decoding: the real encodings, corrupted variants, bare tags
    dec_inputs = []
    for e in real_encs:
        if "ok" in e:
            h = e["ok"]
            dec_inputs.append(h)
            if len(h) <= 8192 and ctx.rng.random() < 0.6:
                dec_inputs.append(fuzz_bytes(ctx.rng, h))
    dec_inputs += ["%02x" % t for t in range(0, 17)] + [""]
    real_decs = [real_dec(h, classes) for h in dec_inputs]
    for d in real_decs:
        ctx.count("shm:dec:" + ("ok" if "ok" in d else d["err"]))
    if not with_model:
        return
    lines = [json.dumps({"op": "classes"})]
    lines += [json.dumps({"op": "enc", "cls": c["cls"], "vals": [_wire(v) for v in c["vals"]]}) for c in cases]
    lines += [json.dumps({"op": "dec", "hex": h}) for h in dec_inputs]
    res = lean_drive("C17", lines)
    if len(res) != len(lines):
        ctx.disagree("driver-output-length", {"lines": len(lines)}, len(res), len(lines))
        return
    # translator cross-check: classes, field order and tags as the running module has them
    import cascade.shm.api as api
    model_classes = {d["cls"]: d for d in json.loads(res[0])}
    real_classes = {n: {"cls": n, "fields": [f for f, _ in fl], "base": b, "response": n.endswith("Response"),
                        "tag": (api.c2b[c].hex() if c in api.c2b else None)} for n, (c, fl, b) in classes.items()}
    ctx.traces += 1
    if model_classes != real_classes:
        diff = sorted(set(model_classes) ^ set(real_classes)) or [n for n in real_classes if model_classes[n] != real_classes[n]]
        ctx.disagree("translator-classes", {"classes": diff}, {n: model_classes.get(n) for n in diff}, {n: real_classes.get(n) for n in diff})
    k = 1
    ndis = 0
    for case, r in zip(cases, real_encs):
        m = json.loads(res[k])
        k += 1
        ctx.traces += 1
        if r.get("err", "").startswith("build:"):
            continue
        if m != r and ndis < 20:
            ndis += 1
            ctx.disagree("shm-encode", case if sum(len(v.get("s", [])) for v in case["vals"]) < 500 else {"case": _show(case, classes)},
                         _short(m), _short(r))
    for h, r in zip(dec_inputs, real_decs):
        m = _unwire(json.loads(res[k]))
        k += 1
        ctx.traces += 1
        if m != r and ndis < 40:
            ndis += 1
            ctx.disagree("shm-decode", {"hex": h[:400], "len": len(h) // 2}, _short(m), _short(r))


def _wire(v):
    """compact form for the driver: printable ASCII strings travel as JSON strings"""
    if "s" in v and v["s"] and all(32 <= c < 127 and c not in (34, 92) for c in v["s"]):
        return {"a": "".join(chr(c) for c in v["s"])}
    return v


def _unwire(x):
    if isinstance(x, dict) and "ok" in x and isinstance(x["ok"], dict):
        x["ok"]["vals"] = [{"s": [ord(c) for c in v["a"]]} if "a" in v else v for v in x["ok"]["vals"]]
    return x


def _short(x):
    s = json.dumps(x)
    return x if len(s) < 600 else s[:600] + "..."


def _run_sampled(ctx, n_per_family, with_model=False):
    from ekw import c17_sampled as S
    job_lines = []      # (case, model input, real dump) for the Model/Json comparison
    try:
        S.registry()
        S.exec_message_classes()
        S.gateway_pairs()
    except Exception as e:
        ctx.violation({"kind": "module-import-failed", "family": "sampled"}, {"family": "import", "module": "cascade.executor.msg / gateway.api / controller.report / low.core"},
                      f"importing the message modules raised {type(e).__name__}: {e}")
        return
    cases = [c for c in _load_corpus() if c.get("family") in S.FAMILIES]
    try:
        sweep = S.sweep_cases()
    except Exception as e:      # a message class the sweep cannot enumerate (new field type): the random part still runs
        sweep = []
        ctx.notes.append(f"sampled sweep not built: {type(e).__name__}: {e}")
    ctx.count("sampled:sweep", len(sweep))
    cases += sweep
    for fam in sorted(S.FAMILIES):
        for _ in range(n_per_family):
            cases.append(S.FAMILIES[fam][0](ctx.rng))
    cases += S.fixed_probes()
    reported = set()
    for case in cases:
        case = json.loads(json.dumps(case))        # exactly what a replay file would hold
        r = S.evaluate(case)
        fam = case["family"]
        ctx.case({"family": fam, "cls": case["cls"], "pipe": case["pipe"], "status": r["status"]}, nontrivial=False, sample_every=400)
        if r["status"] != "not-a-value":
            ctx.nontrivial_keys.add(hashlib.sha1(json.dumps(case, sort_keys=True).encode()).hexdigest())
        ctx.count(f"{fam}:{r['status']}")
        ctx.count(f"{fam}:cls:{case['cls']}")
        ctx.count(f"{fam}:pipe:{case['pipe']}")
        for p in r["domain_problems"]:
            ctx.count(f"{fam}:outside-domain:{p}")
        if "sweep" in case:
            ctx.count(f"{fam}:sweep")
        for k, n in S.shape_counts(case).items():       # shapes of the random / corpus part and of the sweep, counted apart
            ctx.count(f"{fam}:{'sweep:' if 'sweep' in case else ''}{k}", n)
        if r["status"] == "ok":
            ctx.traces += 1
            if with_model and fam == "job" and S.LAST_JOB_BYTES[0] is not None and len(S.LAST_JOB_BYTES[0]) < 200000:
                try:
                    real = json.loads(S.LAST_JOB_BYTES[0])
                    job_lines.append((case, S.job_model_input(S.build(case["spec"])), real))
                except Exception as e:
                    ctx.count("job:model_input_failed:" + type(e).__name__)
        if r["violation"] is not None:
            sig, what = r["violation"]
            key = json.dumps(sig, sort_keys=True)
            if key not in reported:
                reported.add(key)
                try:
                    small = S.shrink(case) if len(reported) <= 12 else case      # shrink once per kind of failure, bounded in total
                    r2 = S.evaluate(small)
                    if r2["violation"] is not None and r2["violation"][0] == sig:
                        case, what = small, r2["violation"][1]
                except Exception as e:
                    ctx.count("sampled:shrink_failed:" + type(e).__name__)
                ctx.violation(sig, case, what)


    if job_lines:
        from ekw.core import lean_drive
        res = lean_drive("C17", [json.dumps({"op": "job", "job": mi, "real": real}, ensure_ascii=False) for _, mi, real in job_lines])
        if len(res) != len(job_lines):
            ctx.disagree("driver-output-length", {"lines": len(job_lines)}, len(res), len(job_lines))
            return
        nd = 0
        for (case, mi, real), line in zip(job_lines, res):
            ctx.traces += 1
            ctx.count("job:model_compared")
            try:
                m = json.loads(line)
            except Exception:
                m = {"driver_output": line[:300]}
            if "dump" not in m:
                bad = ("driver", m)
            elif not S.json_same(m["dump"], real):
                bad = ("dump", S._first_diff(real, m["dump"], eq=S.json_same))
            elif m.get("reload") is not True:
                bad = ("model-reload", m.get("reload"))
            elif m.get("load_real") is not True:
                bad = ("model-load-of-real-dump", m.get("load_real"))
            else:
                bad = None
            if bad and nd < 10:
                nd += 1
                ctx.disagree("job-json-" + bad[0], case if len(json.dumps(case)) < 4000 else {"case": "large", "cls": case["cls"]},
                             _short(bad[1]), "the dump written by the real code / the instance it was built from")


def _run(ctx, with_model):
    _run_shm(ctx, with_model, ctx.budget(1000, 50000))
    _run_sampled(ctx, ctx.budget(150, 4000), with_model)


def correspond(ctx):
    _run(ctx, True)


def oracle_only(ctx):
    _run(ctx, False)


def search(ctx, why):
    """(P) or (T) broken: look harder for a failing input on the real code (oracle only)."""
    try:
        classes = shm_classes()
    except Exception:
        return
    have = {json.dumps(v["signature"], sort_keys=True) for v in ctx.violations}
    n = ctx.budget(20000, 200000)
    for _ in range(n):
        case = rand_case(ctx.rng, classes)
        v = shm_oracle(case, classes)
        ctx.count("search:shm")
        if v is not None and json.dumps(v[0], sort_keys=True) not in have:
            have.add(json.dumps(v[0], sort_keys=True))
            small = shm_shrink(case, v[0]["kind"], classes)
            v2 = shm_oracle(small, classes) or v
            ctx.violation(v2[0], small, v2[1])


def replay(payload):
    case = payload["case"]
    if case.get("family") == "import":
        import importlib
        try:
            for m in ("cascade.shm.api", "cascade.executor.msg", "cascade.gateway.api", "cascade.controller.report", "cascade.low.core"):
                importlib.import_module(m)
        except Exception as e:
            print("import failed:", type(e).__name__, e)
            return 1
        print("imports fine")
        return 0
    if case.get("family") == "shm":
        classes = shm_classes()
        print("message :", _show(case, classes))
        e = real_enc(case, classes)
        print("api.ser :", _short(e))
        if "ok" in e:
            print("api.deser:", _short(real_dec(e["ok"], classes)))
        v = shm_oracle(case, classes)
        print("oracle  :", v[1] if v else "ok")
        return 1 if v else 0
    from ekw import c17_sampled as S
    r = S.evaluate(case)
    print("case    :", json.dumps(case)[:1500])
    print("status  :", r["status"], r["part"], r["detail"])
    print("oracle  :", r["violation"][1] if r["violation"] else "ok")
    return 1 if r["violation"] else 0
