"""C17 — every wire and file encoding round-trips over its whole value domain.

shm api (proved): translator `shm_api` (ekw/c17_translate.py) reads src/cascade/shm/api.py with `ast` (and the receive buffers
of shm/server.py / shm/client.py) and regenerates lean/EkwVerif/Gen/ShmApi.lean; Model/Codec.lean interprets the table and
models the datagram transport; Props/C17.lean proves round trip + rejection generically, `SchemaOK Gen.shmApi` and the
buffer condition by `decide`, and that nothing is altered end to end.
Tie: the generated table + Lean codec must produce byte for byte what the real api.ser produces and decode what api.deser
decodes (also on truncated / corrupted bytes), which validates the translator as well; `wire` is compared with the real
client and server talking over real UDP sockets (ekw/c17_wire.py).
JSON encodings (proved at the level of documents): Model/Json.lean models orjson on values of type Any, the job-instance
dump / load and the gateway request / response dump / parse. Tie: the TEXT the model renders must be byte for byte what the
real code writes; the model must refuse exactly when the real encoder refuses; its round trip must say "preserved" exactly
when the real round trip preserved the message.
Oracle (property text only): decode(encode(m)) == m for every class and boundary value on the real code; a value may be
refused only if it is outside what the encoding can carry; nothing is ever altered.
Sampled part (pickle / pydantic / orjson through the real code): ekw/c17_sampled.py.
"""
import dataclasses
import enum
import glob
import hashlib
import json

PROPERTY = "C17"
LEVEL_TEXT = ("Lean theorems in three groups. (1) shm api, Model/Codec.lean (generic interpreter of the ser/deser field sequences and the tag "
              "table of cascade.shm.api): for EVERY schema whose ser and deser sequences agree and EVERY value in the domain (unbounded integers "
              "and strings, induction over the field list) decode(encode v) = v also with trailing bytes; every value outside the domain makes "
              "the encoder fail; the table regenerated from src/cascade/shm/api.py on every run satisfies SchemaOK (ser = deser per class, "
              "distinct one-byte tags, every concrete class tagged, size fields >= 8 bytes, string length prefixes >= 4 bytes) by `decide`. "
              "(2) the same END TO END over the datagram transport (`wire` = api.ser, sendto -- refused above 65507 bytes --, recv into a buffer "
              "that CUTS a longer datagram silently, the lenient api.deser): for every SchemaOK table, every buffer of at least 65507 bytes and "
              "EVERY message (in the domain or not, of any size) whatever the receiving side decodes IS the message sent (c17_wire_never_alters); "
              "in-domain messages that fit one datagram arrive, longer ones are refused at the sender; the buffers of shm/server.py (recvfrom) "
              "and shm/client.py (recv), read from the source by the translator, satisfy the hypothesis by `decide`; with the 1024-byte buffer "
              "of the pinned tree a key of 1020 characters is cut to 1019 without error (c17_wire_small_buffer_fails). "
              "(3) the JSON encodings, Model/Json.lean (token-level documents with ordered keys and int / float tokens; `PyVal` = what a field "
              "of type Any can hold; encAny / decAny = orjson.dumps / loads; dump / load of job instances and of gateway requests and "
              "responses with their `clazz` key): JSON-native values / jobs / requests are accepted and round-trip, at any size and depth; "
              "whatever the encoder ACCEPTS comes back unchanged unless it contains a tuple, a non-finite float or a scalar orjson serialises "
              "natively as text (datetime, date, time, UUID) -- `*_never_alters_partial` with the decidable hypothesis Lossless; the full "
              "clause fails on exactly these three classes (`c17_any_full_fails`, `c17_job_json_full_fails`, `c17_gateway_request_full_fails`; "
              "three known findings, replayed on the real code on every run); the encoder refuses EXACTLY the values with a bytes / set / "
              "frozenset / unknown-class / beyond-64-bit-integer / non-str-key node (`c17_any_rejects_iff`, `c17_job_json_rejects`); gateway "
              "responses round-trip and a response whose class does not answer the request sent is refused. "
              "Tied to the real code: shm byte for byte (also on corrupted input) and over real UDP sockets with the real client and server; "
              "JSON byte for byte with the text the real code writes (key order, number formatting, string escapes), refusal for refusal, "
              "and `preserved` for `preserved`.")
LEVEL_NOTE = ("proved: shm api (src/cascade/shm/api.py through the generated table; shm/server.py + shm/client.py receive buffers), the JSON "
              "documents of job instances (gateway/router.py writer, benchmarks/__main__.py reader) and of gateway requests / responses "
              "(gateway/client.py). Modelled, not verified: the translator (validated each run by the byte-level comparison with the real "
              "code), Model/Codec.lean, Model/Json.lean; `render` (the text of a document) is compared with the real bytes but no theorem "
              "speaks about text: the real bytes are parsed back by Python's stdlib json (independent of orjson) before the model's loader "
              "reads them. NOT modelled: pydantic's lax coercions on input the encoder never produces, strings with lone surrogates (Lean "
              "strings cannot hold them; orjson refuses them -- sampled), the binary-to-decimal conversion of floats (the model takes the "
              "shortest digits from Python's repr and reproduces orjson's format from them). NO THEOREM, sampled only (the clause "
              "'rejected when encoding' is carried by the oracle alone there): executor messages (pickle; serde.py, comms.callback / "
              "ReliableSender.send / send_data -> Listener._recv_one incl. payload frames, over capturing sockets and over REAL zmq "
              "inproc sockets with bytes / memoryview / bytearray / str payloads and frames up to 2^20+1 bytes, 2^24+1 in the thorough "
              "tier), controller reports (pickle; also through the real Reporter with the report address '<address>,<job_id>' built by "
              "router._spawn_local). Sampled values: a deterministic sweep (every class x every leaf x every boundary value / structured "
              "identifier / container shape / every non-JSON class for the Any leaves) plus boundary-biased random values generated from "
              "the type annotations; decoded objects are compared FIELD BY FIELD (never by repr), order-sensitive where the order carries "
              "meaning; all differences of a case are reported, each with the observed alteration. WHAT is compared with what: shm -- the "
              "decoded message with the CASE's values; executor messages and controller reports -- the decoded message with the object the "
              "real constructor made (fields, ==, hash) AND with the case's values laid into an instance made without running any "
              "constructor code (object.__new__ / model_construct), so that a constructor-level alteration (__post_init__, validator) is "
              "reported as `case-value:*`; gateway / job JSON -- the parsed message with the constructed one (pydantic's own coercions at "
              "construction are not judged), and a retrieved result VALUE through api.decoded_result (base64 + cloudpickle) with the case's "
              "value. The shm wire tie sends its requests through the client's entry points allocate / get / purge / status / "
              "close_callback (called with the case's values; AllocatedBuffer replaced by a recorder) where the request class has one, "
              "through _send_command otherwise, and checks what the entry point hands on (shmid, l, deser_fun, create, the close callback's "
              "key and reader id, the status) against the response. The frame-sequence parser of "
              "comms.Listener is proved under C06. String lengths compared with the real code reach 70 000 characters; the refusal of a "
              "string of 2^32 characters is exercised on the real code with a str whose len() says 2^32 (the model's bound is the theorem).")
TECHNIQUE = ("Lean 4 proof by induction over field sequences (generic codec), mutual structural induction over nested values (JSON model) + AST "
             "translator emitting the schema table and the receive buffers checked by `decide` + byte-for-byte differential correspondence "
             "with the real api.ser/api.deser, with the real UDP client/server and with the JSON text the real code writes + round-trip "
             "oracle on the real code")
LEAN_PROPS = ["EkwVerif.Props.C17"]
LEAN_DRIVERS = ["C17"]
RULE = ("shm: (a) deterministic sweep: every class x every field x every boundary value (ints 0, 1, 2^8, 2^16, 2^31, 2^32-1, 2^32, "
        "2^32+1, 2^63, 2^64-1, 2^64, 2^64+1, 2^70, negatives; strings empty, md5-like, control chars, DEL, non-ASCII, lone surrogate, "
        "lengths 255/256/65535/65536/70000 for keys; enum members and non-members; wrong-typed values) with distinct values in the "
        "other fields; (b) random messages, boundary-biased; (c) decoding of truncated / corrupted / re-tagged byte strings; (d) a str "
        "whose len() is 2^32 in every class. "
        "shm wire: request/response pairs of in-domain messages through the real client (its entry points allocate / get / purge / status / "
        "close_callback, else _send_command) and server over UDP: every class x every string "
        "field x lengths 0..70000 around 1019/1020 (the old buffer), 4096, 65507 (sampled: mostly the short ones), for six classes the "
        "exact length that fills the largest datagram and one more, random pairs. "
        "sampled families exec/report/gateway/job: (a) deterministic sweep, the same for every seed: per message class a base value with "
        "distinct fields and every variant that differs from it in ONE leaf -- ints at the 2^31/2^32/2^53/2^63/2^64 boundaries, "
        "identifier strings with the separators the code itself uses ('.', ',', ':', '/', '|', blanks), empty components, fully "
        "qualified host names, ip addresses, zmq addresses, unicode, NUL; container shapes (empty, duplicates, pairs of ids with EQUAL "
        "repr such as ('a.b','c') / ('a','b.c')); every str-keyed mapping with >= 2 keys declared in NON-sorted order; for every leaf of "
        "type Any additionally every class JSON cannot carry: bytes, tuple (also nested), set, frozenset, dict with int / bool / None / "
        "float / tuple / bytes keys (also colliding with a str key), inf / -inf / nan, complex, datetime, date, UUID, Decimal, Path, "
        "integers beyond 64 bit, lone surrogate; payload frames bytes / memoryview / bytearray / str over real zmq sockets; job ids with "
        "commas through the real Reporter; (b) random values generated from the real type annotations with the same shapes frequent "
        "(a third of the JSON cases carry non-JSON values in their Any leaves); (c) fixed probes. any: values of type Any straight "
        "through orjson against encAny / decAny / render and the predicates Native / Lossless / Refused. gateway ResultRetrievalResponse: "
        "in half of the cases the result text is base64 of the pickle of a generated value (JSON-native or not: bytes, tuples, sets, "
        "non-str keys, datetimes ...), which api.decoded_result must give back. A failing case is shrunk "
        "greedily before it is reported. non-trivial = message with at least one field carrying a non-default value; distinct by content hash")
ASSUMPTIONS = [
    "the translator recognises only declarative module-level code in api.py; behaviour installed at run time (monkeypatching inside a function) is seen by the byte-level comparison only",
    "shm messages travel as ONE UDP datagram over IPv4: sendto refuses a payload above 65507 bytes with EMSGSIZE (measured on a real socket on every run and compared with the model's maxDatagram) and a datagram longer than the receive buffer is cut without error (the kernel's behaviour the model's `transport` mirrors; observed on the real sockets)",
    "shm/server.py and shm/client.py each contain exactly one socket receive, `recvfrom(N)` / `recv(N)` with an integer literal N (anything else is reported as an unrecognised source)",
    "all int fields of cascade.shm.api carry byte counts (dataset size, free space): the admitted domain is 0 <= n < 2^64",
    "EmptyCommand is an abstract base (never sent): it need not be in the tag table",
    "zmq sockets, the poller, subprocess and open() of router/benchmarks are replaced by in-process fakes in the sampled part (the zmq_* pipes use real inproc sockets)",
    "domain of the JSON encodings: integers in [-2^63, 2^64), well-formed unicode, finite floats, lists, str-keyed mappings; every other value a field of type Any holds is OUTSIDE: the encoder may refuse it, it may never hand back something else",
    "the report address '<address>,<job_id>' is split at the first comma: gateway addresses contain no comma (job ids may)",
    "a payload frame handed to send_data as memoryview / bytearray (what the data server passes) arrives as bytes of the same content: judged by content",
]
TRUSTED_EXTRA = ["pickle / cloudpickle round trips are sampled through the real code, not modelled; pydantic and orjson are modelled at document level (Model/Json.lean) and compared byte for byte"]

TWO64 = 2 ** 64
INT_BOUNDS = [0, 1, 255, 256, 65535, 65536, 2**31 - 1, 2**31, 2**32 - 1, 2**32, 2**32 + 1, 2**40, 2**63 - 1, 2**63,
              2**64 - 1, 2**64, 2**64 + 1, 2**70, -1, -2**31]
STR_BOUNDS = ["", "a", "d41d8cd98f00b204e9800998ecf8427e", "\x00", "\x7f", "\x80", "é", "€", "\U0001f600", "a\ud800",
              "k" * 255, "k" * 256]
LONG_LENS = [65535, 65536, 70000]


# ----------------------------------------------------------------------------- translator

def translate(ctx):
    from ekw import core
    from ekw.c17_translate import translate_file
    tab = translate_file(core.REPO / "src/cascade/shm/api.py", core.LEAN_DIR / "EkwVerif/Gen/ShmApi.lean")
    ctx.extra["translator"] = {"classes": len(tab["msgs"]), "tags": len(tab["tags"]),
                               "ser_str": tab["str"]["ser"], "deser_str": tab["str"]["deser"]}


# ----------------------------------------------------------------------------- real side: shm api

def shm_classes():
    """runtime introspection of the real module (independent of the translator): {name: (class, [(field, type)], is_base)}"""
    import cascade.shm.api as api
    found = []
    for n, o in vars(api).items():
        if (isinstance(o, type) and o.__module__ == api.__name__ and not getattr(o, "_is_protocol", False)
                and callable(getattr(o, "ser", None)) and callable(getattr(o, "deser", None))):
            found.append((n, o))
    out = {}
    for n, o in found:
        fields = [(f.name, f.type) for f in dataclasses.fields(o)] if dataclasses.is_dataclass(o) else []
        is_base = any(o2 is not o and issubclass(o2, o) for _, o2 in found)
        out[n] = (o, fields, is_base)
    return out


def _is_enum(tp):
    return isinstance(tp, type) and issubclass(tp, enum.Enum)


def py_val(v, tp):
    if "i" in v:
        n = int(v["i"])
        if _is_enum(tp):
            try:
                return tp(n)
            except ValueError:
                return n
        return n
    return "".join(chr(c) for c in v["s"])


def canon_val(x):
    if isinstance(x, enum.Enum):
        return {"i": str(int(x.value))}
    if isinstance(x, bool):
        return {"other": repr(x)}
    if isinstance(x, int):
        return {"i": str(x)}
    if isinstance(x, str):
        return {"s": [ord(c) for c in x]}
    return {"other": repr(x)}


def err_name(e):
    if isinstance(e, OverflowError):
        return "overflow"
    if isinstance(e, UnicodeError):
        return "unicode"
    if isinstance(e, (AttributeError, TypeError)):
        return "type"
    if isinstance(e, KeyError):
        return "key"
    if isinstance(e, ValueError):
        return "value"
    return "other:" + type(e).__name__


def real_enc(case, classes=None):
    import cascade.shm.api as api
    classes = classes or shm_classes()
    try:
        cls, fields, _ = classes[case["cls"]]
        if len(fields) != len(case["vals"]):
            return {"err": "arity"}
        obj = cls(**{n: py_val(v, tp) for (n, tp), v in zip(fields, case["vals"])})
    except Exception as e:
        return {"err": "build:" + type(e).__name__}
    try:
        b = api.ser(obj)
    except Exception as e:
        return {"err": err_name(e)}
    if not isinstance(b, (bytes, bytearray)):
        return {"err": "other:not-bytes"}
    return {"ok": bytes(b).hex()}


def real_dec(hexs, classes=None):
    import cascade.shm.api as api
    classes = classes or shm_classes()
    try:
        m = api.deser(bytes.fromhex(hexs))
    except Exception as e:
        return {"err": err_name(e)}
    name = type(m).__name__
    if name not in classes or classes[name][0] is not type(m):
        return {"err": "other:unknown-class " + name}
    return {"ok": {"cls": name, "vals": [canon_val(getattr(m, n, None)) for n, _ in classes[name][1]]}}


# ----------------------------------------------------------------------------- oracle: shm api (from the property text)

def _in_domain(v, tp):
    """admitted domain: byte counts 0 <= n < 2^64; ASCII strings (length < 2^32); members of the enum"""
    if _is_enum(tp):
        if "i" not in v:
            return False
        try:
            tp(int(v["i"]))
            return True
        except ValueError:
            return False
    if tp is int:
        return "i" in v and 0 <= int(v["i"]) < TWO64
    if tp is str:
        return "s" in v and all(c < 128 for c in v["s"]) and len(v["s"]) < 2 ** 32
    return False


def shm_oracle(case, classes=None):
    """-> None | (signature, what)"""
    classes = classes or shm_classes()
    if case["cls"] not in classes:
        return None
    cls, fields, is_base = classes[case["cls"]]
    if is_base or len(fields) != len(case["vals"]):
        return None
    dom = [_in_domain(v, tp) for (n, tp), v in zip(fields, case["vals"])]
    e = real_enc(case, classes)
    if "err" in e:
        if e["err"].startswith("build:"):
            return None
        if all(dom):
            return ({"kind": "in-domain-value-rejected", "family": "shm", "cls": case["cls"], "error": e["err"]},
                    f"api.ser({_show(case, classes)}) raised {e['err']} although every field is inside the admitted domain")
        return None
    d = real_dec(e["ok"], classes)
    if "err" in d:
        return ({"kind": "decode-raised", "family": "shm", "cls": case["cls"], "error": d["err"]},
                f"api.deser(api.ser({_show(case, classes)})) raised {d['err']}")
    if d["ok"]["cls"] != case["cls"] or d["ok"]["vals"] != case["vals"]:
        kind = "roundtrip-mismatch" if all(dom) else "silently-altered"
        return ({"kind": kind, "family": "shm", "cls": case["cls"]},
                f"api.deser(api.ser({_show(case, classes)})) = {_show(d['ok'], classes)}")
    return None


def _show(case, classes):
    fields = classes.get(case["cls"], (None, [], False))[1]
    parts = []
    for i, v in enumerate(case["vals"]):
        n = fields[i][0] if i < len(fields) else f"#{i}"
        if "i" in v:
            parts.append(f"{n}={v['i']}")
        elif "s" in v:
            s = "".join(chr(c) for c in v["s"])
            parts.append(f"{n}={s!r}" if len(s) <= 40 else f"{n}=<str of {len(s)} chars {s[:8]!r}...>")
        else:
            parts.append(f"{n}={v}")
    return f"{case['cls']}({', '.join(parts)})"


def _default(tp, idx, name):
    """distinct, in-domain filler values (so that swapped fields show)"""
    if _is_enum(tp):
        return {"i": str(int(list(tp)[0].value))}
    if tp is int:
        return {"i": str(idx + 1)}
    return {"s": [ord(c) for c in name]}


def shm_shrink(case, kind, classes):
    cur = {"family": "shm", "cls": case["cls"], "vals": list(case["vals"])}
    fields = classes[case["cls"]][1]

    def bad(c):
        r = shm_oracle(c, classes)
        return r is not None and r[0]["kind"] == kind
    if not bad(cur):
        return cur
    for i, (n, tp) in enumerate(fields):
        for cand in ([{"i": "0"}] if tp is int else []) + [_default(tp, i, n)] + ([{"s": []}] if tp is str else []):
            c2 = dict(cur, vals=cur["vals"][:i] + [cand] + cur["vals"][i + 1:])
            if cand != cur["vals"][i] and bad(c2):
                cur = c2
                break
    for i, (n, tp) in enumerate(fields):
        v = cur["vals"][i]
        if tp is int and "i" in v:
            for b in sorted(x for x in INT_BOUNDS if 0 <= x < abs(int(v["i"]))):
                c2 = dict(cur, vals=cur["vals"][:i] + [{"i": str(b)}] + cur["vals"][i + 1:])
                if bad(c2):
                    cur = c2
                    break
        if tp is str and "s" in v and len(v["s"]) > 1:
            for cand in [[c] for c in v["s"][:50]] + [v["s"][:k] for k in (2, 4, 16, 256, 65536) if k < len(v["s"])]:
                c2 = dict(cur, vals=cur["vals"][:i] + [{"s": cand}] + cur["vals"][i + 1:])
                if bad(c2):
                    cur = c2
                    break
    return cur


# ----------------------------------------------------------------------------- generators: shm api

def _sv(s):
    return {"s": [ord(c) for c in s]}


def sweep_cases(classes, long_keys=True):
    out = []
    for cname, (cls, fields, is_base) in classes.items():
        base = [_default(tp, i, n) for i, (n, tp) in enumerate(fields)]
        out.append({"family": "shm", "cls": cname, "vals": list(base)})
        for i, (n, tp) in enumerate(fields):
            if _is_enum(tp):
                cands = [{"i": str(int(m.value))} for m in tp] + [{"i": str(x)} for x in (0, len(list(tp)) + 1, -1, 2**32)] + [_sv("ready")]
            elif tp is int:
                cands = [{"i": str(b)} for b in INT_BOUNDS] + [_sv("12")]
            else:
                cands = [_sv(s) for s in STR_BOUNDS] + [{"i": "7"}]
                if n == "key":      # key lengths around the 2-byte boundary (one class with all of them, the others with one)
                    lens = [4096] if not long_keys else (LONG_LENS if cname == "AllocateRequest" else [65536] if cname == "GetRequest" else [4096])
                    cands += [_sv("k" * L) for L in lens]
            for c in cands:
                out.append({"family": "shm", "cls": cname, "vals": base[:i] + [c] + base[i + 1:]})
    return out


_ALPHA = "abcdefghijklmnopqrstuvwxyzABCDEFGHIJKLMNOPQRSTUVWXYZ0123456789_.-:/ "


def rand_int(rng):
    r = rng.random()
    if r < 0.4:
        return rng.choice(INT_BOUNDS)
    if r < 0.55:
        return rng.choice(INT_BOUNDS) + rng.choice([-2, -1, 1, 2, 3])
    v = rng.getrandbits(rng.choice([1, 7, 8, 16, 31, 32, 33, 48, 63, 64, 65, 72]))
    return -v if rng.random() < 0.06 else v


def rand_str(rng):
    r = rng.random()
    if r < 0.15:
        return ""
    if r < 0.55:
        return "".join(rng.choice(_ALPHA) for _ in range(rng.randint(1, 24)))
    if r < 0.70:
        return "%032x" % rng.getrandbits(128)
    if r < 0.82:
        return "".join(chr(rng.randrange(0, 128)) for _ in range(rng.randint(1, 12)))
    if r < 0.92:
        s = [rng.choice(_ALPHA) for _ in range(rng.randint(0, 6))]
        s.insert(rng.randint(0, len(s)), rng.choice(["\x80", "é", "ÿ", "€", "\U0001f600", "\ud800", "Ā"]))
        return "".join(s)
    return rng.choice(_ALPHA) * rng.choice([255, 256, 1000, 4095, 4096, 4097, 9000, rng.choice([255, 65535, 65536])])


def rand_case(rng, classes):
    cname = rng.choice(list(classes))
    cls, fields, _ = classes[cname]
    vals = []
    for n, tp in fields:
        r = rng.random()
        if r < 0.03:        # wrong python type
            vals.append({"i": str(rand_int(rng))} if tp is str else _sv(rand_str(rng)))
        elif _is_enum(tp):
            vals.append({"i": str(int(rng.choice(list(tp)).value))} if rng.random() < 0.8 else {"i": str(rng.choice([0, 4, 5, -1, 255, 2**32]))})
        elif tp is int:
            vals.append({"i": str(rand_int(rng))})
        else:
            vals.append(_sv(rand_str(rng)))
    return {"family": "shm", "cls": cname, "vals": vals}


def fuzz_bytes(rng, hexs):
    b = bytearray(bytes.fromhex(hexs))
    k = rng.randrange(6)
    if k == 0 and b:
        del b[rng.randrange(len(b)):]                     # truncate
    elif k == 1 and b:
        b[rng.randrange(len(b))] = rng.randrange(256)       # corrupt one byte (may hit a length prefix or break ASCII)
    elif k == 2 and b:
        b[0] = rng.randrange(0, 20)                         # other / unknown tag
    elif k == 3:
        b += bytes(rng.randrange(256) for _ in range(rng.randint(1, 6)))   # trailing bytes
    elif k == 4 and len(b) > 1:
        i = rng.randrange(1, len(b))
        del b[i:i + rng.randint(1, 4)]                      # drop bytes in the middle
    else:
        b = bytearray(rng.randrange(256) for _ in range(rng.randint(0, 12)))
    if len(b) > 4096:
        b = b[:4096]
    return bytes(b).hex()


def _nontrivial(case, classes):
    fields = classes.get(case["cls"], (None, [], False))[1]
    return any(v != _default(tp, i, n) for i, ((n, tp), v) in enumerate(zip(fields, case["vals"])))


# ----------------------------------------------------------------------------- the check

class Batch:
    """All lines for the Lean driver of one run go through ONE `lean --run` (its start-up costs several seconds): the parts of the
    check register their lines with a handler that is given the driver's answers afterwards."""

    def __init__(self):
        self.parts = []

    def add(self, lines, handler):
        self.parts.append((list(lines), handler))

    def flush(self, ctx):
        from ekw.core import lean_drive
        lines = [l for part, _ in self.parts for l in part]
        if not lines:
            return
        ctx.count("model:driver_lines", len(lines))
        ctx.count("model:driver_input_bytes", sum(map(len, lines)))
        res = lean_drive("C17", lines)
        if len(res) != len(lines):
            ctx.disagree("driver-output-length", {"lines": len(lines)}, len(res), len(lines))
            return
        k = 0
        for part, handler in self.parts:
            handler(res[k:k + len(part)])
            k += len(part)
        self.parts = []


def _load_corpus():
    from ekw.core import CORPUS_DIR
    out = []
    for f in sorted(glob.glob(str(CORPUS_DIR / "C17_*.json"))):
        try:
            d = json.load(open(f))
            out += d["cases"] if "cases" in d else [d["case"]]
        except Exception:
            pass
    return out


def _run_shm(ctx, with_model, n_random, long_keys=True, batch=None):
    try:
        classes = shm_classes()
    except Exception as e:     # the module does not even import: nothing can be encoded
        ctx.violation({"kind": "module-import-failed", "family": "shm"}, {"family": "import", "module": "cascade.shm.api"},
                      f"import cascade.shm.api raised {type(e).__name__}: {e}")
        return
    cases = [c for c in _load_corpus() if c.get("family") == "shm"]
    ncorpus = len(cases)
    sweep = sweep_cases(classes, long_keys)
    cases += sweep
    for _ in range(n_random):
        cases.append(rand_case(ctx.rng, classes))
    ctx.count("shm:corpus", ncorpus)
    ctx.count("shm:sweep", len(sweep))
    ctx.count("shm:random", n_random)
    real_encs = []
    reported = set()
    for case in cases:
        e = real_enc(case, classes)
        real_encs.append(e)
        nt = _nontrivial(case, classes)
        ctx.case({"family": "shm", "case": _show(case, classes)}, nontrivial=nt)
        ctx.count("shm:cls:" + case["cls"])
        ctx.count("shm:enc:" + ("ok" if "ok" in e else e["err"]))
        if any("i" in v and int(v["i"]) >= 2**32 for v in case["vals"]):
            ctx.count("shm:with_int_ge_2^32")
        if any("s" in v and len(v["s"]) >= 65536 for v in case["vals"]):
            ctx.count("shm:with_str_ge_65536")
        if any("s" in v and any(c >= 128 for c in v["s"]) for v in case["vals"]):
            ctx.count("shm:with_non_ascii")
        v = shm_oracle(case, classes)
        if v is not None:
            key = json.dumps(v[0], sort_keys=True)
            if key not in reported:           # shrink once per kind of failure
                reported.add(key)
                small = shm_shrink(case, v[0]["kind"], classes)
                v2 = shm_oracle(small, classes) or v
                ctx.violation(v2[0], small, v2[1])
            else:
                ctx.count("shm:oracle_failures_same_kind")
    # decoding: the real encodings, corrupted variants, bare tags
    dec_inputs = []
    for e in real_encs:
        if "ok" in e:
            h = e["ok"]
            dec_inputs.append(h)
            if len(h) <= 8192 and ctx.rng.random() < 0.6:
                dec_inputs.append(fuzz_bytes(ctx.rng, h))
    dec_inputs += ["%02x" % t for t in range(0, 17)] + [""]
    real_decs = [real_dec(h, classes) for h in dec_inputs]
    for d in real_decs:
        ctx.count("shm:dec:" + ("ok" if "ok" in d else d["err"]))
    _shm_probes(ctx, classes, dec_inputs, real_decs)
    if not with_model:
        return
    lines = [json.dumps({"op": "classes"})]
    lines += [json.dumps({"op": "enc", "cls": c["cls"], "vals": [_wire(v) for v in c["vals"]]}) for c in cases]
    lines += [json.dumps({"op": "dec", "hex": h}) for h in dec_inputs]

    def handle(res):
        # translator cross-check: classes, field order and tags as the running module has them
        import cascade.shm.api as api
        model_classes = {d["cls"]: d for d in json.loads(res[0])}
        real_classes = {n: {"cls": n, "fields": [f for f, _ in fl], "base": b, "response": n.endswith("Response"),
                            "tag": (api.c2b[c].hex() if c in api.c2b else None)} for n, (c, fl, b) in classes.items()}
        ctx.traces += 1
        if model_classes != real_classes:
            diff = sorted(set(model_classes) ^ set(real_classes)) or [n for n in real_classes if model_classes[n] != real_classes[n]]
            ctx.disagree("translator-classes", {"classes": diff}, {n: model_classes.get(n) for n in diff}, {n: real_classes.get(n) for n in diff})
        k = 1
        ndis = 0
        for case, r in zip(cases, real_encs):
            m = json.loads(res[k])
            k += 1
            ctx.traces += 1
            if r.get("err", "").startswith("build:"):
                continue
            if m != r and ndis < 20:
                ndis += 1
                ctx.disagree("shm-encode", case if sum(len(v.get("s", [])) for v in case["vals"]) < 500 else {"case": _show(case, classes)},
                             _short(m), _short(r))
        for h, r in zip(dec_inputs, real_decs):
            m = _unwire(json.loads(res[k]))
            k += 1
            ctx.traces += 1
            if m != r and ndis < 40:
                ndis += 1
                ctx.disagree("shm-decode", {"hex": h[:400], "len": len(h) // 2}, _short(m), _short(r))
    batch.add(lines, handle)


class _LongStr(str):
    """a str that claims 2^32 characters (a real one would need 4 GiB): reaches the length check of ser_str on the real code"""

    def __len__(self):
        return 2 ** 32


def _shm_probes(ctx, classes, dec_inputs, real_decs):
    import cascade.shm.api as api
    # (1) a string of 2^32 characters does not fit the 4-byte length prefix: the encoder must refuse it (theorem: InDom .str needs
    #     length < 256^lw); the real branch is reached with a str whose __len__ says 2^32
    for cname, (cls, fields, is_base) in classes.items():
        strs = [n for n, tp in fields if tp is str]
        if is_base or not strs:
            continue
        kw = {n: (_LongStr("k") if n == strs[-1] else (list(tp)[0] if _is_enum(tp) else 1 if tp is int else n)) for n, tp in fields}
        try:
            b = api.ser(cls(**kw))
            ctx.violation({"kind": "over-long-string-accepted", "family": "shm", "cls": cname},
                          {"family": "shm-probe", "probe": "str-of-2^32-chars", "cls": cname, "field": strs[-1]},
                          f"api.ser({cname}({strs[-1]}=<str whose len() is 2^32>)) returned {len(b)} bytes instead of raising")
        except OverflowError:
            ctx.count("shm:probe:str_len_2^32:overflow")
        except Exception as e:
            ctx.count("shm:probe:str_len_2^32:" + type(e).__name__)
    # (2) api.deser is annotated `data: bytes` (recv / recvfrom return bytes). What it does with the other buffer types is counted,
    #     not judged: a bytearray makes `b2c[data[:1]]` raise (a slice of a writable memoryview is unhashable)
    for h, r in list(zip(dec_inputs, real_decs))[:60]:
        for name, conv in (("bytearray", bytearray), ("memoryview", memoryview)):
            try:
                m = api.deser(conv(bytes.fromhex(h)))
                same = "ok" in r and type(m).__name__ == r["ok"]["cls"]
                ctx.count(f"shm:deser({name}):" + ("same-as-bytes" if same else "differs"))
            except Exception as e:
                ctx.count(f"shm:deser({name}):" + ("raises-like-bytes" if "err" in r and err_name(e) == r["err"] else "raises:" + type(e).__name__))


def _wire(v):
    """compact form for the driver: printable ASCII strings travel as JSON strings"""
    if "s" in v and v["s"] and all(32 <= c < 127 and c not in (34, 92) for c in v["s"]):
        return {"a": "".join(chr(c) for c in v["s"])}
    return v


def _unwire(x):
    if isinstance(x, dict) and "ok" in x and isinstance(x["ok"], dict):
        x["ok"]["vals"] = [{"s": [ord(c) for c in v["a"]]} if "a" in v else v for v in x["ok"]["vals"]]
    return x


def _short(x):
    s = json.dumps(x)
    return x if len(s) < 600 else s[:600] + "..."


def _run_sampled(ctx, n_per_family, with_model=False, batch=None):
    from ekw import c17_sampled as S
    model_q = []        # (where, case, driver line, expectation) for the Model/Json comparison
    try:
        S.registry()
        S.exec_message_classes()
        S.gateway_pairs()
    except Exception as e:
        ctx.violation({"kind": "module-import-failed", "family": "sampled"}, {"family": "import", "module": "cascade.executor.msg / gateway.api / controller.report / low.core"},
                      f"importing the message modules raised {type(e).__name__}: {e}")
        return
    cases = [c for c in _load_corpus() if c.get("family") in S.FAMILIES]
    try:
        sweep = S.sweep_cases()
    except Exception as e:      # a message class the sweep cannot enumerate (new field type): the random part still runs
        sweep = []
        ctx.notes.append(f"sampled sweep not built: {type(e).__name__}: {e}")
    ctx.count("sampled:sweep", len(sweep))
    cases += sweep
    for fam in sorted(S.FAMILIES):
        for _ in range(n_per_family):
            cases.append(S.FAMILIES[fam][0](ctx.rng))
    cases += S.fixed_probes()
    if not ctx.quick:
        cases += S.large_payload_cases()
    reported = set()
    for case in cases:
        case = json.loads(json.dumps(case))        # exactly what a replay file would hold
        r = S.evaluate(case)
        fam = case["family"]
        ctx.case({"family": fam, "cls": case["cls"], "pipe": case["pipe"], "status": r["status"]}, nontrivial=False, sample_every=400)
        if r["status"] != "not-a-value":
            ctx.nontrivial_keys.add(hashlib.sha1(json.dumps(case, sort_keys=True).encode()).hexdigest())
        ctx.count(f"{fam}:{r['status']}")
        ctx.count(f"{fam}:cls:{case['cls']}")
        if "result_value" in case:
            ctx.count("gateway:result_value_through_decoded_result")
        ctx.count(f"{fam}:pipe:{case['pipe']}")
        for p in r["domain_problems"]:
            ctx.count(f"{fam}:outside-domain:{p}")
        if "sweep" in case:
            ctx.count(f"{fam}:sweep")
        for k, n in S.shape_counts(case).items():       # shapes of the random / corpus part and of the sweep, counted apart
            ctx.count(f"{fam}:{'sweep:' if 'sweep' in case else ''}{k}", n)
        if r["status"] == "ok":
            ctx.traces += 1
        if with_model and fam in ("job", "gateway") and r["status"] in ("ok", "mismatch", "rejected", "decode-error"):
            _queue_model(ctx, S, case, r, model_q)
        for sig, what in r["violations"]:
            # reported (and shrunk) once per kind of failure: family, kind, class, observed alteration -- not per pipe / field
            key = json.dumps({k: v for k, v in sig.items() if k not in ("pipe", "field", "part")}, sort_keys=True)
            ctx.count(f"{fam}:violation:{sig.get('kind')}:{sig.get('alter', '')}")
            if key not in reported:
                reported.add(key)
                vcase = case
                try:
                    small = S.shrink(case, budget=200, sig=sig) if len(reported) <= 16 else case      # bounded in total
                    r2 = S.evaluate(small)
                    hit = [v for v in r2["violations"] if v[0] == sig]
                    if hit:
                        vcase, what = small, hit[0][1]
                except Exception as e:
                    ctx.count("sampled:shrink_failed:" + type(e).__name__)
                ctx.violation(sig, vcase, what)

    if with_model:
        _queue_any(ctx, S, model_q, ctx.budget(300, 6000))
    if model_q:
        _compare_model(ctx, model_q, batch)


def _queue_model(ctx, S, case, r, q):
    """Model/Json.lean against the real JSON encoders, case by case: the model must refuse exactly when the real encoder
    refuses (and for the same reason), otherwise write the SAME BYTES; its own round trip must say `preserved` exactly when
    the real round trip preserved the value, and its loader must read the real document (parsed by an independent parser)."""
    fam = case["family"]
    try:
        if fam == "job":
            mi = S.job_model_input(S.build(case["spec"]))
            real = S.LAST_JOB_BYTES[0]
            if real is not None and len(real) > 200000:
                ctx.count("model:skipped:large")
                return
            exp = {"rejected": S.enc_err_kind(r["detail"]) if r["status"] == "rejected" else None, "bytes": real,
                   "preserved": r["status"] == "ok"}
            q.append(("job-json", case, {"op": "job", "job": mi, "real": S.doc_to_model(real) if real is not None else None}, exp))
            return
        req, rsp = S.build(case["spec"]), S.build(case["rsp"])
        rq, rs = S.LAST_GW_BYTES["req"], S.LAST_GW_BYTES["rsp"]
        if (rq is not None and len(rq) > 200000):
            ctx.count("model:skipped:large")
            return
        req_rejected = r["status"] == "rejected" and r["part"] == "request"
        if rq is None and not req_rejected:
            return
        qi = S.gw_model_input(req)
        exp = {"rejected": S.enc_err_kind(r["detail"]) if req_rejected else None, "bytes": rq,
               "preserved": not (r["status"] in ("mismatch", "decode-error") and r["part"] == "request")}
        q.append(("gateway-request-json", case, {"op": "gwreq", "req": qi, "real": S.doc_to_model(rq) if rq is not None else None}, exp))
        if rs is not None and not req_rejected and exp["preserved"]:
            try:
                ri = S.gw_model_input(rsp)
                exp2 = {"rejected": None, "bytes": rs, "preserved": r["status"] == "ok", "answers": True}
                q.append(("gateway-response-json", case, {"op": "gwrsp", "req": qi, "rsp": ri, "real": S.doc_to_model(rs)}, exp2))
            except S.NotModelled:
                ctx.count("model:not-modelled:response")
    except S.NotModelled as e:
        ctx.count(f"model:not-modelled:{fam}:{e}")
    except Exception as e:
        ctx.count("model:input_failed:" + type(e).__name__)
        ctx.disagree("model-input", case if len(json.dumps(case)) < 3000 else {"cls": case["cls"]}, f"{type(e).__name__}: {e}", "the harness could not describe the real message to the model")


def _queue_any(ctx, S, q, n):
    """values of type Any straight through orjson.dumps / orjson.loads against encAny / decAny / render and the predicates the
    theorems are stated with (Native, Lossless, Refused)"""
    import orjson
    prof = S.Profile("json", bad=True)
    specs = list(S.SWEEP_ANY) + list(S.SWEEP_ANY_NON_JSON)
    for _ in range(n):
        prof.exotic = ctx.rng.choice([0.0, 0.1, 0.3, 0.5])
        specs.append(S.gen_json_any(ctx.rng, prof))
    for spec in specs:
        spec = json.loads(json.dumps(spec))
        try:
            v = S.build(spec)
            mi = S.py_to_model(v)
        except S.NotModelled:
            ctx.count("any:not-modelled")
            continue
        except Exception as e:
            ctx.count("any:build_failed:" + type(e).__name__)
            continue
        exp = {"rejected": None, "bytes": None, "preserved": None, "any": True, "native": not S.json_domain_problems(spec, any_leaf=True)}
        back = None
        try:
            b = orjson.dumps(v)
            exp["bytes"] = b
            back = orjson.loads(b)
            exp["preserved"] = not S.diffs(v, back, limit=1)
        except Exception as e:
            exp["rejected"] = S.enc_err_kind(str(e))
        ctx.count("any:" + ("rejected:" + exp["rejected"] if exp["rejected"] else "preserved" if exp["preserved"] else "altered"))
        for cl in sorted(set(S.json_domain_problems(spec, any_leaf=True))):
            ctx.count("any:with:" + cl)
        try:
            q.append(("any-json", {"family": "any", "spec": spec}, {"op": "any", "v": mi, "back": S.py_to_model(back)}, exp))
        except S.NotModelled:
            ctx.count("any:not-modelled")


def _compare_model(ctx, q, batch):
    # the driver runs in Lean's interpreter (about 1 s per MB of input): documents above 20 kB are compared for a few cases only
    # (quick tier), the sweep of the gateway classes -- one leaf changed per case -- every other case
    lines, q2, big = [], [], 0
    for k, item in enumerate(q):
        text = json.dumps(item[2], ensure_ascii=False)
        if len(text) > 20000:
            big += 1
            if big > ctx.budget(12, 400):
                ctx.count("model:skipped:large")
                continue
        if ctx.quick and "sweep" in item[1] and item[1]["sweep"] % 2 == 1 and len(text) > 1500:
            ctx.count("model:skipped:thinned-sweep")
            continue
        if ctx.quick and k % 3 and item[2].get("real") is not None and not item[3].get("any"):
            # quick tier: the model's loader reads the real document (parsed by the stdlib parser) for every third case only;
            # the byte-for-byte comparison of the text and the model's own round trip stay for all
            item = (item[0], item[1], dict(item[2], real=None), dict(item[3], no_real=True))
            text = json.dumps(item[2], ensure_ascii=False)
        lines.append(text)
        q2.append(item)
    q = q2

    def handle(res):
        nd = {}
        for (where, case, line, exp), out in zip(q, res):
            ctx.traces += 1
            ctx.count(f"model:compared:{where}")
            try:
                m = json.loads(out)
            except Exception:
                m = {"driver_output": out[:300]}
            bad = None
            if not isinstance(m, dict) or "driver_error" in m or "driver_output" in m:
                bad = ("driver", m, "a verdict")
            elif exp["rejected"] is not None:
                if m.get("err") != exp["rejected"]:
                    bad = ("refusal", m.get("err", "accepted"), exp["rejected"])
            elif "text" not in m:
                bad = ("refusal", m.get("err"), "accepted: " + repr(exp["bytes"][:120]))
            elif m["text"] != exp["bytes"].hex():
                mt = bytes.fromhex(m["text"])
                k = next((i for i, (x, y) in enumerate(zip(mt, exp["bytes"])) if x != y), min(len(mt), len(exp["bytes"])))
                bad = ("text", repr(mt[max(0, k - 40):k + 40]), repr(exp["bytes"][max(0, k - 40):k + 40]) + f" (first difference at byte {k})")
            elif exp.get("any"):
                if m.get("back") is not True:
                    bad = ("loads", "decAny differs", "what orjson.loads returned")
                elif m.get("lossless") != exp["preserved"]:
                    bad = ("lossless-predicate", m.get("lossless"), f"value preserved by the real round trip: {exp['preserved']}")
            elif m.get("reload") != exp["preserved"]:
                bad = ("reload", m.get("reload"), f"real round trip preserved the message: {exp['preserved']}")
            elif not exp.get("no_real") and m.get("load_real") != exp["preserved"]:
                bad = ("load-of-real-document", m.get("load_real"), f"real round trip preserved the message: {exp['preserved']}")
            if bad is None and exp.get("any"):
                if m.get("refused") != (exp["rejected"] is not None):
                    bad = ("refused-predicate", m.get("refused"), f"orjson refused: {exp['rejected']}")
                elif m.get("native") != exp["native"]:
                    bad = ("native-predicate", m.get("native"), f"harness classification (JSON-native): {exp['native']}")
            if bad is None and where == "job-json" and m.get("native") is True and (exp["rejected"] or not exp["preserved"]):
                bad = ("native-predicate", True, "the real round trip refused / altered a job the model calls JSON-native")
            if bad is None and where == "gateway-response-json" and m.get("answers") is not True:
                bad = ("answers", m.get("answers"), True)
            if bad:
                nd[where] = nd.get(where, 0) + 1
                if nd[where] <= 5:
                    ctx.disagree(f"{where}-{bad[0]}", case if len(json.dumps(case)) < 4000 else {"case": "large", "cls": case.get("cls")},
                                 _short(bad[1]), _short(bad[2]))
    batch.add(lines, handle)


WIRE_LENS = [0, 1, 24, 255, 1000, 1018, 1019, 1020, 1021, 1024, 1500, 4096, 9000, 32768, 60000, 65400, 65490, 65498, 65502, 65503, 65507, 65600, 70000]


def _wire_cases(rng, classes, n):
    """(request, response) pairs of in-domain messages; string lengths around the old 1024-byte buffer, the page sizes and
    the largest datagram (65507 bytes); every class in both directions"""
    reqs = [c for c, (cls, fl, base) in classes.items() if not base and not c.endswith("Response")]
    rsps = [c for c, (cls, fl, base) in classes.items() if not base and c.endswith("Response")]

    def vals(cname, long_field=None, L=0):
        out = []
        for i, (fn, tp) in enumerate(classes[cname][1]):
            if _is_enum(tp):
                out.append({"i": str(int(rng.choice(list(tp)).value))})
            elif tp is int:
                out.append({"i": str(rng.choice([0, 1, 2**32, 2**63, 2**64 - 1, rng.getrandbits(64)]))})
            elif fn == long_field:
                out.append(_sv(rng.choice("kKxz09_") * L))
            else:
                out.append(_sv("".join(rng.choice(_ALPHA) for _ in range(rng.choice([0, 1, 8, 24, 32])))))
        return out

    def strf(cname):
        return [fn for fn, tp in classes[cname][1] if tp is str]
    cases = []
    # every class, every string field, every length of the list (deterministic part)
    k = 0
    for L in WIRE_LENS:
        for c in reqs + rsps:
            for f in strf(c) or [None]:
                if f is None and L != WIRE_LENS[0]:
                    continue
                k += 1
                if c in reqs:
                    r2 = rsps[k % len(rsps)]
                    cases.append(({"cls": c, "vals": vals(c, f, L)}, {"cls": r2, "vals": vals(r2)}))
                else:
                    r1 = reqs[k % len(reqs)]
                    cases.append(({"cls": r1, "vals": vals(r1)}, {"cls": c, "vals": vals(c, f, L)}))
    # exactly the largest datagram, and one byte more, for three request and three response classes (class headers differ)
    from ekw.c17_wire import MAX_DATAGRAM
    exact = []
    for c in rng.sample([c for c in reqs + rsps if strf(c)], 6):
        f = strf(c)[-1]
        probe = {"family": "shm", "cls": c, "vals": vals(c, f, 0)}
        e = real_enc(probe, classes)
        if "ok" not in e:
            continue
        room = MAX_DATAGRAM - len(e["ok"]) // 2
        for L in (room, room + 1):
            m = {"cls": c, "vals": [(_sv("m" * L) if fn == f else v) for (fn, _), v in zip(classes[c][1], probe["vals"])]}
            other = rsps[0] if c in reqs else reqs[0]
            exact.append((m, {"cls": other, "vals": vals(other)}) if c in reqs else ({"cls": other, "vals": vals(other)}, m))
    # the deterministic part is sampled: mostly the short ones (the driver reads about 1 MB per second), a fixed share of long ones
    def longest(case):
        return max([len(v.get("s", [])) for side in case for v in side["vals"]] + [0])
    short = [c for c in cases if longest(c) <= 9000]
    long_ = [c for c in cases if longest(c) > 9000]
    rng.shuffle(short)
    rng.shuffle(long_)
    n_long = max(8, n // 6)
    cases = exact + long_[:n_long] + short[:max(0, n - n_long - len(exact) - n // 5)]
    while len(cases) < n:
        c1, c2 = rng.choice(reqs), rng.choice(rsps)
        f1, f2 = (rng.choice(strf(c1)) if strf(c1) and rng.random() < 0.6 else None), (rng.choice(strf(c2)) if strf(c2) and rng.random() < 0.6 else None)
        L1 = rng.choice(WIRE_LENS[:12]) + rng.choice([-1, 0, 0, 1]) if rng.random() < 0.8 else rng.randint(0, 66000)
        L2 = rng.choice(WIRE_LENS[:12]) + rng.choice([-1, 0, 0, 1]) if rng.random() < 0.8 else rng.randint(0, 66000)
        cases.append(({"cls": c1, "vals": vals(c1, f1, max(0, L1))}, {"cls": c2, "vals": vals(c2, f2, max(0, L2))}))
    return cases


def _wire_obj(m, classes):
    cls, fields, _ = classes[m["cls"]]
    return cls(**{n: py_val(v, tp) for (n, tp), v in zip(fields, m["vals"])})


def _wire_canon(msg, classes):
    name = type(msg).__name__
    if name not in classes:
        return {"cls": name, "vals": []}
    return {"cls": name, "vals": [canon_val(getattr(msg, n, None)) for n, _ in classes[name][1]]}


def wire_eval(w, case, classes):
    """one exchange over the real sockets -> {"c2s": outcome, "s2c": outcome}, outcome = {"ok": msg} | {"err": ...}, and the
    oracle's findings [(signature, what)]"""
    from ekw import c17_wire as W
    import cascade.shm.api as api
    req, rsp = _wire_obj(case[0], classes), _wire_obj(case[1], classes)
    for attempt in range(3):
        out = w.exchange(req, rsp)
        # a datagram that never arrives (time-out on a loaded machine: UDP may drop) is confirmed by repeating the exchange
        if not any(o["got"] is None and o["sender_raised"] is None and o["error"] not in (None, "not-run") for o in (out["c2s"], out["s2c"])):
            break
    res, viols = {}, []
    wr = out.get("wrapper")
    if wr is not None:
        res["wrapper"] = wr["name"] + (":skipped" if "skipped" in wr else "")
        for what, got, want in wr.get("problems", []):
            viols.append(({"kind": "client-wrapper-alters", "family": "shm-wire", "cls": case[0]["cls"], "wrapper": wr["name"], "what": what},
                          f"client.{wr['name']}({_show(case[0], classes)}) answered with {_show(case[1], classes)}: {what} is {got}, the response / the call says {want}"))
    for d, sent_case, sent in (("c2s", case[0], req), ("s2c", case[1], rsp)):
        o = out[d]
        if o["error"] == "not-run":
            res[d] = None
            continue
        n = len(api.ser(sent))
        show = _show(sent_case, classes)
        if o["sender_raised"] is not None:
            res[d] = {"err": "msgsize"}
            if n <= W.MAX_DATAGRAM:
                viols.append(({"kind": "in-domain-message-refused-by-transport", "family": "shm-wire", "dir": d, "cls": sent_case["cls"]},
                              f"{d}: sending {show} ({n} bytes) raised {o['sender_raised']}"))
        elif o["got"] is None:
            res[d] = {"err": "decode"}
            viols.append(({"kind": "not-delivered", "family": "shm-wire", "dir": d, "cls": sent_case["cls"]},
                          f"{d}: {show} ({n} bytes) was sent without error and the receiving side got nothing it could decode: {o['error']}"))
        else:
            got = _wire_canon(o["got"], classes)
            res[d] = {"ok": got}
            if got != sent_case:
                alter = "class" if got["cls"] != sent_case["cls"] else next(
                    (f"{fn}:" + ("shorter" if len(g.get("s", [])) < len(v.get("s", [])) else "changed") for (fn, _), g, v in zip(classes[sent_case["cls"]][1], got["vals"], sent_case["vals"]) if g != v), "?")
                viols.append(({"kind": "silently-altered-on-the-wire", "family": "shm-wire", "dir": d, "cls": sent_case["cls"], "alter": alter},
                              f"{d}: {show} ({n} bytes) was sent without error and decoded as {_show(got, classes)}"))
    return res, viols


def _wire_shrink(w, case, sig, classes):
    """shorten the long strings while the same failure stays"""
    def bad(c):
        return any(v[0] == sig for v in wire_eval(w, c, classes)[1])
    cur = case
    for side in (0, 1):
        for i, v in enumerate(cur[side]["vals"]):
            if "s" in v and len(v["s"]) > 1:
                lo, hi = 0, len(v["s"])        # lo passes (or unknown), hi fails
                while hi - lo > 1:
                    mid = (lo + hi) // 2
                    c2 = [dict(cur[0]), dict(cur[1])]
                    c2[side] = dict(cur[side], vals=cur[side]["vals"][:i] + [{"s": v["s"][:mid]}] + cur[side]["vals"][i + 1:])
                    if bad(tuple(c2)):
                        hi = mid
                    else:
                        lo = mid
                c2 = [dict(cur[0]), dict(cur[1])]
                c2[side] = dict(cur[side], vals=cur[side]["vals"][:i] + [{"s": v["s"][:hi]}] + cur[side]["vals"][i + 1:])
                if bad(tuple(c2)):
                    cur = tuple(c2)
    return cur


def _run_wire(ctx, with_model, n, batch=None):
    """cascade.shm end to end: real client, real server, real UDP sockets (ekw/c17_wire.py)"""
    from ekw import c17_wire as W
    try:
        classes = shm_classes()
        w = W.Wire()
    except Exception as e:
        ctx.notes.append(f"shm wire not run: {type(e).__name__}: {e}")
        ctx.count("wire:not-run")
        return
    try:
        measured = W.probe_max_datagram()
        ctx.count(f"wire:max_datagram_measured:{measured}")
        cases = [tuple(c["pair"]) for c in _load_corpus() if c.get("family") == "shm-wire"] + _wire_cases(ctx.rng, classes, n)
        results, reported = [], set()
        for case in cases:
            try:
                res, viols = wire_eval(w, case, classes)
            except Exception as e:
                ctx.count("wire:harness_error:" + type(e).__name__)
                results.append(None)
                if "harness" not in reported:       # a case the harness could not evaluate is reported, never skipped silently
                    reported.add("harness")
                    ctx.violation({"kind": "harness-error", "family": "shm-wire", "exc": type(e).__name__},
                                  {"family": "shm-wire", "pair": [case[0], case[1]]}, f"shm wire exchange could not be evaluated: {type(e).__name__}: {e}"[:300])
                continue
            results.append(res)
            ctx.case({"family": "shm-wire", "req": _show(case[0], classes), "rsp": _show(case[1], classes)}, nontrivial=True, sample_every=50)
            ctx.count("wire:request_sent_by:" + ("client." + res["wrapper"] if res.get("wrapper") else "_send_command"))
            for d in ("c2s", "s2c"):
                if res.get(d) is not None:
                    ctx.count(f"wire:{d}:" + ("delivered" if "ok" in res[d] else res[d]["err"]))
                    ctx.count(f"wire:{d}:cls:" + case[0 if d == "c2s" else 1]["cls"])
            for side in (0, 1):
                L = max([len(v.get("s", [])) for v in case[side]["vals"]] + [0])
                ctx.count("wire:longest_string:" + ("<=1019" if L <= 1019 else "1020..4096" if L <= 4096 else "4097..65000" if L <= 65000 else "65001..65507" if L <= 65507 else ">65507"))
            for sig, what in viols:
                key = json.dumps(sig, sort_keys=True)
                if key in reported:
                    ctx.count("wire:oracle_failures_same_kind")
                    continue
                reported.add(key)
                small = case
                try:
                    small = _wire_shrink(w, case, sig, classes)
                    what = next((v[1] for v in wire_eval(w, small, classes)[1] if v[0] == sig), what)
                except Exception as e:
                    ctx.count("wire:shrink_failed:" + type(e).__name__)
                ctx.violation(sig, {"family": "shm-wire", "pair": [small[0], small[1]]}, what)
    finally:
        w.close()
    if not with_model:
        return
    lines = [json.dumps({"op": "limits"})]
    idx = []
    for k, (case, res) in enumerate(zip(cases, results)):
        if res is None:
            continue
        for d, side in (("c2s", 0), ("s2c", 1)):
            if res.get(d) is not None:
                lines.append(json.dumps({"op": "wire", "dir": d, "cls": case[side]["cls"], "vals": [_wire(v) for v in case[side]["vals"]]}))
                idx.append((k, d, side))

    def handle(out):
        lim = json.loads(out[0])
        ctx.traces += 1
        if lim.get("max_datagram") != measured:
            ctx.disagree("wire-max-datagram", {"op": "limits"}, lim, {"largest datagram sendto accepts on this host": measured})
        ctx.extra["wire"] = {"model_limits": lim, "max_datagram_measured": measured}
        nd = 0
        for (k, d, side), line in zip(idx, out[1:]):
            ctx.traces += 1
            m = _unwire(json.loads(line))
            r = results[k][d]
            if isinstance(m, dict) and m.get("err", "").startswith("decode:"):
                m = {"err": "decode"}
            if m != r and nd < 10:
                nd += 1
                ctx.disagree("shm-wire-" + d, {"msg": _show(cases[k][side], classes)}, _short(m), _short(r))
    batch.add(lines, handle)


def _run(ctx, with_model):
    batch = Batch()
    _run_shm(ctx, with_model, ctx.budget(1000, 50000), batch=batch)
    _run_wire(ctx, with_model, ctx.budget(100, 3000), batch=batch)
    _run_sampled(ctx, ctx.budget(150, 4000), with_model, batch=batch)
    batch.flush(ctx)


def correspond(ctx):
    _run(ctx, True)


def oracle_only(ctx):
    _run(ctx, False)


def search(ctx, why):
    """(P) or (T) broken: look harder for a failing input on the real code (oracle only)."""
    try:
        classes = shm_classes()
    except Exception:
        return
    have = {json.dumps(v["signature"], sort_keys=True) for v in ctx.violations}
    n = ctx.budget(20000, 200000)
    for _ in range(n):
        case = rand_case(ctx.rng, classes)
        v = shm_oracle(case, classes)
        ctx.count("search:shm")
        if v is not None and json.dumps(v[0], sort_keys=True) not in have:
            have.add(json.dumps(v[0], sort_keys=True))
            small = shm_shrink(case, v[0]["kind"], classes)
            v2 = shm_oracle(small, classes) or v
            ctx.violation(v2[0], small, v2[1])


def replay(payload):
    case = payload["case"]
    if case.get("family") == "import":
        import importlib
        try:
            for m in ("cascade.shm.api", "cascade.executor.msg", "cascade.gateway.api", "cascade.controller.report", "cascade.low.core"):
                importlib.import_module(m)
        except Exception as e:
            print("import failed:", type(e).__name__, e)
            return 1
        print("imports fine")
        return 0
    if case.get("family") == "shm-probe":
        import cascade.shm.api as api
        classes = shm_classes()
        cls, fields, _ = classes[case["cls"]]
        kw = {n: (_LongStr("k") if n == case["field"] else (list(tp)[0] if _is_enum(tp) else 1 if tp is int else n)) for n, tp in fields}
        try:
            b = api.ser(cls(**kw))
            print(f"api.ser({case['cls']}({case['field']}=<str whose len() is 2^32>)) returned {len(b)} bytes: accepted")
            return 1
        except Exception as e:
            print("raised", type(e).__name__, e)
            return 0
    if case.get("family") == "shm-wire":
        from ekw import c17_wire as W
        classes = shm_classes()
        w = W.Wire()
        try:
            pair = tuple(case["pair"])
            print("request :", _show(pair[0], classes))
            print("response:", _show(pair[1], classes))
            res, viols = wire_eval(w, pair, classes)
        finally:
            w.close()
        for d in ("c2s", "s2c"):
            r = res.get(d)
            print(f"{d}     :", "not run" if r is None else _show(r["ok"], classes) if "ok" in r else r)
        for _, what in viols:
            print("oracle  :", what)
        if not viols:
            print("oracle  : ok")
        return 1 if viols else 0
    if case.get("family") == "shm":
        classes = shm_classes()
        print("message :", _show(case, classes))
        e = real_enc(case, classes)
        print("api.ser :", _short(e))
        if "ok" in e:
            print("api.deser:", _short(real_dec(e["ok"], classes)))
        v = shm_oracle(case, classes)
        print("oracle  :", v[1] if v else "ok")
        return 1 if v else 0
    from ekw import c17_sampled as S
    r = S.evaluate(case)
    print("case    :", json.dumps(case)[:1500])
    print("status  :", r["status"], r["part"], r["detail"])
    print("oracle  :", r["violation"][1] if r["violation"] else "ok")
    return 1 if r["violation"] else 0
