"""C19 — a job accepted by the builder is well formed and carries the values given.

Tie: the real TaskBuilder.from_callable / with_values and JobBuilder.with_node / with_edge / build
(cascade/low/builders.py) against Model/Builder.lean, op by op, on random builder programs. Every
builder call creates a new object; after every op ALL objects created so far are re-snapshotted on
the real side and compared with the model's (append-only) store.
Oracle: written from the property text only (no use of the model): build never raises, an accepted
job has only well-formed edges and is exactly the description given, bound values sit under exactly
the given positions / names, earlier builders / jobs never change.
"""
import builtins
import copy
import glob
import json
import re

PROPERTY = "C19"
LEVEL_TEXT = ("Lean theorems over Model/Builder.lean (from_callable, with_values, with_node, with_edge, build with get_edge_errors branch by "
              "branch): an accepted job has exactly the builder's tasks and edges and every edge starts at an existing output of an existing "
              "task and ends at an existing task and (keyword edges) an existing parameter of compatible declared type; for tasks whose "
              "declared types are absent or evaluable (builtin) classes build returns a job or a non-empty problem list, never an exception, "
              "for every program of builder calls; with_values binds args[i] under position i and the last k=v under k, overriding earlier "
              "bindings and defaults only there; every builder call creates a new object and earlier objects never change. Unbounded in the "
              "number of tasks, parameters, values, edges and calls; tied to the real builders by an op-by-op correspondence check.")
LEVEL_NOTE = ("modelled, not verified: builders.py TaskBuilder.from_callable/with_values, JobBuilder.with_node/with_edge/build; inspect.signature, "
              "pydantic validation/model_copy, pyrsistent and cloudpickle are exercised by the real calls but trusted. The type universe is a "
              "parameter of the model (evaluable names + subclass relation); the driver instantiates it with the builtin classes. static_input_ps "
              "keys are positions (Nat) in the model, str(position) in the code. Annotations that are not classes (-> None, typing constructs) "
              "are outside the quantifier: from_callable raises AttributeError on `-> None`.")
TECHNIQUE = "Lean 4 proof (case analysis of get_edge_errors, induction over dict merges and over builder programs) + differential correspondence with the real builders"
LEAN_PROPS = ["EkwVerif.Props.C19"]
LEAN_DRIVERS = ["C19"]
RULE = ("random builder programs of 6-22 calls over an object store: from_callable on exec-generated signatures (positional-only, "
        "positional-or-keyword, *args, keyword-only, **kw; defaults; builtin / absent / string annotations, a few non-evaluable ones), "
        "with_values with 0-3 positional and 0-2 keyword values (ints, 2-character strings, pairs, lists, None, bool, float, bytes, dict; "
        "matching or violating the annotation; unknown keywords), with_node (incl. re-binding a name), with_edge (existing and dangling: "
        "missing source task / source output / sink task / sink parameter, positional edges, type-compatible and incompatible), build on any "
        "earlier builder. non-trivial = program with an accepted job having >= 1 edge or a problem list with an edge problem; distinct by content hash")
ASSUMPTIONS = [
    "annotations are builtin classes, absent, or strings naming them (the property's quantifier); a few non-evaluable names exercise the NameError branch and are exempt from the crash oracle",
    "values are compared by (class name, repr)",
    "node iteration order of pyrsistent.PMap is not part of the property: problem lists are compared with the static-input part sorted",
]

BUILTIN_TYS = ["int", "str", "float", "bool", "list", "tuple", "dict", "bytes", "object"]
EXOTIC_TYS = ["grib.mir", "grib.earthkit", "latitude", "Foo"]
VALUE_POOL = ["7", "0", "-3", "'xy'", "'ab'", "'q'", "''", "'hello'", "('x', 1)", "(1, 2)", "('a', 'b')", "[1, 2]", "['k', 'v']",
              "None", "True", "1.5", "b'ab'", "{'a': 1}"]
BY_TYPE = {}
for _r in VALUE_POOL:
    BY_TYPE.setdefault(type(eval(_r)).__name__, []).append(_r)
NAMES = ["s", "k", "m", "n"]
PARAMS = ["a", "b", "c", "d", "x", "y"]


def mkval(r):
    v = eval(r, {"__builtins__": {}}, {})
    return {"ty": type(v).__name__, "r": repr(v)}


def pyval(v):
    return eval(v["r"], {"__builtins__": {}}, {})


# ----------------------------------------------------------------------------- generator

def gen_ann(rng):
    x = rng.random()
    if x < 0.38:
        return None, "absent"
    if x < 0.88:
        return rng.choice(BUILTIN_TYS), "class"
    if x < 0.95:
        return rng.choice(BUILTIN_TYS), "string"
    return rng.choice(EXOTIC_TYS), "string"


def gen_default(rng, ann):
    if ann in BY_TYPE and rng.random() < 0.7:
        return mkval(rng.choice(BY_TYPE[ann]))
    return mkval(rng.choice(VALUE_POOL))


def gen_sig(rng):
    names = rng.sample(PARAMS, rng.randint(0, 4))
    n = len(names)
    cut1 = rng.randint(0, n) if rng.random() < 0.25 else 0          # positional-only prefix
    cut2 = rng.randint(cut1, n)                                      # positional-or-keyword
    params = []
    seen_default = False
    for i, nm in enumerate(names):
        kind = "posOnly" if i < cut1 else ("posOrKw" if i < cut2 else "kwOnly")
        ann, how = gen_ann(rng)
        dflt = None
        if kind == "kwOnly":
            if rng.random() < 0.4:
                dflt = gen_default(rng, ann)
        else:
            if seen_default or rng.random() < 0.3:
                dflt = gen_default(rng, ann)
                seen_default = True
        params.append({"name": nm, "kind": kind, "ann": ann, "how": how, "dflt": dflt})
    varpos = rng.random() < 0.15
    varkw = rng.random() < 0.15
    out = []
    for p in params:
        if p["kind"] == "kwOnly" and not any(q["kind"] in ("kwOnly", "varPos") for q in out):
            if varpos:
                out.append({"name": "rest", "kind": "varPos", "ann": None, "how": "absent", "dflt": None})
        out.append(p)
    if varpos and not any(q["kind"] == "varPos" for q in out):
        out.append({"name": "rest", "kind": "varPos", "ann": None, "how": "absent", "dflt": None})
    if varkw:
        out.append({"name": "kws", "kind": "varKw", "ann": None, "how": "absent", "dflt": None})
    ret, rhow = gen_ann(rng)
    return {"op": "task", "params": out, "ret": ret, "rhow": rhow}


def sig_source(op):
    """Python source of a callable with the described signature."""
    parts = []
    ps = op["params"]
    for i, p in enumerate(ps):
        if p["kind"] == "varPos":
            parts.append("*" + p["name"])
            continue
        if p["kind"] == "varKw":
            parts.append("**" + p["name"])
            continue
        if p["kind"] == "kwOnly" and not any(q["kind"] in ("kwOnly", "varPos") for q in ps[:i]):
            parts.append("*")
        s = p["name"]
        if p["ann"] is not None:
            s += ": " + (repr(p["ann"]) if p["how"] == "string" else p["ann"])
        if p["dflt"] is not None:
            s += (" = " if p["ann"] is not None else "=") + p["dflt"]["r"]
        parts.append(s)
        if p["kind"] == "posOnly" and (i + 1 == len(ps) or ps[i + 1]["kind"] != "posOnly"):
            parts.append("/")
    ret = ""
    if op["ret"] is not None:
        ret = " -> " + (repr(op["ret"]) if op["rhow"] == "string" else op["ret"])
    return "def f(" + ", ".join(parts) + ")" + ret + ":\n    return None\n"


def kw_params(op):
    return [p for p in op["params"] if p["kind"] in ("posOrKw", "kwOnly")]


def gen_program(rng, nops):
    ops = []
    kinds = []          # kind of the object each op creates
    sigs = {}           # object index of a task -> the `task` op it descends from

    def add(op, kind, sig=None):
        ops.append(op)
        kinds.append(kind)
        if sig is not None:
            sigs[len(ops) - 1] = sig
        return len(ops) - 1

    for _ in range(rng.randint(2, 3)):
        s = gen_sig(rng)
        add(s, "task", s)
    add({"op": "builder"}, "builder")
    bnodes = {len(ops) - 1: {}}     # builder index -> name -> task index
    for name in rng.sample(NAMES, 2):
        t = rng.randrange(len(sigs))
        i = add({"op": "node", "b": len(ops) - 1, "name": name, "t": t}, "builder")
        bnodes[i] = dict(bnodes[i - 1])
        bnodes[i][name] = t
    while len(ops) < nops:
        tasks = [i for i, k in enumerate(kinds) if k == "task"]
        blds = [i for i, k in enumerate(kinds) if k == "builder"]
        r = rng.random()
        if r < 0.08:
            s = gen_sig(rng)
            add(s, "task", s)
        elif r < 0.28:
            t = rng.choice(tasks)
            sig = sigs[t]
            args = [mkval(rng.choice(VALUE_POOL)) for _ in range(rng.choice([0, 0, 1, 1, 1, 2, 3]))]
            kwargs = []
            cand = kw_params(sig)
            for _ in range(rng.choice([0, 1, 1, 2])):
                if cand and rng.random() < 0.9:
                    p = rng.choice(cand)
                    k = p["name"]
                    if p["ann"] in BY_TYPE and rng.random() < 0.75:
                        v = mkval(rng.choice(BY_TYPE[p["ann"]]))
                    else:
                        v = mkval(rng.choice(VALUE_POOL))
                else:
                    k, v = "zz", mkval(rng.choice(VALUE_POOL))
                if k not in [x[0] for x in kwargs]:
                    kwargs.append([k, v])
            add({"op": "values", "t": t, "args": args, "kwargs": kwargs}, "task", sig)
        elif r < 0.32:
            add({"op": "builder"}, "builder")
            bnodes[len(ops) - 1] = {}
        elif r < 0.55:
            b = rng.choice(blds[-3:])
            t = rng.choice(tasks)
            name = rng.choice(NAMES)
            i = add({"op": "node", "b": b, "name": name, "t": t}, "builder")
            bnodes[i] = dict(bnodes[b])
            bnodes[i][name] = t
        elif r < 0.82:
            b = rng.choice(blds[-3:])
            have = sorted(bnodes[b])
            pick = lambda: rng.choice(have) if have and rng.random() < 0.9 else rng.choice(NAMES + ["nope"])
            src, sink = pick(), pick()
            x = rng.random()
            if x < 0.15:
                into = rng.choice([0, 0, 1, 2, -1])
            elif sink in bnodes[b] and kw_params(sigs[bnodes[b][sink]]) and x < 0.9:
                into = rng.choice(kw_params(sigs[bnodes[b][sink]]))["name"]
            elif sink in bnodes[b] and x < 0.8:
                into = 0                                   # sink without keyword-capable parameters
            else:
                into = rng.choice(PARAMS + ["nope"])
            frum = "0" if rng.random() < 0.9 else rng.choice(["1", "out"])
            i = add({"op": "edge", "b": b, "src": src, "sink": sink, "into": into, "frum": frum}, "builder")
            bnodes[i] = dict(bnodes[b])
        else:
            add({"op": "build", "b": rng.choice(blds[-4:])}, "result")
    if kinds[-1] != "result":
        blds = [i for i, k in enumerate(kinds) if k == "builder"]
        add({"op": "build", "b": blds[-1]}, "result")
    return ops


def strip(op):
    """The op as sent to the Lean driver (generator bookkeeping removed)."""
    if op["op"] == "task":
        return {"op": "task", "ret": op["ret"],
                "params": [{"name": p["name"], "kind": p["kind"], "ann": p["ann"], "dflt": p["dflt"]} for p in op["params"]]}
    return op


# ----------------------------------------------------------------------------- real side

_STATIC_RE = re.compile(r"^invalid static input for (.*?): (.*?) needs (.*?), got <class '(.*)'>$")
_INCOMP_RE = re.compile(r"^edge connects two incompatible nodes: source=(.*)\.([^. ]*) sink_task='(.*?)' sink_input_kw=(None|'.*?') sink_input_ps=(None|-?\d+)$")


def parse_problem(s):
    if not isinstance(s, str):
        return ["unparsed", repr(s)]
    m = _STATIC_RE.match(s)
    if m:
        return ["staticType", m.group(1), m.group(2), m.group(3), m.group(4)]
    m = _INCOMP_RE.match(s)
    if m:
        kw = None if m.group(4) == "None" else m.group(4)[1:-1]
        ps = None if m.group(5) == "None" else int(m.group(5))
        return ["incompatible", [m.group(1), m.group(2), m.group(3), kw, ps]]
    for pre, tag in (("edge pointing from non-existent task ", "fromNoTask"), ("edge pointing from non-existent param ", "fromNoParam"),
                     ("edge pointing to non-existent task ", "toNoTask"), ("edge pointing to non-existent param ", "toNoParam")):
        if s.startswith(pre):
            rest = s[len(pre):]
            if tag == "fromNoTask":
                a, _, b = rest.rpartition(".")
                return [tag, a, b]
            return [tag, rest]
    return ["unparsed", s]


def snap_vals(d):
    return sorted([str(k), type(v).__name__, repr(v)] for k, v in d.items())


def snap_task(t):
    return {"kind": "task", "in": sorted([k, v] for k, v in t.definition.input_schema.items()),
            "out": sorted([k, v] for k, v in t.definition.output_schema.items()),
            "kw": snap_vals(t.static_input_kw), "ps": snap_vals(t.static_input_ps)}


def snap_edge(e):
    return [e.source.task, e.source.output, e.sink_task, e.sink_input_kw, e.sink_input_ps]


def snap(o):
    """Canonical, JSON-like snapshot of a real object (or of a recorded exception)."""
    from cascade.low.builders import JobBuilder
    from cascade.low.core import JobInstance, TaskInstance
    from cascade.low.func import Either
    if isinstance(o, dict):
        return o
    if isinstance(o, TaskInstance):
        return snap_task(o)
    if isinstance(o, JobBuilder):
        return {"kind": "builder", "nodes": sorted([[n, snap_task(t)] for n, t in o.nodes.items()], key=lambda x: x[0]),
                "edges": [snap_edge(e) for e in o.edges]}
    if isinstance(o, Either):
        if o.e:
            ps = [parse_problem(s) for s in o.e] if isinstance(o.e, list) else [["unparsed", repr(o.e)]]
            return {"kind": "problems", "problems": canon_problems(ps)}
        if isinstance(o.t, JobInstance):
            return {"kind": "job", "nodes": sorted([[n, snap_task(t)] for n, t in o.t.tasks.items()], key=lambda x: x[0]),
                    "edges": [snap_edge(e) for e in o.t.edges]}
        return {"kind": "neither", "t": repr(o.t), "e": repr(o.e)}
    return {"kind": "unknown", "repr": repr(o)[:80]}


def canon_problems(ps):
    st = sorted([p for p in ps if p[0] == "staticType"])
    return st + [p for p in ps if p[0] != "staticType"]


def canon_model(j):
    """Model output -> same canonical form as `snap`."""
    k = j.get("kind")
    if k == "task":
        return {"kind": "task", "in": sorted(j["in"]), "out": sorted(j["out"]), "kw": sorted(j["kw"]), "ps": sorted(j["ps"])}
    if k in ("builder", "job"):
        return {"kind": k, "nodes": sorted([[n, canon_model(t)] for n, t in j["nodes"]], key=lambda x: x[0]), "edges": j["edges"]}
    if k == "problems":
        return {"kind": "problems", "problems": canon_problems(j["problems"])}
    return j


def real_op(store, op):
    """Execute one builder call on the real code; returns the new object (or a crash record)."""
    from cascade.low.builders import JobBuilder, TaskBuilder
    kind = op["op"]
    try:
        if kind == "task":
            ns = {}
            exec(sig_source(op), ns)
            return TaskBuilder.from_callable(ns["f"])
        if kind == "values":
            t = store[op["t"]]
            if isinstance(t, dict):
                return {"kind": "invalid"}
            return t.with_values(*[pyval(v) for v in op["args"]], **{k: pyval(v) for k, v in op["kwargs"]})
        if kind == "builder":
            return JobBuilder()
        if kind == "node":
            b, t = store[op["b"]], store[op["t"]]
            if isinstance(b, dict) or isinstance(t, dict):
                return {"kind": "invalid"}
            return b.with_node(op["name"], t)
        if kind == "edge":
            b = store[op["b"]]
            if isinstance(b, dict):
                return {"kind": "invalid"}
            return b.with_edge(op["src"], op["sink"], op["into"], op["frum"])
        if kind == "build":
            b = store[op["b"]]
            if isinstance(b, dict):
                return {"kind": "invalid"}
            return b.build()
    except Exception as e:
        return {"kind": "crash", "err": type(e).__name__, "msg": str(e)[:120]}
    return {"kind": "invalid"}


# ----------------------------------------------------------------------------- oracle

def _cls(name):
    c = getattr(builtins, name, None)
    return c if isinstance(c, type) else None


def compatible(out_ty, in_ty):
    """Declared output type fits declared parameter type; None = the oracle has no opinion (non-builtin names)."""
    if in_ty == "Any" or out_ty == "Any" or in_ty == out_ty:
        return True
    a, b = _cls(out_ty), _cls(in_ty)
    if a is None or b is None:
        return None
    return issubclass(a, b)


class Oracle:
    """What the property text demands, tracked from the ops alone (no model)."""

    def __init__(self):
        self.exp = []        # per object: expected description
        self.first = []      # per object: snapshot when created

    def _exotic(self, desc):
        tys = [ty for t in desc["nodes"].values() for ty in list(self.exp[t]["in"].values()) + list(self.exp[t]["out"].values())]
        return any(ty != "Any" and _cls(ty) is None for ty in tys)

    def check(self, store, op, obj):
        """Returns (kind, extra, text) of the first failure of this step, or None."""
        kind = op["op"]
        crashed = isinstance(obj, dict) and obj.get("kind") == "crash"
        exp = None
        fail = None
        if kind == "task":
            exp = {"k": "task",
                   "in": {p["name"]: (p["ann"] or "Any") for p in op["params"] if p["kind"] in ("posOrKw", "kwOnly")},
                   "out": {"0": op["ret"] or "Any"},
                   "kw": {p["name"]: (p["dflt"]["ty"], p["dflt"]["r"]) for p in op["params"] if p["kind"] in ("posOrKw", "kwOnly") and p["dflt"]},
                   "ps": {}}
            if crashed:
                fail = ("from-callable-crash", {"exc": obj["err"]}, f"from_callable on `{sig_source(op).splitlines()[0]}` raised {obj['err']}: {obj['msg']}")
        elif kind == "values":
            old = self.exp[op["t"]]
            if old is not None:
                exp = copy.deepcopy(old)
                for i, v in enumerate(op["args"]):
                    exp["ps"][str(i)] = (v["ty"], v["r"])
                for k, v in op["kwargs"]:
                    exp["kw"][k] = (v["ty"], v["r"])
                if crashed:
                    fail = ("with-values-crash", {"exc": obj["err"]},
                            f"with_values(*{[v['r'] for v in op['args']]}, **{ {k: v['r'] for k, v in op['kwargs']} }) raised {obj['err']}: {obj['msg']}")
        elif kind == "builder":
            exp = {"k": "builder", "nodes": {}, "edges": []}
        elif kind == "node":
            old = self.exp[op["b"]]
            if old is not None and self.exp[op["t"]] is not None:
                exp = copy.deepcopy(old)
                exp["nodes"][op["name"]] = op["t"]
                if crashed:
                    fail = ("with-node-crash", {"exc": obj["err"]}, f"with_node raised {obj['err']}: {obj['msg']}")
        elif kind == "edge":
            old = self.exp[op["b"]]
            if old is not None:
                exp = copy.deepcopy(old)
                into = op["into"]
                exp["edges"].append([op["src"], op["frum"], op["sink"], into if isinstance(into, str) else None, into if isinstance(into, int) else None])
                if crashed:
                    fail = ("with-edge-crash", {"exc": obj["err"]}, f"with_edge raised {obj['err']}: {obj['msg']}")
        elif kind == "build":
            desc = self.exp[op["b"]]
            if desc is not None:
                exp = {"k": "result"}
                fail = self._check_build(desc, obj, crashed)
        self.exp.append(None if (crashed or exp is None) else exp)
        s = snap(obj)
        self.first.append(s)
        # values / description clause on the new object
        if fail is None and exp is not None and not crashed:
            fail = self._check_desc(exp, s)
        # persistence clause on every earlier object
        if fail is None:
            for i in range(len(store) - 1):
                now = snap(store[i])
                if now != self.first[i]:
                    fail = ("earlier-object-mutated", {"object": self.first[i].get("kind")},
                            f"object #{i} ({self.first[i].get('kind')}) changed after op {op}: was {json.dumps(self.first[i])[:300]} now {json.dumps(now)[:300]}")
                    break
        return fail

    def _task_desc(self, e):
        return {"kind": "task", "in": sorted([k, v] for k, v in e["in"].items()), "out": sorted([k, v] for k, v in e["out"].items()),
                "kw": sorted([k, v[0], v[1]] for k, v in e["kw"].items()), "ps": sorted([k, v[0], v[1]] for k, v in e["ps"].items())}

    def _check_desc(self, exp, s):
        if exp["k"] == "task":
            want = self._task_desc(exp)
            if s.get("kind") != "task":
                return ("not-a-task", {}, f"builder call returned {s}")
            if s["kw"] != want["kw"] or s["ps"] != want["ps"]:
                return ("values-misbound", {}, f"bound values: expected keyword {want['kw']} positional {want['ps']}, task carries keyword {s['kw']} positional {s['ps']}")
            if s["in"] != want["in"] or s["out"] != want["out"]:
                return ("schema-wrong", {}, f"schema: expected in {want['in']} out {want['out']}, got in {s['in']} out {s['out']}")
        if exp["k"] == "builder":
            want_nodes = sorted([[n, self._task_desc(self.exp[t])] for n, t in exp["nodes"].items()], key=lambda x: x[0])
            if s.get("kind") != "builder" or s["nodes"] != want_nodes or s["edges"] != exp["edges"]:
                return ("builder-differs-from-description", {}, f"builder holds {json.dumps(s)[:400]}, described nodes {json.dumps(want_nodes)[:300]} edges {exp['edges']}")
        return None

    def _check_build(self, desc, obj, crashed):
        from cascade.low.core import JobInstance
        from cascade.low.func import Either
        if crashed:
            if self._exotic(desc):
                return None     # non-evaluable annotation: outside the property's quantifier
            return ("build-crash", {"exc": obj["err"]}, f"build() raised {obj['err']}: {obj['msg']}")
        if not isinstance(obj, Either):
            return ("build-result-shape", {}, f"build() returned {type(obj).__name__}")
        if obj.e:
            if obj.t is not None or not isinstance(obj.e, list) or not all(isinstance(x, str) for x in obj.e):
                return ("build-result-shape", {}, f"build() returned problems {obj.e!r} together with {obj.t!r}")
            return None
        job = obj.t
        if not isinstance(job, JobInstance):
            return ("build-result-shape", {}, f"build() returned neither a job nor a problem list: t={obj.t!r} e={obj.e!r}")
        # the job is the description given
        s = snap(obj)
        want_nodes = sorted([[n, self._task_desc(self.exp[t])] for n, t in desc["nodes"].items()], key=lambda x: x[0])
        if s["nodes"] != want_nodes:
            return ("job-differs-from-description", {"part": "tasks"}, f"job tasks {json.dumps(s['nodes'])[:400]} but described {json.dumps(want_nodes)[:400]}")
        if s["edges"] != desc["edges"]:
            return ("job-differs-from-description", {"part": "edges"}, f"job edges {s['edges']} but described {desc['edges']}")
        # every edge well formed (on the job itself)
        for e in job.edges:
            st = job.tasks.get(e.source.task)
            if st is None:
                return ("accepted-dangling-edge", {"which": "source-task"}, f"accepted job has edge {snap_edge(e)} from missing task {e.source.task!r}")
            if e.source.output not in st.definition.output_schema:
                return ("accepted-dangling-edge", {"which": "source-output"}, f"accepted job has edge {snap_edge(e)} from missing output {e.source.output!r}")
            kt = job.tasks.get(e.sink_task)
            if kt is None:
                return ("accepted-dangling-edge", {"which": "sink-task"}, f"accepted job has edge {snap_edge(e)} to missing task {e.sink_task!r}")
            if e.sink_input_kw is not None:
                if e.sink_input_kw not in kt.definition.input_schema:
                    return ("accepted-dangling-edge", {"which": "sink-param"}, f"accepted job has edge {snap_edge(e)} to missing parameter {e.sink_input_kw!r}")
                ot, it = st.definition.output_schema[e.source.output], kt.definition.input_schema[e.sink_input_kw]
                if compatible(ot, it) is False:
                    return ("accepted-dangling-edge", {"which": "incompatible-type"}, f"accepted job has edge {snap_edge(e)} from output of type {ot} into parameter of type {it}")
        return None


def run_program(ops):
    """Run on the real code with the oracle. Returns (snapshots after each op [of the new object], per-step
    full-store snapshots comparison helper, first oracle failure or None)."""
    store = []
    orc = Oracle()
    fail = None
    stores = []
    for i, op in enumerate(ops):
        obj = real_op(store, op)
        store.append(obj)
        f = orc.check(store, op, obj)
        if f and fail is None:
            fail = (f[0], f[1], f[2], i)
        stores.append([snap(o) for o in store])
    return stores, fail


# ----------------------------------------------------------------------------- shrinking

def _drop(ops, i):
    """ops without op i (None if a later op refers to object i); references renumbered."""
    out = []
    for j, op in enumerate(ops):
        if j == i:
            continue
        op = dict(op)
        for key in ("t", "b"):
            if key in op and j > i:
                if op[key] == i:
                    return None
                if op[key] > i:
                    op[key] -= 1
        out.append(op)
    return out


def shrink(ops, pred):
    cur = list(ops)
    changed = True
    while changed:
        changed = False
        for i in range(len(cur) - 1, -1, -1):
            cand = _drop(cur, i)
            if cand is not None and cand and pred(cand):
                cur = cand
                changed = True
        for i, op in enumerate(cur):                      # drop bound values one at a time
            if op["op"] == "values":
                for key in ("args", "kwargs"):
                    for k in range(len(op[key]) - 1, -1, -1):
                        op2 = dict(op)
                        op2[key] = op[key][:k] + op[key][k + 1:]
                        cand = cur[:i] + [op2] + cur[i + 1:]
                        if pred(cand):
                            cur, op, changed = cand, op2, True
    return cur


def _sig_of(fail):
    d = {"kind": fail[0]}
    d.update(fail[1])
    return d


def _same_failure(fail):
    return lambda cand: (lambda f: f is not None and _sig_of(f) == _sig_of(fail))(run_program(cand)[1])


# ----------------------------------------------------------------------------- correspondence

def _model_objs(programs):
    from ekw.core import lean_drive
    lines = []
    for ops in programs:
        lines.append(json.dumps({"op": "reset"}))
        lines += [json.dumps(strip(o)) for o in ops]
    res = lean_drive("C19", lines)
    outs = []
    k = 0
    for ops in programs:
        k += 1
        outs.append([canon_model(json.loads(x)) for x in res[k:k + len(ops)]])
        k += len(ops)
    return outs


def _strip_msg(s):
    if isinstance(s, dict) and s.get("kind") == "crash":
        return {"kind": "crash", "err": s["err"]}
    return s


def _load_corpus():
    from ekw.core import CORPUS_DIR
    out = []
    for f in sorted(glob.glob(str(CORPUS_DIR / "C19_*.json"))):
        out.append(json.load(open(f))["ops"])
    return out


def _account(ctx, ops, stores):
    ctx.count("programs")
    ctx.count("ops", len(ops))
    for o in ops:
        ctx.count("op:" + o["op"])
        if o["op"] == "task":
            for p in o["params"]:
                ctx.count("param:" + p["kind"])
                ctx.count("annotation:" + p["how"])
                if p["dflt"]:
                    ctx.count("param-with-default")
        if o["op"] == "values":
            ctx.count("values:positional", len(o["args"]))
            ctx.count("values:keyword", len(o["kwargs"]))
            for v in o["args"] + [kv[1] for kv in o["kwargs"]]:
                ctx.count("value-type:" + v["ty"])
        if o["op"] == "edge":
            ctx.count("edge:" + ("keyword" if isinstance(o["into"], str) else "positional"))
    nontrivial = False
    final = stores[-1] if stores else []
    for s in final:
        k = s.get("kind")
        if k == "job":
            ctx.count("build:accepted")
            ctx.count("build:accepted-edges", len(s["edges"]))
            if s["edges"]:
                nontrivial = True
        elif k == "problems":
            ctx.count("build:problems")
            for p in s["problems"]:
                ctx.count("problem:" + p[0])
                if p[0] != "staticType":
                    nontrivial = True
        elif k == "crash":
            ctx.count("crash:" + s["err"])
    return nontrivial


def _run_cases(ctx, programs, compare=True):
    real = []
    for ops in programs:
        stores, fail = run_program(ops)
        real.append(stores)
        nt = _account(ctx, ops, stores)
        ctx.case({"ops": [strip(o) for o in ops[:10]], "n_ops": len(ops)}, nontrivial=nt)
        if fail:
            seen = ctx.__dict__.setdefault("_c19_shrunk", {})
            key = json.dumps(_sig_of(fail), sort_keys=True)
            if key not in seen:                         # shrink the first program of every kind of failure only
                small = shrink(ops, _same_failure(fail))
                seen[key] = (small, (run_program(small)[1] or fail)[2])
                ctx.violation(_sig_of(fail), {"ops": small}, seen[key][1])
            else:
                ctx.violation(_sig_of(fail), {"ops": ops}, fail[2])
    if not compare:
        return
    model = _model_objs(programs)
    for ops, stores, mo in zip(programs, real, model):
        ctx.traces += 1
        for i in range(len(ops)):
            want = mo[:i + 1]
            got = [_strip_msg(s) for s in stores[i]]
            if got != want:
                j = next(k for k in range(i + 1) if got[k] != want[k])
                ctx.disagree("builder-op" if j == i else "earlier-object-changed", {"ops": ops[:i + 1], "object": j}, want[j], got[j])
                break


def correspond(ctx):
    n = ctx.budget(600, 12000)
    maxops = ctx.budget(18, 30)
    programs = _load_corpus()
    for _ in range(n):
        programs.append(gen_program(ctx.rng, ctx.rng.randint(6, maxops)))
    _run_cases(ctx, programs)


def oracle_only(ctx):
    programs = _load_corpus() + [gen_program(ctx.rng, ctx.rng.randint(6, 22)) for _ in range(ctx.budget(600, 12000))]
    _run_cases(ctx, programs, compare=False)


def search(ctx, why):
    """(P) or (T) broken: the disagreeing programs were already judged by the oracle in `correspond`;
    widen with fresh programs (oracle only, no model needed)."""
    if ctx.violations:
        return
    programs = [d["case"]["ops"] for d in ctx.disagreements if isinstance(d.get("case"), dict) and "ops" in d["case"]][:50]
    programs += [gen_program(ctx.rng, ctx.rng.randint(6, 26)) for _ in range(ctx.budget(1500, 20000))]
    _run_cases(ctx, programs, compare=False)


def replay(payload):
    ops = payload["case"]["ops"]
    stores, fail = run_program(ops)
    for i, o in enumerate(ops):
        print(f"#{i}", json.dumps(strip(o)), "->", json.dumps(_strip_msg(stores[i][i]))[:300])
    print("oracle:", fail)
    return 1 if fail else 0
