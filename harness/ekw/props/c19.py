"""C19 — a job accepted by the builder is well formed and carries the values given.

Tie: the real TaskBuilder.from_callable / from_entrypoint / with_values and JobBuilder.with_node / with_edge / build
(cascade/low/builders.py) against Model/Builder.lean, op by op, on random builder programs. Every
builder call creates a new object; after every op ALL objects created so far are re-snapshotted on
the real side and compared with the model's (append-only) store.
Oracle: written from the property text only (no use of the model): build never raises; it accepts if and only if every
edge of the description is well formed (existing ends, compatible declared types, no input fed by two edges) and every
keyword static fits its declared builtin type, and reports only problems the description has; an accepted job is exactly
the description given; bound values sit under exactly the given positions / names; the definition (entrypoint, func,
environment, needs_gpu) is what was asked for; earlier builders / jobs / tasks never change — judged on a complete
fingerprint (pydantic model_dump of every earlier object after every call), which is what carries the non-mutation
clause of the property (the Lean model has values, not references).
"""
import builtins
import copy
import glob
import json
import re

PROPERTY = "C19"
LEVEL_TEXT = ("Lean theorems over Model/Builder.lean (from_callable, from_entrypoint, with_values, with_node, with_edge, build with get_edge_errors "
              "branch by branch and the fan-in check): an accepted job has exactly the builder's tasks and edges, every edge starts at an existing "
              "output of an existing task and ends at an existing task and (keyword edges) an existing parameter of compatible declared type, and no "
              "two edges end at the same input of the same task; read as a scheduler job (Model/Presched.lean) every job any program of builder calls "
              "gets accepted satisfies C16's Job.WF and UniqueInputs (c19_accepted_presched_wf_run) - acyclicity is NOT established by build "
              "(c19_accepted_may_be_cyclic); a description with an input fed twice is never accepted; for tasks whose declared types are absent, "
              "nameless (None, unions) or evaluable builtin classes build returns a job or a non-empty problem list, never an exception, for every "
              "program of builder calls (c19_never_crashes_run; its hypothesis OpKnown excludes every program that creates a task with a declared type "
              "name outside the type universe - typing.Optional[...] -> 'Optional', user classes, 'grib.mir' - even when no edge or value touches that "
              "name: for those it says nothing; c19_crash_iff_item_needs_unknown_type says for EVERY builder exactly when build raises: iff a keyword "
              "static is bound to a parameter whose declared type is such a name, or a keyword edge with both ends present joins two declared types "
              "that are not trivially compatible and one of them is such a name - an untouched non-builtin annotation never makes build raise and the "
              "rest of the description is still judged - and c19_every_verdict_run lifts it to every program of builder calls, without hypothesis on the "
              "annotations: every build result in the store is build's verdict on a builder the program made, an exception exactly when that builder "
              "has such an item, else a job or a problem list); the input schema from_callable records has an entry for k iff k names a positional-or-keyword "
              "or keyword-only parameter, whatever the name - self, cls, args (c19_schema_is_exactly_the_keyword_parameters); with_values binds args[i] under position i and the last k=v under k, overriding earlier bindings and defaults "
              "only there. Unbounded in the number of tasks, parameters, values, edges and calls. The clause 'building never mutates previously built "
              "jobs' is NOT carried by a theorem (the model has values, not references: c19_persistent only says that the model's store is "
              "append-only): it is carried by the correspondence check, which after every call re-reads every earlier real object (complete pydantic "
              "model_dump fingerprints, incl. definition.func / environment / entrypoint / needs_gpu) and compares it with that store.")
LEVEL_NOTE = ("modelled, not verified: builders.py TaskBuilder.from_callable/from_entrypoint/with_values, JobBuilder.with_node/with_edge/build; "
              "inspect.signature, pydantic validation/model_copy, pyrsistent and cloudpickle are exercised by the real calls but trusted. The type universe "
              "is a parameter of the model (evaluable names + subclass relation); the driver instantiates it with 14 builtin classes (int str float bool list "
              "tuple dict bytes complex object set frozenset bytearray range; only bool < int and everything < object) - names that builders.py's "
              "namespace happens to resolve otherwise (Callable, Iterable, Type, exception classes, ...) are not generated. Parameter names are "
              "arbitrary strings in the model (self, cls, args are ordinary names: c19_from_callable quantifies over every name). A callable without "
              "an inspectable signature is answered by the driver with a constant (ValueError), no theorem. static_input_ps "
              "keys are positions (Nat) in the model, str(position) in the code (formatted in the driver). Annotations naming something that is not a "
              "builtin class (user classes, typing.Optional[...] whose __name__ is 'Optional') are outside the quantifier: build raises NameError for "
              "them (counted, exempt). Node iteration order of pyrsistent.PMap is abstracted (static-type problems compared as a set). Aliasing between "
              "builders / jobs / tasks (shared TaskInstance objects) is not modelled; see LEVEL_TEXT for how non-mutation is checked.")
TECHNIQUE = ("Lean 4 proof (case analysis of get_edge_errors, induction over dict merges, the fan-in scan and builder programs; implication to the "
             "hypotheses of the C16 model) + differential correspondence with the real builders + independent oracle (accept iff well formed)")
LEAN_PROPS = ["EkwVerif.Props.C19"]
LEAN_DRIVERS = ["C19"]
RULE = ("random builder programs of 6-22 calls over an object store: from_callable on generated callables of the forms def / async def / lambda / "
        "bound method / unbound method C.f (receiver = ordinary first parameter) / classmethod / staticmethod / functools.partial (positional and "
        "keyword-bound) / class / instance with __call__ / functools.wraps-decorated wrapper (__wrapped__) / C builtin incl. bound C methods and "
        "open (8 parameters) / C callables for which inspect has no signature (ValueError expected, outside the quantifier), 0-4 parameters (15%: "
        "5-8), names from a b c d x y and (one third) self cls args kwargs _ _a __p (mangled to _C__p in class bodies) match case type print frum "
        "into node kw rest, non-ASCII identifiers; "
        "*args/**kwargs named args/kwargs unless taken; effective signature computed by the generator and cross-checked with inspect (positional-only, "
        "positional-or-keyword, *args, keyword-only, **kw; defaults; annotations: absent, builtin class (int str float bool list tuple dict bytes object, "
        "a quarter: set frozenset complex bytearray range), string, nameless objects (None, int | None), generic aliases (list[int], set[int], ...), "
        "typing constructs (Optional, Union, List, Set, Dict, Tuple, Any), a few non-evaluable names), values of 14 classes, environment omitted / empty / "
        "given; from_entrypoint; with_values with 0-7 positional and 0-2 keyword values (also the keywords self / args); with_node (incl. re-binding a "
        "name, names with dots, the empty name); with_edge with `frum` omitted or given, existing and dangling ends, positional (also negative) and "
        "keyword inputs (also into self / cls), type-compatible and incompatible, and inputs that an earlier edge of the builder already feeds; build on "
        "any earlier builder. non-trivial = program with an accepted job having >= 1 edge or a problem list with an edge problem; distinct by content hash")
ASSUMPTIONS = [
    "annotations are builtin classes, absent, strings naming them, or objects without __name__ (the property's quantifier); a declared type that is no builtin class exempts exactly the items that need it - a keyword static bound to such a parameter, a keyword edge whose two declared types differ and one of them is such a name (NameError from build allowed only then) - every other static and edge of the same description is judged by the accept-iff oracle, and a description in which no item needs the name is judged in full (counted: oracle:build-*)",
    "a callable for which inspect.signature raises (C callables without text signature) has no signature to quantify over: from_callable must refuse it with inspect's ValueError (checked), nothing else is demanded",
    "values are compared by (class name, repr)",
    "node iteration order of pyrsistent.PMap is not part of the property: problem lists are compared with the static-input part sorted",
    "oracle reading of 'otherwise it returns the list of problems': build accepts IF AND ONLY IF the description is well formed (for builtin/absent types), and every reported problem is one the description has",
    "a default value whose != with inspect.Parameter.empty is not a plain bool (numpy arrays, objects with odd __ne__) is not generated",
]

BUILTIN_TYS = ["int", "str", "float", "bool", "list", "tuple", "dict", "bytes", "object"]
MORE_TYS = ["set", "frozenset", "complex", "bytearray", "range"]          # builtin classes beyond the first nine (audit D, C19 5(b))
ALL_TYS = BUILTIN_TYS * 3 + MORE_TYS                                       # weights: the common ones three times as often
EXOTIC_TYS = ["grib.mir", "grib.earthkit", "latitude", "Foo"]
# annotation OBJECTS that are neither classes nor strings: (source, how, what `__name__` gives)
NAMELESS_ANNS = ["None", "int | None", "str | int", "None | float"]                      # no __name__ at all
GENERIC_ANNS = [("list[int]", "list"), ("dict[str, int]", "dict"), ("tuple[int, ...]", "tuple"),   # __name__ of the origin class
                ("set[int]", "set"), ("frozenset[str]", "frozenset"), ("list[set[int]]", "list")]
TYPING_ANNS = [("Optional[int]", "Optional"), ("Union[int, str]", "Union"), ("List[int]", "List"),  # names that are no classes
               ("Set[int]", "Set"), ("Dict[str, int]", "Dict"), ("Tuple[int, ...]", "Tuple"),
               ("Any", "Any")]                                                                       # typing.Any.__name__ == 'Any': unvalidated
_VAL_NS = {"__builtins__": {}, "set": set, "frozenset": frozenset, "bytearray": bytearray, "range": range}
VALUE_POOL = ["7", "0", "-3", "'xy'", "'ab'", "'q'", "''", "'hello'", "('x', 1)", "(1, 2)", "('a', 'b')", "[1, 2]", "['k', 'v']",
              "None", "True", "1.5", "b'ab'", "{'a': 1}"]
MORE_VALUES = ["{1, 2}", "set()", "frozenset({1})", "1j", "bytearray(b'a')", "range(0, 3)"]
BY_TYPE = {}
for _r in VALUE_POOL + MORE_VALUES:
    BY_TYPE.setdefault(type(eval(_r, dict(_VAL_NS), {})).__name__, []).append(_r)
ALL_VALUES = VALUE_POOL * 3 + MORE_VALUES
NAMES = ["s", "k", "m", "n", "a.b", "s.0", ""]
NAME_WEIGHTS = [6, 6, 5, 5, 2, 1, 1]
PARAMS = ["a", "b", "c", "d", "x", "y"]
# parameter names a contributor's special-casing could single out (audit D, C19 5(a)): the conventional receiver names,
# the conventional names of *args / **kwargs used for ordinary parameters, soft keywords, builtin names, underscores,
# non-ASCII identifiers (NFKC-stable), names that look like the builder's own (`frum`, `into`, `0`-like is impossible)
NEAR_TYS = {"bytes": "bytearray", "bytearray": "bytes", "bool": "int", "int": "bool", "set": "frozenset", "frozenset": "set", "float": "int",
            "complex": "float", "list": "tuple", "tuple": "list", "range": "list", "str": "bytes", "dict": "object", "object": "int"}
SPECIAL_PARAMS = ["self", "cls", "args", "kwargs", "_", "_a", "match", "case", "type", "print", "frum", "into", "node",
                  "\u00e4", "\u03c0", "\u540d", "self_", "mcs", "this", "kw", "rest", "__p"]
# forms whose parameter list is written inside a class body: a name `__p` is MANGLED there (inspect reports `_C__p`)
CLASS_BODY_FORMS = ("method", "unbound", "classmethod", "staticmethod", "class", "instance")
ENVS = [None, None, None, [], ["numpy"], ["numpy", "xarray>=2024"]]
FORMS = (["def"] * 10 + ["lambda", "method", "classmethod", "staticmethod", "partial", "partial", "class", "builtin"]
         + ["unbound", "unbound", "instance", "wrapped", "async", "nosig"])
# C callables without an introspectable signature (inspect.signature raises ValueError)
NOSIG_CALLABLES = ["int", "dict", "range", "min", "max", "getattr", "str", "set", "zip"]

# C builtins: (expression, effective signature as (name, kind, default-repr|None)); checked against inspect.signature at import
BUILTIN_CALLABLES = {
    "len": ("len", [("obj", "posOnly", None)]),
    "divmod": ("divmod", [("x", "posOnly", None), ("y", "posOnly", None)]),
    "sorted": ("sorted", [("iterable", "posOnly", None), ("key", "kwOnly", "None"), ("reverse", "kwOnly", "False")]),
    "pow": ("pow", [("base", "posOrKw", None), ("exp", "posOrKw", None), ("mod", "posOrKw", "None")]),
    "round": ("round", [("number", "posOrKw", None), ("ndigits", "posOrKw", "None")]),
    "isinstance": ("isinstance", [("obj", "posOnly", None), ("class_or_tuple", "posOnly", None)]),
    "print": ("print", [("args", "varPos", None), ("sep", "kwOnly", "' '"), ("end", "kwOnly", "'\\n'"), ("file", "kwOnly", "None"), ("flush", "kwOnly", "False")]),
    "dict.get": ("dict.get", [("self", "posOnly", None), ("key", "posOnly", None), ("default", "posOnly", "None")]),
    "str.upper": ("str.upper", [("self", "posOnly", None)]),
    # more than four parameters; bound C methods
    "open": ("open", [("file", "posOrKw", None), ("mode", "posOrKw", "'r'"), ("buffering", "posOrKw", "-1"), ("encoding", "posOrKw", "None"),
                      ("errors", "posOrKw", "None"), ("newline", "posOrKw", "None"), ("closefd", "posOrKw", "True"), ("opener", "posOrKw", "None")]),
    "compile": ("compile", [("source", "posOrKw", None), ("filename", "posOrKw", None), ("mode", "posOrKw", None), ("flags", "posOrKw", "0"),
                            ("dont_inherit", "posOrKw", "False"), ("optimize", "posOrKw", "-1"), ("_feature_version", "kwOnly", "-1")]),
    "complex": ("complex", [("real", "posOrKw", "0"), ("imag", "posOrKw", "0")]),
    "enumerate": ("enumerate", [("iterable", "posOrKw", None), ("start", "posOrKw", "0")]),
    "[].append": ("[].append", [("object", "posOnly", None)]),
    "'a'.upper": ("'a'.upper", []),
}


def mkval(r):
    v = eval(r, dict(_VAL_NS), {})
    return {"ty": type(v).__name__, "r": repr(v)}


def pyval(v):
    return eval(v["r"], dict(_VAL_NS), {})


# ----------------------------------------------------------------------------- generator

def gen_ann(rng, plain_only=False):
    """(name as the builder will see it | None, how, source text)."""
    x = rng.random()
    if x < 0.34 or plain_only:
        return None, "absent", None
    if x < 0.74:
        t = rng.choice(ALL_TYS)
        return t, "class", t
    if x < 0.80:
        t = rng.choice(ALL_TYS)
        return t, "string", repr(t)
    if x < 0.88:
        return None, "nameless", rng.choice(NAMELESS_ANNS)
    if x < 0.92:
        src, nm = rng.choice(GENERIC_ANNS)
        return nm, "generic", src
    if x < 0.95:
        src, nm = rng.choice(TYPING_ANNS)
        return nm, "typing", src
    t = rng.choice(EXOTIC_TYS)
    return t, "string", repr(t)


def gen_default(rng, ann):
    if ann in BY_TYPE and rng.random() < 0.7:
        return mkval(rng.choice(BY_TYPE[ann]))
    return mkval(rng.choice(ALL_VALUES))


def _blank(name, kind):
    return {"name": name, "kind": kind, "ann": None, "how": "absent", "src": None, "dflt": None}


def gen_names(rng, n):
    """n distinct parameter names: the six plain ones, and (each with probability ~1/3) names that special-casing could
    single out: self / cls / args / kwargs / soft keywords / builtin names / underscores / non-ASCII identifiers."""
    out = []
    while len(out) < n:
        nm = rng.choice(SPECIAL_PARAMS) if rng.random() < 0.34 else rng.choice(PARAMS)
        if nm not in out:
            out.append(nm)
    return out


def gen_sig(rng):
    form = rng.choice(FORMS)
    env = rng.choice(ENVS)
    if form == "builtin":
        name = rng.choice(sorted(_BUILTINS_OK))
        params = [{"name": n, "kind": k, "ann": None, "how": "absent", "src": None, "dflt": (mkval(d) if d is not None else None)}
                  for n, k, d in BUILTIN_CALLABLES[name][1]]
        return {"op": "task", "form": "builtin", "builtin": name, "params": params, "ret": None, "rhow": "absent", "rsrc": None, "env": env}
    if form == "nosig":
        # a C callable for which inspect has no signature: from_callable cannot describe it (ValueError); outside the
        # property's quantifier ("any signature"), counted and compared with the driver's constant answer
        return {"op": "task", "form": "nosig", "builtin": rng.choice(NOSIG_CALLABLES), "params": [], "ret": None, "rhow": "absent",
                "rsrc": None, "env": env}
    plain = form == "lambda"
    n = rng.randint(0, 4) if rng.random() < 0.85 else rng.randint(5, 8)
    names = gen_names(rng, n)
    if form == "unbound" and "self" not in names:
        names = ["self"] + names[:7]                                 # `C.f`: the receiver is an ordinary first parameter
        n = len(names)
    cut1 = rng.randint(0, n) if rng.random() < 0.25 else 0          # positional-only prefix
    cut2 = rng.randint(cut1, n)                                      # positional-or-keyword
    params = []
    seen_default = False
    for i, nm in enumerate(names):
        kind = "posOnly" if i < cut1 else ("posOrKw" if i < cut2 else "kwOnly")
        ann, how, src = gen_ann(rng, plain)
        dflt = None
        if kind == "kwOnly":
            if rng.random() < 0.4:
                dflt = gen_default(rng, ann)
        else:
            if seen_default or rng.random() < 0.3:
                dflt = gen_default(rng, ann)
                seen_default = True
        params.append({"name": nm, "kind": kind, "ann": ann, "how": how, "src": src, "dflt": dflt})
        if form in CLASS_BODY_FORMS and nm.startswith("__") and not nm.endswith("__"):
            params[-1]["src_name"] = nm                     # as written in the source
            params[-1]["name"] = "_C" + nm                  # as the callable has it
    varpos = rng.random() < 0.15
    varkw = rng.random() < 0.15
    # names of *args / **kwargs: the conventional ones unless an ordinary parameter has them
    vp = next(x for x in ("args", "rest", "va_") if x not in names)
    vk = next(x for x in ("kwargs", "kws", "vk_") if x not in names)
    out = []
    for p in params:
        if p["kind"] == "kwOnly" and not any(q["kind"] in ("kwOnly", "varPos") for q in out):
            if varpos:
                out.append(_blank(vp, "varPos"))
        out.append(p)
    if varpos and not any(q["kind"] == "varPos" for q in out):
        out.append(_blank(vp, "varPos"))
    if varkw:
        out.append(_blank(vk, "varKw"))
    ret, rhow, rsrc = gen_ann(rng, plain)
    if form == "class" and rng.random() < 0.7:
        ret, rhow, rsrc = None, "nameless", "None"                    # the usual `def __init__(self, ...) -> None`
    op = {"op": "task", "form": form, "params": out, "ret": ret, "rhow": rhow, "rsrc": rsrc, "env": env}
    if form == "partial":
        # keyword-only parameters WITH a default may get that default from the partial instead of from the def
        op["bound_kw"] = [p["name"] for p in out if p["kind"] == "kwOnly" and p["dflt"] is not None and rng.random() < 0.6]
    return op


def gen_entry(rng):
    schema = [[k, rng.choice(ALL_TYS + ["Any", "Any", "Any", "Any", "Any", "Any", "Foo", "Foo", "latitude"])] for k in gen_names(rng, rng.randint(0, 3))]
    return {"op": "entry", "entrypoint": rng.choice(["pkg.mod.fn", "m.f", ""]), "schema": schema,
            "out": rng.choice(ALL_TYS + ["Any", "Any", "Any", "Any", "Any", "Any", "grib.mir", "grib.mir", "Foo"]), "env": rng.choice(ENVS)}


def _ann_src(p, key_how="how", key_src="src", key_ann="ann"):
    how = p.get(key_how, "absent")
    if how == "absent":
        return None
    src = p.get(key_src)
    if src is not None:
        return src
    return repr(p[key_ann]) if how == "string" else p[key_ann]        # ops of the first version of the corpus


def _params_src(ps, lead=None, no_default=()):
    """Python source of a parameter list; `lead` = extra first parameter (self / cls / the one a partial binds)."""
    parts = []
    if lead is not None:
        parts.append(lead)
    need_slash = lead is not None and any(p["kind"] == "posOnly" for p in ps)
    for i, p in enumerate(ps):
        if p["kind"] == "varPos":
            parts.append("*" + p["name"])
            continue
        if p["kind"] == "varKw":
            parts.append("**" + p["name"])
            continue
        if p["kind"] == "kwOnly" and not any(q["kind"] in ("kwOnly", "varPos") for q in ps[:i]):
            parts.append("*")
        s = p.get("src_name", p["name"])
        a = _ann_src(p)
        if a is not None:
            s += ": " + a
        if p["dflt"] is not None and p["name"] not in no_default:
            s += (" = " if a is not None else "=") + p["dflt"]["r"]
        parts.append(s)
        if p["kind"] == "posOnly" and (i + 1 == len(ps) or ps[i + 1]["kind"] != "posOnly"):
            parts.append("/")
    return ", ".join(parts)


def _lead(ps, want):
    """name of the receiver parameter of a method: the conventional one unless an ordinary parameter has it"""
    names = {p["name"] for p in ps}
    return next(x for x in (want, "this_", "recv_") if x not in names)


def sig_source(op):
    """Python source that leaves the callable in the name `f` (the effective signature of `f` is op['params'] / op['ret'])."""
    form = op.get("form", "def")
    ps = op["params"]
    r = _ann_src(op, "rhow", "rsrc", "ret")
    ret = "" if r is None else " -> " + r
    head = "from typing import Optional, Union, List, Set, Dict, Tuple, Any\nimport functools\n"
    if form in ("builtin", "nosig"):
        return "f = " + (BUILTIN_CALLABLES[op["builtin"]][0] if form == "builtin" else op["builtin"]) + "\n"
    if form == "lambda":
        return "f = lambda " + _params_src(ps) + ": None\n"
    if form == "method":
        return head + "class C:\n    def f(" + _params_src(ps, _lead(ps, "self")) + ")" + ret + ":\n        return None\nf = C().f\n"
    if form == "unbound":           # the plain function `C.f`: its receiver is one of op['params']
        return head + "class C:\n    def f(" + _params_src(ps) + ")" + ret + ":\n        return None\nf = C.f\n"
    if form == "instance":          # an object with __call__
        return head + "class C:\n    def __call__(" + _params_src(ps, _lead(ps, "self")) + ")" + ret + ":\n        return None\nf = C()\n"
    if form == "classmethod":
        return head + "class C:\n    @classmethod\n    def f(" + _params_src(ps, _lead(ps, "cls")) + ")" + ret + ":\n        return None\nf = C.f\n"
    if form == "staticmethod":
        return head + "class C:\n    @staticmethod\n    def f(" + _params_src(ps) + ")" + ret + ":\n        return None\nf = C.f\n"
    if form == "class":
        return head + "class C:\n    def __init__(" + _params_src(ps, _lead(ps, "self")) + ")" + ret + ":\n        pass\nf = C\n"
    if form == "partial":
        bound = op.get("bound_kw", [])
        kws = "".join(", %s=%s" % (p["name"], p["dflt"]["r"]) for p in ps if p["name"] in bound)
        return (head + "def g_(" + _params_src(ps, "p0_", no_default=bound) + ")" + ret + ":\n    return None\n"
                "f = functools.partial(g_, 11" + kws + ")\n")
    if form == "wrapped":           # a decorated function: inspect.signature follows __wrapped__
        return (head + "def g_(" + _params_src(ps) + ")" + ret + ":\n    return None\n"
                "@functools.wraps(g_)\ndef f(*a_, **k_):\n    return g_(*a_, **k_)\n")
    if form == "async":
        return head + "async def f(" + _params_src(ps) + ")" + ret + ":\n    return None\n"
    return head + "def f(" + _params_src(ps) + ")" + ret + ":\n    return None\n"


def make_callable(op):
    ns = {"__name__": "__main__"}
    exec(sig_source(op), ns)
    return ns["f"]


def effective_signature_ok(f, op):
    """Harness self-check (inspect only, no builder code): the callable really has the signature the op describes."""
    import inspect
    kinds = {inspect.Parameter.POSITIONAL_ONLY: "posOnly", inspect.Parameter.POSITIONAL_OR_KEYWORD: "posOrKw",
             inspect.Parameter.VAR_POSITIONAL: "varPos", inspect.Parameter.KEYWORD_ONLY: "kwOnly", inspect.Parameter.VAR_KEYWORD: "varKw"}
    try:
        sig = inspect.signature(f)
    except Exception:
        return False
    got = [(p.name, kinds[p.kind], None if p.default is inspect.Parameter.empty else repr(p.default)) for p in sig.parameters.values()]
    want = [(p["name"], p["kind"], None if p["dflt"] is None else p["dflt"]["r"]) for p in op["params"]]
    return got == want


def _check_builtin_table():
    ok = set()
    for name, (expr, params) in BUILTIN_CALLABLES.items():
        op = {"params": [{"name": n, "kind": k, "dflt": (mkval(d) if d is not None else None)} for n, k, d in params]}
        try:
            if effective_signature_ok(eval(expr), op):
                ok.add(name)
        except Exception:
            pass
    return ok


_BUILTINS_OK = _check_builtin_table() or {"len"}


def kw_params(op):
    if op["op"] == "entry":
        return [{"name": k, "ann": t} for k, t in op["schema"]]
    return [p for p in op["params"] if p["kind"] in ("posOrKw", "kwOnly")]


def _name(rng):
    return rng.choices(NAMES, NAME_WEIGHTS)[0]


def gen_program(rng, nops):
    ops = []
    kinds = []          # kind of the object each op creates
    sigs = {}           # object index of a task -> the `task` / `entry` op it descends from

    def add(op, kind, sig=None):
        ops.append(op)
        kinds.append(kind)
        if sig is not None:
            sigs[len(ops) - 1] = sig
        return len(ops) - 1

    def new_task():
        s = gen_entry(rng) if rng.random() < 0.08 else gen_sig(rng)
        # declared types that MEET: the return class of a new task is (40%) the class of a parameter of an earlier task or a
        # class near it (bytes/bytearray, bool/int, set/frozenset, ...), and (30%) one of its parameters gets the class of an
        # earlier task's return or a class near that - so that keyword edges between two different declared classes are common
        if s["op"] == "task" and s.get("form") not in ("builtin", "nosig", "lambda"):
            near = lambda t: NEAR_TYS.get(t, t) if rng.random() < 0.5 else t
            pool = [p["ann"] for sg in sigs.values() if sg["op"] == "task" for p in kw_params(sg) if p.get("how") == "class"]
            if pool and rng.random() < 0.4:
                t = near(rng.choice(pool))
                s["ret"], s["rhow"], s["rsrc"] = t, "class", t
            rets = [sg["ret"] for sg in sigs.values() if sg["op"] == "task" and sg.get("rhow") == "class"]
            mine = [p for p in kw_params(s) if p["name"] not in s.get("bound_kw", [])]
            if rets and mine and rng.random() < 0.3:
                p = rng.choice(mine)
                t = near(rng.choice(rets))
                if p["dflt"] is None or p["kind"] == "kwOnly":
                    p["ann"], p["how"], p["src"] = t, "class", t
        add(s, "task", s)

    for _ in range(rng.randint(2, 3)):
        new_task()
    add({"op": "builder"}, "builder")
    bnodes = {len(ops) - 1: {}}     # builder index -> name -> task index
    bedges = {len(ops) - 1: []}     # builder index -> [(sink, into)]
    tasks0 = [i for i, k in enumerate(kinds) if k == "task"]
    for name in rng.sample(NAMES[:4], 2):
        t = rng.choice(tasks0)
        i = add({"op": "node", "b": len(ops) - 1, "name": name, "t": t}, "builder")
        bnodes[i] = dict(bnodes[i - 1])
        bnodes[i][name] = t
        bedges[i] = list(bedges[i - 1])
    if rng.random() < 0.3:
        # a keyword edge between two DECLARED CLASSES, drawn from the whole 14 x 14 matrix (half of them from the near pairs:
        # bytes/bytearray, bool/int, set/frozenset, ...): the issubclass verdict of build is exercised pair by pair
        all14 = BUILTIN_TYS + MORE_TYS
        t1 = rng.choice(all14)
        t2 = NEAR_TYS[t1] if rng.random() < 0.5 else rng.choice(all14)
        if rng.random() < 0.5:
            t1, t2 = t2, t1
        pn = rng.choice(PARAMS + SPECIAL_PARAMS)
        ta = {"op": "task", "form": "def", "params": [], "ret": t1, "rhow": "class", "rsrc": t1, "env": None}
        tb = {"op": "task", "form": "def", "params": [{"name": pn, "kind": rng.choice(["posOrKw", "kwOnly"]), "ann": t2, "how": "class", "src": t2, "dflt": None}],
              "ret": None, "rhow": "absent", "rsrc": None, "env": None}
        ia, ib = add(ta, "task", ta), add(tb, "task", tb)
        b = max(bnodes)
        for name, t in (("p", ia), ("q", ib)):
            i = add({"op": "node", "b": b, "name": name, "t": t}, "builder")
            bnodes[i] = dict(bnodes[b], **{name: t})
            bedges[i] = list(bedges[b])
            b = i
        e = {"op": "edge", "b": b, "src": "p", "sink": "q", "into": pn}
        if rng.random() < 0.5:
            e["frum"] = "0"
        i = add(e, "builder")
        bnodes[i] = dict(bnodes[b])
        bedges[i] = bedges[b] + [("q", pn)]
        if rng.random() < 0.5:
            add({"op": "build", "b": i}, "result")
    while len(ops) < nops:
        tasks = [i for i, k in enumerate(kinds) if k == "task"]
        blds = [i for i, k in enumerate(kinds) if k == "builder"]
        r = rng.random()
        if r < 0.08:
            new_task()
        elif r < 0.28:
            t = rng.choice(tasks)
            sig = sigs[t]
            args = [mkval(rng.choice(ALL_VALUES)) for _ in range(rng.choice([0, 0, 1, 1, 1, 2, 3, 5, 7]))]
            kwargs = []
            cand = kw_params(sig)
            for _ in range(rng.choice([0, 1, 1, 2])):
                if cand and rng.random() < 0.9:
                    p = rng.choice(cand)
                    k = p["name"]
                    if p["ann"] in BY_TYPE and rng.random() < 0.75:
                        v = mkval(rng.choice(BY_TYPE[p["ann"]]))
                    else:
                        v = mkval(rng.choice(ALL_VALUES))
                else:
                    k, v = rng.choice(["zz", "zz", "self", "args"]), mkval(rng.choice(ALL_VALUES))
                if k not in [x[0] for x in kwargs]:
                    kwargs.append([k, v])
            add({"op": "values", "t": t, "args": args, "kwargs": kwargs}, "task", sig)
        elif r < 0.32:
            add({"op": "builder"}, "builder")
            bnodes[len(ops) - 1] = {}
            bedges[len(ops) - 1] = []
        elif r < 0.55:
            b = rng.choice(blds[-3:])
            t = rng.choice(tasks)
            name = _name(rng)
            i = add({"op": "node", "b": b, "name": name, "t": t}, "builder")
            bnodes[i] = dict(bnodes[b])
            bnodes[i][name] = t
            bedges[i] = list(bedges[b])
        elif r < 0.82:
            b = rng.choice(blds[-3:])
            have = sorted(bnodes[b])
            pick = lambda: rng.choice(have) if have and rng.random() < 0.9 else rng.choice(NAMES + ["nope"])
            src, sink = pick(), pick()
            typed_src = [n for n in have if sigs[bnodes[b][n]].get("rhow") == "class"]
            if typed_src and rng.random() < 0.4:
                src = rng.choice(typed_src)                    # a source with a declared return class
            x = rng.random()
            if bedges[b] and x < 0.14:
                sink, into = rng.choice(bedges[b])             # an input that an edge of this builder already feeds
            elif x < 0.28:
                into = rng.choice([0, 0, 1, 2, -1, 5])
            elif sink in bnodes[b] and kw_params(sigs[bnodes[b][sink]]) and x < 0.9:
                cand = kw_params(sigs[bnodes[b][sink]])
                typed = [p for p in cand if p.get("how") == "class"]
                into = rng.choice(typed if typed and rng.random() < 0.5 else cand)["name"]
            elif sink in bnodes[b] and x < 0.8:
                into = 0                                   # sink without keyword-capable parameters
            else:
                into = rng.choice(PARAMS + ["nope", "self", "cls", "args"])
            op = {"op": "edge", "b": b, "src": src, "sink": sink, "into": into}
            y = rng.random()
            if y < 0.45:
                pass                                       # `frum` omitted: the default of with_edge
            elif y < 0.9:
                op["frum"] = "0"
            else:
                op["frum"] = rng.choice(["1", "out"])
            i = add(op, "builder")
            bnodes[i] = dict(bnodes[b])
            bedges[i] = bedges[b] + [(sink, into)]
        else:
            add({"op": "build", "b": rng.choice(blds[-4:])}, "result")
    if kinds[-1] != "result":
        blds = [i for i, k in enumerate(kinds) if k == "builder"]
        add({"op": "build", "b": blds[-1]}, "result")
    return ops


def strip(op):
    """The op as sent to the Lean driver (generator bookkeeping removed)."""
    if op["op"] == "task" and op.get("form") == "nosig":
        return {"op": "nosig"}
    if op["op"] == "task":
        def how(h):
            return "nameless" if h == "nameless" else ("absent" if h == "absent" else "named")
        return {"op": "task", "ret": op["ret"], "rhow": how(op.get("rhow", "absent" if op["ret"] is None else "named")),
                "env": op.get("env") or [],
                "params": [{"name": p["name"], "kind": p["kind"], "ann": p["ann"], "how": how(p.get("how", "absent" if p["ann"] is None else "named")),
                            "dflt": p["dflt"]} for p in op["params"]]}
    if op["op"] == "entry":
        return {"op": "entry", "entrypoint": op["entrypoint"], "schema": op["schema"], "out": op["out"], "env": op.get("env") or []}
    return op


# ----------------------------------------------------------------------------- real side

_STATIC_RE = re.compile(r"^invalid static input for (.*?): (.*?) needs (.*?), got <class '(.*)'>$")
_EDGE_RE = r"source=(.*)\.([^. ]*) sink_task='(.*?)' sink_input_kw=(None|'.*?') sink_input_ps=(None|-?\d+)$"
_INCOMP_RE = re.compile(r"^edge connects two incompatible nodes: " + _EDGE_RE)
_FED_RE = re.compile(r"^edge pointing to an input that another edge already feeds: " + _EDGE_RE)


def parse_problem(s):
    if not isinstance(s, str):
        return ["unparsed", repr(s)]
    m = _STATIC_RE.match(s)
    if m:
        return ["staticType", m.group(1), m.group(2), m.group(3), m.group(4)]
    for rx, tag in ((_INCOMP_RE, "incompatible"), (_FED_RE, "fedTwice")):
        m = rx.match(s)
        if m:
            kw = None if m.group(4) == "None" else m.group(4)[1:-1]
            ps = None if m.group(5) == "None" else int(m.group(5))
            return [tag, [m.group(1), m.group(2), m.group(3), kw, ps]]
    for pre, tag in (("edge pointing from non-existent task ", "fromNoTask"), ("edge pointing from non-existent param ", "fromNoParam"),
                     ("edge pointing to non-existent task ", "toNoTask"), ("edge pointing to non-existent param ", "toNoParam")):
        if s.startswith(pre):
            rest = s[len(pre):]
            if tag == "fromNoTask":
                a, _, b = rest.rpartition(".")
                return [tag, a, b]
            return [tag, rest]
    return ["unparsed", s]


def snap_vals(d):
    return sorted([str(k), type(v).__name__, repr(v)] for k, v in d.items())


def snap_task(t):
    d = t.definition
    return {"kind": "task", "in": sorted([k, v] for k, v in d.input_schema.items()),
            "out": sorted([k, v] for k, v in d.output_schema.items()),
            "entry": d.entrypoint, "env": list(d.environment), "func": d.func is not None, "gpu": d.needs_gpu,
            "kw": snap_vals(t.static_input_kw), "ps": snap_vals(t.static_input_ps)}


def fingerprint(o):
    """EVERYTHING a real object holds, via pydantic's own `model_dump` (so fields this check does not know of are
    included: definition.func, environment, entrypoint, needs_gpu, serdes, ext_outputs, ...). Used for the
    non-mutation clause only: an earlier object must keep its fingerprint whatever is built later."""
    from cascade.low.builders import JobBuilder
    from cascade.low.func import Either
    from pydantic import BaseModel

    def dump(x):
        if isinstance(x, BaseModel):
            return {"cls": type(x).__name__, "dump": x.model_dump()}
        return x
    try:
        if isinstance(o, dict):
            body = o
        elif isinstance(o, JobBuilder):
            body = {"nodes": sorted(([n, dump(t)] for n, t in o.nodes.items()), key=lambda x: x[0]), "edges": [dump(e) for e in o.edges]}
        elif isinstance(o, Either):
            body = {"t": dump(o.t), "e": o.e}
        else:
            body = dump(o)
        return json.dumps(body, sort_keys=True, default=repr)
    except Exception as e:
        return "unprintable:" + type(e).__name__


def snap_edge(e):
    return [e.source.task, e.source.output, e.sink_task, e.sink_input_kw, e.sink_input_ps]


def snap(o):
    """Canonical, JSON-like snapshot of a real object (or of a recorded exception)."""
    from cascade.low.builders import JobBuilder
    from cascade.low.core import JobInstance, TaskInstance
    from cascade.low.func import Either
    if isinstance(o, dict):
        return o
    if isinstance(o, TaskInstance):
        return snap_task(o)
    if isinstance(o, JobBuilder):
        return {"kind": "builder", "nodes": sorted([[n, snap_task(t)] for n, t in o.nodes.items()], key=lambda x: x[0]),
                "edges": [snap_edge(e) for e in o.edges]}
    if isinstance(o, Either):
        if o.e:
            ps = [parse_problem(s) for s in o.e] if isinstance(o.e, list) else [["unparsed", repr(o.e)]]
            return {"kind": "problems", "problems": canon_problems(ps)}
        if isinstance(o.t, JobInstance):
            return {"kind": "job", "nodes": sorted([[n, snap_task(t)] for n, t in o.t.tasks.items()], key=lambda x: x[0]),
                    "edges": [snap_edge(e) for e in o.t.edges]}
        return {"kind": "neither", "t": repr(o.t), "e": repr(o.e)}
    return {"kind": "unknown", "repr": repr(o)[:80]}


def canon_problems(ps):
    st = sorted([p for p in ps if p[0] == "staticType"])
    return st + [p for p in ps if p[0] != "staticType"]


def canon_model(j):
    """Model output -> same canonical form as `snap`."""
    k = j.get("kind")
    if k == "task":
        return {"kind": "task", "in": sorted(j["in"]), "out": sorted(j["out"]), "entry": j.get("entry", ""), "env": j.get("env", []),
                "func": j.get("func", True), "gpu": False, "kw": sorted(j["kw"]), "ps": sorted(j["ps"])}
    if k in ("builder", "job"):
        return {"kind": k, "nodes": sorted([[n, canon_model(t)] for n, t in j["nodes"]], key=lambda x: x[0]), "edges": j["edges"]}
    if k == "problems":
        return {"kind": "problems", "problems": canon_problems(j["problems"])}
    return j


def real_op(store, op):
    """Execute one builder call on the real code; returns the new object (or a crash record)."""
    from cascade.low.builders import JobBuilder, TaskBuilder
    kind = op["op"]
    try:
        if kind == "task":
            f = make_callable(op)
            if op.get("form") == "nosig":
                import inspect
                try:
                    inspect.signature(f)
                    return {"kind": "invalid", "why": "harness: inspect has a signature for " + op["builtin"]}
                except ValueError:
                    pass
            elif not effective_signature_ok(f, op):
                return {"kind": "invalid", "why": "harness: the generated callable does not have the described signature"}
            env = op.get("env")
            return TaskBuilder.from_callable(f) if env is None else TaskBuilder.from_callable(f, environment=list(env))
        if kind == "entry":
            env = op.get("env")
            sch = {k: v for k, v in op["schema"]}
            if env is None:
                return TaskBuilder.from_entrypoint(op["entrypoint"], sch, op["out"])
            return TaskBuilder.from_entrypoint(op["entrypoint"], sch, op["out"], environment=list(env))
        if kind == "values":
            t = store[op["t"]]
            if isinstance(t, dict):
                return {"kind": "invalid"}
            return t.with_values(*[pyval(v) for v in op["args"]], **{k: pyval(v) for k, v in op["kwargs"]})
        if kind == "builder":
            return JobBuilder()
        if kind == "node":
            b, t = store[op["b"]], store[op["t"]]
            if isinstance(b, dict) or isinstance(t, dict):
                return {"kind": "invalid"}
            return b.with_node(op["name"], t)
        if kind == "edge":
            b = store[op["b"]]
            if isinstance(b, dict):
                return {"kind": "invalid"}
            if "frum" in op:
                return b.with_edge(op["src"], op["sink"], op["into"], op["frum"])
            return b.with_edge(op["src"], op["sink"], op["into"])
        if kind == "build":
            b = store[op["b"]]
            if isinstance(b, dict):
                return {"kind": "invalid"}
            return b.build()
    except Exception as e:
        return {"kind": "crash", "err": type(e).__name__, "where": _raised_in(e), "msg": str(e)[:120]}
    return {"kind": "invalid"}


def _raised_in(e):
    """name of the innermost function of builders.py on the traceback (which check raised)"""
    import traceback
    fn = "?"
    try:
        for fr, _ in traceback.walk_tb(e.__traceback__):
            if fr.f_code.co_filename.endswith("builders.py"):
                fn = fr.f_code.co_name
    except Exception:
        pass
    return fn


# ----------------------------------------------------------------------------- oracle

def _cls(name):
    c = getattr(builtins, name, None)
    return c if isinstance(c, type) else None


def compatible(out_ty, in_ty):
    """Declared output type fits declared parameter type; None = the oracle has no opinion (non-builtin names)."""
    if in_ty == "Any" or out_ty == "Any" or in_ty == out_ty:
        return True
    a, b = _cls(out_ty), _cls(in_ty)
    if a is None or b is None:
        return None
    return issubclass(a, b)


def schema_type(how, ann):
    """What the input/output schema may say for an annotation, from the property text's point of view: an absent
    annotation, or one that is no class name at all (None, unions), constrains nothing; a class constrains by its name."""
    if how in ("absent", "nameless") or ann is None:
        return "Any"
    return ann


class Oracle:
    """What the property text demands, tracked from the ops alone (no model)."""

    def __init__(self):
        self.exp = []        # per object: expected description
        self.first = []      # per object: snapshot when created
        self.fp = []         # per object: complete fingerprint when created
        self.stats = {}      # what the oracle judged / exempted (printed with the input distribution)

    def _stat(self, k):
        self.stats[k] = self.stats.get(k, 0) + 1

    def _touched_unknown(self, desc):
        """The ITEMS of a description (keyword statics, keyword edges) whose judgement needs a declared type that is no
        builtin class: `["staticType", node, k]` / `["incompatible", edge]`. Only these are outside the property's quantifier
        ("builtin or absent annotations"); everything else in the same description is judged. A non-builtin type that no
        bound value and no edge touches exempts nothing."""
        out = []
        for n, t in desc["nodes"].items():
            e = self.exp[t]
            for k in e["kw"]:
                ty = e["in"].get(k)
                if ty is not None and ty != "Any" and _cls(ty) is None:
                    out.append(["staticType", n, k])
        for ed in self._edges_desc(desc):
            (src, frum, sink, kw, ps) = ed
            st, kt = desc["nodes"].get(src), desc["nodes"].get(sink)
            if st is None or kt is None or kw is None:
                continue
            ot, it = self.exp[st]["out"].get(frum), self.exp[kt]["in"].get(kw)
            if ot is not None and it is not None and compatible(ot, it) is None:
                out.append(["incompatible", ed])
        return out

    def check(self, store, op, obj):
        """Returns (kind, extra, text) of the first failure of this step, or None."""
        kind = op["op"]
        crashed = isinstance(obj, dict) and obj.get("kind") == "crash"
        exp = None
        fail = None
        if kind == "task":
            kwp = [p for p in op["params"] if p["kind"] in ("posOrKw", "kwOnly")]
            exp = {"k": "task",
                   "in": {p["name"]: schema_type(p.get("how", "class"), p["ann"]) for p in kwp},
                   "out": {"0": schema_type(op.get("rhow", "class"), op["ret"])},
                   "kw": {p["name"]: (p["dflt"]["ty"], p["dflt"]["r"]) for p in kwp if p["dflt"]},
                   "ps": {}, "entry": "", "env": list(op.get("env") or []), "func": True}
            if op.get("form") == "nosig":
                # no signature to describe: outside the quantifier; the only thing demanded is that the refusal is inspect's
                exp = None
                if not (crashed and obj["err"] == "ValueError" and obj.get("where") == "from_callable"):
                    fail = ("from-callable-nosig", {"got": obj.get("err") if crashed else "returned"},
                            f"from_callable({op['builtin']}) (inspect has no signature for it): expected inspect's ValueError, got {obj if crashed else 'a task'}")
            elif crashed:
                fail = ("from-callable-crash", {"exc": obj["err"], "form": op.get("form", "def")},
                        f"from_callable on `{sig_source(op).strip().replace(chr(10), '; ')[-200:]}` raised {obj['err']}: {obj['msg']}")
        elif kind == "entry":
            exp = {"k": "task", "in": {k: v for k, v in op["schema"]}, "out": {"0": op["out"]}, "kw": {}, "ps": {},
                   "entry": op["entrypoint"], "env": list(op.get("env") or []), "func": False}
            if crashed:
                fail = ("from-entrypoint-crash", {"exc": obj["err"]}, f"from_entrypoint raised {obj['err']}: {obj['msg']}")
        elif kind == "values":
            old = self.exp[op["t"]]
            if old is not None:
                exp = copy.deepcopy(old)
                for i, v in enumerate(op["args"]):
                    exp["ps"][str(i)] = (v["ty"], v["r"])
                for k, v in op["kwargs"]:
                    exp["kw"][k] = (v["ty"], v["r"])
                if crashed:
                    fail = ("with-values-crash", {"exc": obj["err"]},
                            f"with_values(*{[v['r'] for v in op['args']]}, **{ {k: v['r'] for k, v in op['kwargs']} }) raised {obj['err']}: {obj['msg']}")
        elif kind == "builder":
            exp = {"k": "builder", "nodes": {}, "edges": [], "default_out": []}
        elif kind == "node":
            old = self.exp[op["b"]]
            if old is not None and self.exp[op["t"]] is not None:
                exp = copy.deepcopy(old)
                exp["nodes"][op["name"]] = op["t"]
                if crashed:
                    fail = ("with-node-crash", {"exc": obj["err"]}, f"with_node raised {obj['err']}: {obj['msg']}")
        elif kind == "edge":
            old = self.exp[op["b"]]
            if old is not None:
                exp = copy.deepcopy(old)
                into = op["into"]
                # `frum` omitted: the edge starts at THE output a task made by from_callable / from_entrypoint has;
                # which name that is, is read off the real source task when there is one (checked in _check_desc)
                exp["edges"].append([op["src"], op.get("frum"), op["sink"], into if isinstance(into, str) else None, into if isinstance(into, int) else None])
                if crashed:
                    fail = ("with-edge-crash", {"exc": obj["err"]}, f"with_edge raised {obj['err']}: {obj['msg']}")
        elif kind == "build":
            desc = self.exp[op["b"]]
            if desc is not None:
                exp = {"k": "result"}
                fail = self._check_build(desc, obj, crashed)
        self.exp.append(None if (crashed or exp is None) else exp)
        s = snap(obj)
        self.first.append(s)
        self.fp.append(fingerprint(obj))
        # values / description clause on the new object
        if fail is None and exp is not None and not crashed:
            fail = self._check_desc(exp, s)
        # persistence clause on every earlier object: the complete fingerprint, not only what the model knows of
        if fail is None:
            for i in range(len(store) - 1):
                now = fingerprint(store[i])
                if now != self.fp[i]:
                    fail = ("earlier-object-mutated", {"object": self.first[i].get("kind")},
                            f"object #{i} ({self.first[i].get('kind')}) changed after op {strip(op)}: was {self.fp[i][:300]} now {now[:300]}")
                    break
        return fail

    def _task_desc(self, e):
        return {"kind": "task", "in": sorted([k, v] for k, v in e["in"].items()), "out": sorted([k, v] for k, v in e["out"].items()),
                "entry": e["entry"], "env": e["env"], "func": e["func"], "gpu": False,
                "kw": sorted([k, v[0], v[1]] for k, v in e["kw"].items()), "ps": sorted([k, v[0], v[1]] for k, v in e["ps"].items())}

    def _edges_desc(self, exp):
        """described edges with the omitted `frum` resolved: the only output of the source task as described (tasks
        made by from_callable / from_entrypoint have exactly one); dangling source: whatever the builder put."""
        out = []
        for e in exp["edges"]:
            if e[1] is None:
                t = exp["nodes"].get(e[0])
                outs = sorted(self.exp[t]["out"]) if t is not None and self.exp[t] is not None else []
                out.append([e[0], outs[0] if len(outs) == 1 else None] + e[2:])
            else:
                out.append(list(e))
        return out

    @staticmethod
    def _edges_match(got, want):
        return len(got) == len(want) and all(g == w or (w[1] is None and g[:1] + g[2:] == w[:1] + w[2:]) for g, w in zip(got, want))

    def _check_desc(self, exp, s):
        if exp["k"] == "task":
            want = self._task_desc(exp)
            if s.get("kind") != "task":
                return ("not-a-task", {}, f"builder call returned {s}")
            if s["kw"] != want["kw"] or s["ps"] != want["ps"]:
                return ("values-misbound", {}, f"bound values: expected keyword {want['kw']} positional {want['ps']}, task carries keyword {s['kw']} positional {s['ps']}")
            if s["in"] != want["in"] or s["out"] != want["out"]:
                return ("schema-wrong", {}, f"schema: expected in {want['in']} out {want['out']}, got in {s['in']} out {s['out']}")
            for key in ("entry", "env", "func", "gpu"):
                if s[key] != want[key]:
                    return ("definition-wrong", {"field": key}, f"task definition field {key}: expected {want[key]!r}, got {s[key]!r}")
        if exp["k"] == "builder":
            want_nodes = sorted([[n, self._task_desc(self.exp[t])] for n, t in exp["nodes"].items()], key=lambda x: x[0])
            want_edges = self._edges_desc(exp)
            if s.get("kind") != "builder" or s["nodes"] != want_nodes or not self._edges_match(s["edges"], want_edges):
                return ("builder-differs-from-description", {}, f"builder holds {json.dumps(s)[:400]}, described nodes {json.dumps(want_nodes)[:300]} edges {want_edges}")
        return None

    def _expected_problems(self, desc):
        """The problems the property text implies for a description (set of canonical problems); items that need a declared
        type that is no builtin class are left out (no opinion on them: _touched_unknown). Edge by edge: source task / source output / sink task / sink parameter
        must exist, declared types must be compatible; a sink input may be fed by one edge only; a keyword static of a
        declared parameter must be an instance of the declared class."""
        out = set()
        for n, t in desc["nodes"].items():
            e = self.exp[t]
            for k, (vty, vr) in e["kw"].items():
                ty = e["in"].get(k)
                if ty is None or ty == "Any" or _cls(ty) is None:
                    continue          # undeclared / not a builtin class: no opinion on THIS static (see _touched_unknown)
                try:
                    v = eval(vr, dict(_VAL_NS), {})
                except Exception:
                    return None
                if not isinstance(v, _cls(ty)):
                    out.add(json.dumps(["staticType", n, k, ty, vty]))
        fed = set()
        for (src, frum, sink, kw, ps) in self._edges_desc(desc):
            st = desc["nodes"].get(src)
            ot = None
            if st is None:
                out.add(json.dumps(["fromNoTask", src]))          # (which output the dangling edge names is immaterial)
            else:
                ot = self.exp[st]["out"].get(frum)
                if ot is None:
                    out.add(json.dumps(["fromNoParam", frum]))
            kt = desc["nodes"].get(sink)
            if kt is None:
                out.add(json.dumps(["toNoTask", sink]))
            elif kw is not None:
                it = self.exp[kt]["in"].get(kw)
                if it is None:
                    out.add(json.dumps(["toNoParam", kw]))
                elif ot is not None and compatible(ot, it) is False:
                    out.add(json.dumps(["incompatible", [src, frum, sink, kw, ps]]))
                if it is not None and ot is not None and ot != it and _cls(ot) is not None and _cls(it) is not None:
                    self._stat("oracle:keyword-edge-between-two-different-classes:" + ("compatible" if compatible(ot, it) else "incompatible"))
                    if ot in MORE_TYS or it in MORE_TYS:
                        self._stat("oracle:keyword-edge-between-two-different-classes,one-beyond-the-nine")
            key = (sink, "kw", kw) if kw is not None else (sink, "ps", ps)
            if key in fed:
                out.add(json.dumps(["fedTwice", [src, frum, sink, kw, ps]]))
            fed.add(key)
        return out

    def _check_build(self, desc, obj, crashed):
        from cascade.low.core import JobInstance
        from cascade.low.func import Either
        touched = self._touched_unknown(desc)
        nonbuiltin = any(ty != "Any" and _cls(ty) is None for t in desc["nodes"].values()
                         for ty in list(self.exp[t]["in"].values()) + list(self.exp[t]["out"].values()))
        self._stat("oracle:build-judged-in-full" + ("-though-some-declared-type-is-no-builtin-class" if nonbuiltin else "") if not touched
                   else "oracle:build-with-%s-exempt-items" % ("1" if len(touched) == 1 else "2+"))
        if crashed:
            if touched and obj["err"] == "NameError":
                self._stat("oracle:build-crash-exempt(NameError,item-needs-non-builtin-type)")
                return None     # a bound value / an edge needs a declared type that is no builtin class: outside the quantifier
            return ("build-crash", {"exc": obj["err"], "where": obj.get("where")}, f"build() raised {obj['err']} in {obj.get('where')}: {obj['msg']}")
        if not isinstance(obj, Either):
            return ("build-result-shape", {}, f"build() returned {type(obj).__name__}")
        want = self._expected_problems(desc)
        if any(e[1] is None for e in self._edges_desc(desc) if e[0] in desc["nodes"]):
            want = None     # (cannot happen: every described task has exactly one output)
        if obj.e:
            if obj.t is not None or not isinstance(obj.e, list) or not all(isinstance(x, str) for x in obj.e):
                return ("build-result-shape", {}, f"build() returned problems {obj.e!r} together with {obj.t!r}")
            if want is not None:
                def norm(p):   # which output a DANGLING edge names is immaterial (and unknown to the oracle when `frum` was omitted)
                    if p[0] == "fromNoTask":
                        return p[:2]
                    if p[0] in ("fedTwice", "incompatible") and isinstance(p[1], list) and p[1][0] not in desc["nodes"]:
                        return [p[0], [p[1][0], None] + p[1][2:]]
                    return p
                got = {json.dumps(norm(p)) for p in map(parse_problem, obj.e)}
                want = {json.dumps(norm(json.loads(w))) for w in want}
                # no opinion (either way) on the items that need a non-builtin declared type - and on nothing else
                for it in touched:
                    if it[0] == "staticType":
                        got = {g for g in got if json.loads(g)[:3] != it}
                    else:
                        got.discard(json.dumps(norm(["incompatible", it[1]])))
                if not want and not got:
                    return None
                if not want:
                    return ("rejected-well-formed-description", {"problem": sorted(json.loads(g)[0] for g in got)[0]},
                            f"every edge of the description is well formed, yet build() returned problems {obj.e}")
                if got - want:
                    bad = sorted(got - want)[0]
                    return ("unjustified-problem", {"problem": json.loads(bad)[0]}, f"build() reports {bad}, which the description does not have; expected problems {sorted(want)}")
                if want - got:
                    miss = sorted(want - got)[0]
                    return ("problem-not-reported", {"problem": json.loads(miss)[0]}, f"build() returned problems {obj.e} but not {miss}")
            return None
        job = obj.t
        if not isinstance(job, JobInstance):
            return ("build-result-shape", {}, f"build() returned neither a job nor a problem list: t={obj.t!r} e={obj.e!r}")
        # the job is the description given
        s = snap(obj)
        want_nodes = sorted([[n, self._task_desc(self.exp[t])] for n, t in desc["nodes"].items()], key=lambda x: x[0])
        if s["nodes"] != want_nodes:
            return ("job-differs-from-description", {"part": "tasks"}, f"job tasks {json.dumps(s['nodes'])[:400]} but described {json.dumps(want_nodes)[:400]}")
        if not self._edges_match(s["edges"], self._edges_desc(desc)):
            return ("job-differs-from-description", {"part": "edges"}, f"job edges {s['edges']} but described {self._edges_desc(desc)}")
        # every edge well formed (on the job itself)
        fed = {}
        for e in job.edges:
            st = job.tasks.get(e.source.task)
            if st is None:
                return ("accepted-dangling-edge", {"which": "source-task"}, f"accepted job has edge {snap_edge(e)} from missing task {e.source.task!r}")
            if e.source.output not in st.definition.output_schema:
                return ("accepted-dangling-edge", {"which": "source-output"}, f"accepted job has edge {snap_edge(e)} from missing output {e.source.output!r}")
            kt = job.tasks.get(e.sink_task)
            if kt is None:
                return ("accepted-dangling-edge", {"which": "sink-task"}, f"accepted job has edge {snap_edge(e)} to missing task {e.sink_task!r}")
            if e.sink_input_kw is not None:
                if e.sink_input_kw not in kt.definition.input_schema:
                    return ("accepted-dangling-edge", {"which": "sink-param"}, f"accepted job has edge {snap_edge(e)} to missing parameter {e.sink_input_kw!r}")
                ot, it = st.definition.output_schema[e.source.output], kt.definition.input_schema[e.sink_input_kw]
                if compatible(ot, it) is False:
                    return ("accepted-dangling-edge", {"which": "incompatible-type"}, f"accepted job has edge {snap_edge(e)} from output of type {ot} into parameter of type {it}")
            # well formed for the scheduler: an input of a task has ONE source (precompute / param_source rely on it)
            key = (e.sink_task, "kw", e.sink_input_kw) if e.sink_input_kw is not None else (e.sink_task, "ps", e.sink_input_ps)
            if key in fed:
                return ("accepted-input-fed-twice", {"same_source": fed[key] == (e.source.task, e.source.output)},
                        f"accepted job feeds input {key[2]!r} of task {e.sink_task!r} by two edges: from {fed[key]} and from {(e.source.task, e.source.output)}")
            fed[key] = (e.source.task, e.source.output)
        if want:
            miss = sorted(want)[0]
            return ("accepted-ill-formed-description", {"problem": json.loads(miss)[0]}, f"build() accepted a description with the problem {miss}")
        return None


LAST_STATS = {}
LAST_FAILS = []


def run_program(ops):
    """Run on the real code with the oracle. Returns (snapshots after each op [of the new object], per-step
    full-store snapshots comparison helper, first oracle failure or None)."""
    global LAST_STATS, LAST_FAILS
    store = []
    orc = Oracle()
    LAST_STATS = orc.stats
    LAST_FAILS = []          # the first failure of every further kind (a wrong schema must not hide a wrong build verdict)
    fail = None
    stores = []
    for i, op in enumerate(ops):
        obj = real_op(store, op)
        store.append(obj)
        f = orc.check(store, op, obj)
        if f and fail is None:
            fail = (f[0], f[1], f[2], i)
        elif f and _sig_of(f) != _sig_of(fail) and all(_sig_of(f) != _sig_of(g) for g in LAST_FAILS) and len(LAST_FAILS) < 4:
            LAST_FAILS.append((f[0], f[1], f[2], i))
        stores.append([snap(o) for o in store])
    return stores, fail


# ----------------------------------------------------------------------------- shrinking

def _drop(ops, i):
    """ops without op i (None if a later op refers to object i); references renumbered."""
    out = []
    for j, op in enumerate(ops):
        if j == i:
            continue
        op = dict(op)
        for key in ("t", "b"):
            if key in op and j > i:
                if op[key] == i:
                    return None
                if op[key] > i:
                    op[key] -= 1
        out.append(op)
    return out


def shrink(ops, pred):
    cur = list(ops)
    changed = True
    while changed:
        changed = False
        for i in range(len(cur) - 1, -1, -1):
            cand = _drop(cur, i)
            if cand is not None and cand and pred(cand):
                cur = cand
                changed = True
        for i, op in enumerate(cur):                      # drop bound values one at a time
            if op["op"] == "values":
                for key in ("args", "kwargs"):
                    for k in range(len(op[key]) - 1, -1, -1):
                        op2 = dict(op)
                        op2[key] = op[key][:k] + op[key][k + 1:]
                        cand = cur[:i] + [op2] + cur[i + 1:]
                        if pred(cand):
                            cur, op, changed = cand, op2, True
    return cur


def _sig_of(fail):
    d = {"kind": fail[0]}
    d.update(fail[1])
    return d


def _failure_like(cand, fail):
    """the failure of the same kind (first or later one) that `cand` shows, or None"""
    f = run_program(cand)[1]
    for g in ([f] if f else []) + list(LAST_FAILS):
        if _sig_of(g) == _sig_of(fail):
            return g
    return None


def _same_failure(fail):
    return lambda cand: _failure_like(cand, fail) is not None


# ----------------------------------------------------------------------------- correspondence

def _model_objs(programs):
    from ekw.core import lean_drive
    lines = []
    for ops in programs:
        lines.append(json.dumps({"op": "reset"}))
        lines += [json.dumps(strip(o)) for o in ops]
    res = lean_drive("C19", lines)
    outs = []
    k = 0
    for ops in programs:
        k += 1
        outs.append([canon_model(json.loads(x)) for x in res[k:k + len(ops)]])
        k += len(ops)
    return outs


def _strip_msg(s):
    if isinstance(s, dict) and s.get("kind") == "crash":
        return {"kind": "crash", "err": s["err"]}
    return s


def _load_corpus():
    from ekw.core import CORPUS_DIR
    out = []
    for f in sorted(glob.glob(str(CORPUS_DIR / "C19_*.json"))):
        out.append(json.load(open(f))["ops"])
    return out


def _account(ctx, ops, stores):
    ctx.count("programs")
    ctx.count("ops", len(ops))
    for o in ops:
        ctx.count("op:" + o["op"])
        if o["op"] == "task":
            ctx.count("callable:" + o.get("form", "def"))
            ctx.count("environment:" + ("omitted" if o.get("env") is None else "empty" if not o["env"] else "given"))
            ctx.count("return-annotation:" + o.get("rhow", "class"))
            np_ = len(o["params"])
            ctx.count("callable-params:" + ("0" if np_ == 0 else "1-4" if np_ <= 4 else "5-8" if np_ <= 8 else ">8"))
            for p in o["params"]:
                ctx.count("param:" + p["kind"])
                ctx.count("annotation:" + p["how"])
                if p["name"] in ("self", "cls"):
                    ctx.count("param-name:self/cls" + ("(in schema)" if p["kind"] in ("posOrKw", "kwOnly") else "(positional-only)"))
                elif "src_name" in p:
                    ctx.count("param-name:mangled(__p in a class body -> _C__p)")
                elif p["name"] in SPECIAL_PARAMS and p["kind"] not in ("varPos", "varKw"):
                    ctx.count("param-name:" + ("non-ascii" if not p["name"].isascii() else "args/kwargs/keyword-like/underscore"))
                if p.get("ann") in MORE_TYS:
                    ctx.count("annotation-class-beyond-the-nine:" + p["ann"])
                if p["dflt"]:
                    ctx.count("param-with-default")
        if o["op"] == "values":
            ctx.count("values:positional", len(o["args"]))
            ctx.count("values:keyword", len(o["kwargs"]))
            for v in o["args"] + [kv[1] for kv in o["kwargs"]]:
                ctx.count("value-type:" + v["ty"])
        if o["op"] == "edge":
            ctx.count("edge:" + ("keyword" if isinstance(o["into"], str) else "positional"))
            ctx.count("edge-frum:" + ("omitted" if "frum" not in o else "given"))
        if o["op"] == "node" and o["name"] in ("", "a.b", "s.0"):
            ctx.count("node-name:odd")
    nontrivial = False
    final = stores[-1] if stores else []
    for s in final:
        k = s.get("kind")
        if k == "job":
            ctx.count("build:accepted")
            ctx.count("build:accepted-edges", len(s["edges"]))
            if s["edges"]:
                nontrivial = True
        elif k == "problems":
            ctx.count("build:problems")
            for p in s["problems"]:
                ctx.count("problem:" + p[0])
                if p[0] != "staticType":
                    nontrivial = True
        elif k == "crash":
            ctx.count("crash:" + s["err"])
    return nontrivial


def _run_cases(ctx, programs, compare=True):
    real = []
    for ops in programs:
        stores, fail = run_program(ops)
        for k_, v_ in LAST_STATS.items():
            ctx.count(k_, v_)
        real.append(stores)
        nt = _account(ctx, ops, stores)
        ctx.case({"ops": [strip(o) for o in ops[:10]], "n_ops": len(ops)}, nontrivial=nt)
        for fail in ([fail] if fail else []) + list(LAST_FAILS if fail else []):
            seen = ctx.__dict__.setdefault("_c19_shrunk", {})
            key = json.dumps(_sig_of(fail), sort_keys=True)
            if key not in seen:                         # shrink the first program of every kind of failure only
                small = shrink(ops, _same_failure(fail))
                seen[key] = (small, (_failure_like(small, fail) or fail)[2])
                ctx.violation(_sig_of(fail), {"ops": small}, seen[key][1])
            else:
                ctx.violation(_sig_of(fail), {"ops": ops}, fail[2])
    if not compare:
        return
    model = _model_objs(programs)
    for ops, stores, mo in zip(programs, real, model):
        ctx.traces += 1
        for i in range(len(ops)):
            want = mo[:i + 1]
            got = [_strip_msg(s) for s in stores[i]]
            if got != want:
                j = next(k for k in range(i + 1) if got[k] != want[k])
                ctx.disagree("builder-op" if j == i else "earlier-object-changed", {"ops": ops[:i + 1], "object": j}, want[j], got[j])
                break


def correspond(ctx):
    n = ctx.budget(600, 12000)
    maxops = ctx.budget(18, 30)
    programs = _load_corpus()
    for _ in range(n):
        programs.append(gen_program(ctx.rng, ctx.rng.randint(6, maxops)))
    _run_cases(ctx, programs)


def oracle_only(ctx):
    programs = _load_corpus() + [gen_program(ctx.rng, ctx.rng.randint(6, 22)) for _ in range(ctx.budget(600, 12000))]
    _run_cases(ctx, programs, compare=False)


def search(ctx, why):
    """(P) or (T) broken: the disagreeing programs were already judged by the oracle in `correspond`;
    widen with fresh programs (oracle only, no model needed)."""
    if ctx.violations:
        return
    programs = [d["case"]["ops"] for d in ctx.disagreements if isinstance(d.get("case"), dict) and "ops" in d["case"]][:50]
    programs += [gen_program(ctx.rng, ctx.rng.randint(6, 26)) for _ in range(ctx.budget(1500, 20000))]
    _run_cases(ctx, programs, compare=False)


def replay(payload):
    ops = payload["case"]["ops"]
    stores, fail = run_program(ops)
    for i, o in enumerate(ops):
        print(f"#{i}", json.dumps(strip(o)), "->", json.dumps(_strip_msg(stores[i][i]))[:300])
    print("oracle:", fail, *LAST_FAILS)
    return 1 if fail else 0
