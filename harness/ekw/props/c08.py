"""C08 — the shared-memory store never hands out more memory than its capacity.

Tie: the REAL cascade.shm.dataset.Manager (real SharedMemory segments, real Disk jobs under a
ManualPool, real client.AllocatedBuffer, half of the histories through the real
server.LocalServer.start dispatch + api.ser/deser) against Model/Shm.lean, after EVERY op
(answer, free space, lock, counter, datasets, segments with contents, files, pending jobs).
Oracle (from the property text): segments of the run <= capacity, reported free = capacity -
resident total, segments <= capacity - free, admission answers.
"""
from ekw import sim_shm

PROPERTY = "C08"
LEVEL_TEXT = ("Lean theorems over Model/Shm.lean (Manager.add/get/close_callback/purge/page_out_at_least/page_in with their callbacks, "
              "Dataset.is_pageoutable, algorithms.lottery, Disk._page_out/_page_in, the writer's segment creation): by an invariant proved for the "
              "initial state and preserved by every step, lifted to all histories by induction (unbounded length, keys, clients, jobs; every "
              "interleaving of requests with the I/O part and the callback part of every disk job, successful or failed): free + sum of resident "
              "sizes = capacity, existing segments <= capacity - free, FreeSpaceRequest answers free; admission rule, page-in reservation and "
              "'space returns only via purge/close/callback' for every state. The reachable-state theorems are _partial: they assume that no purge "
              "request hits a reader-less dataset whose disk job is in flight (known finding C08-purge-in-flight, with machine-checked "
              "counterexamples c08_accounting_full_fails / c08_real_usage_full_fails) and that the writer creates its segment with the granted size "
              "while the dataset is 'created'. c08_midio_purge_atomic: a purge served while the page-out writer thread is between write and unlink acts like "
              "'purge, then the job's I/O' (handler-atomic steps lose nothing). Tied to the real Manager by a step-by-step correspondence check, incl. purges "
              "served from inside Disk._page_out.")
LEVEL_NOTE = ("modelled, not verified: cascade/shm/dataset.py Manager+Dataset, algorithms.py lottery, disk.py Disk (as two maps key->(size,content token)), "
              "server.py request dispatch (exercised, FreeSpaceRequest modelled), client.py AllocatedBuffer (exercised). Handler-atomic steps: byte-code level "
              "races between the server thread and pool-thread callbacks are outside the model; POSIX shm/file semantics are validated, not proved")
TECHNIQUE = "Lean 4 invariant proof (induction over op histories) + differential correspondence of the real shm Manager with harness-controlled disk jobs"
LEAN_PROPS = ["EkwVerif.Props.C08"]
LEAN_DRIVERS = ["C08"]
RULE = ("random histories of 5-80 ops (thorough: up to 120) over 1-5 keys (thorough 6), capacity 1-64, 1-4 clients: add (sizes up to capacity+3), "
        "writer create+write, writer close, get (uuid candidates incl. collisions), reader close, purge, free-space request, I/O part of a pending disk job "
        "(ok / fail / fail after segment creation), callback part, bogus closes, 'everybody finishes then retry add' scenario; clock advances 1-5 per op with "
        "occasional jumps beyond the 15 min staleness window; half of the histories go through LocalServer.start. non-trivial = history with a completed "
        "disk-job callback, a 'wait' answer or a granted get; distinct by content hash")
ASSUMPTIONS = [
    "request handlers and pool-thread callbacks are atomic steps (DESIGN section 3); a disk job is an I/O step plus a callback step",
    "the writer creates its segment with the granted size while its dataset is still 'created' (client.allocate does so right after the grant)",
    "time.time_ns and uuid.uuid4 are replaced by deterministic fakes; get_capacity() is stubbed (no findmnt); the per-process multiprocessing resource tracker is disabled in the harness process",
    "shmid is an injective function of the key (md5 prefix): segments/files are compared by key",
]
KINDS = sim_shm.C08_KINDS


def correspond(ctx):
    n = ctx.budget(260, 8000)
    sim_shm.run_batch(ctx, KINDS, "c08", n, ctx.budget(80, 120), ctx.budget(5, 6), "C08_*.json")


def search(ctx, why):
    sim_shm.run_batch(ctx, KINDS, "c08", ctx.budget(600, 6000), 80, 5, "C08_none*.json")


def replay(payload):
    return sim_shm.replay_print(payload, KINDS)
