"""C08 — the shared-memory store never hands out more memory than its capacity.

Tie: the REAL cascade.shm.dataset.Manager (real SharedMemory segments, real Disk jobs under a
ManualPool, real client.AllocatedBuffer, half of the histories through the real
server.LocalServer.start dispatch + api.ser/deser) against Model/Shm.lean, after EVERY op
(answer, free space, lock, counter, datasets, segments with contents, files, pending jobs).
Oracle (from the property text): segments of the run <= capacity, reported free = capacity -
resident total, segments <= capacity - free, admission answers.
"""
from ekw import sim_shm

PROPERTY = "C08"
LEVEL_TEXT = ("Lean theorems over Model/Shm.lean (Manager.add/get/close_callback/purge (incl. the failed-job purge)/page_out_at_least/page_in with their callbacks, "
              "Dataset.is_pageoutable, algorithms.lottery, Disk._page_out/_page_in incl. short and long files and size 0, the writer's segment creation): by an invariant "
              "proved for the initial state and preserved by every step, lifted to all histories by induction (unbounded length, keys, clients, jobs; every "
              "interleaving of requests with the I/O part and the callback part of every disk job, successful or failed): free + sum of resident "
              "sizes = capacity, existing segments <= capacity - free, a FreeSpaceRequest is answered capacity - resident total; admission rule, page-in reservation and "
              "'space returns only via purge/close/callback' for every state. The reachable-state theorems are _partial: they assume SafeRun = (b) no purge "
              "request hits a reader-less dataset whose disk job is in flight (known finding C08-purge-in-flight, machine-checked "
              "counterexamples c08_accounting_full_fails / c08_real_usage_full_fails) and (a) the writer creates its segment with the granted size "
              "while the dataset is 'created' (needed: c08_real_usage_writer_full_fails, two witnesses replayed on the real store; the real client.allocate does so, which "
              "the tie checks by executing it). Thread level: c08_locked_updates_exact -- with every update of free_space split into acquire/read/write/release micro steps "
              "and any number of threads interleaving at that granularity, no update is lost when every site takes pageout_one (the code after the fix), "
              "c08_unlocked_update_full_fails -- with one unlocked site (add/page_in before the fix) an update is lost; the harness forces that schedule on the real "
              "Manager with a real second thread. c08_midio_purge_atomic: a purge of ANY key served while the page-out writer thread is between write and unlink acts like "
              "'purge, then the job's I/O' (handler-atomic steps lose nothing). c08_capacity_configured / c08_capacity_executor_partial: the capacity of the store brought up by server.entrypoint is the configured number of bytes whenever "
              "/dev/shm offers that much, never more than what it offers, and (SafeRun histories) the segments never exceed shm_vol_gb GiB. "
              "Tied to the real server.entrypoint / LocalServer.__init__ / Manager / LocalServer.start by a step-by-step correspondence check, incl. purges "
              "served from inside Disk._page_out, callbacks run by a second thread inside add/page_in, two callbacks meeting at free_space or pageout_count, and a failed "
              "page-in's callback run while page_out_at_least scans the datasets. What the tie samples is bounded: histories of at most 80 (thorough 120) ops, capacity <= 20480.")
LEVEL_NOTE = ("modelled, not verified: cascade/shm/dataset.py Manager+Dataset, algorithms.py lottery, disk.py Disk (as two maps key->(size,content token); a token also encodes "
              "'m leading pattern bytes, rest zero'), server.py request dispatch (every request of every history goes through it in half of the histories and in all client "
              "calls; FreeSpaceRequest modelled), client.py _send_command/allocate/get/AllocatedBuffer (modelled: sendLoop/clientAlloc/clientGet; exercised over a fake socket). "
              "Thread level: the updates of free_space and of pageout_count (with the release of pageout_all by the last callback of a batch) are modelled at micro-step "
              "granularity (Lemmas/ShmMicro.lean, ShmMicroCount.lean); a failure callback popping from Manager.datasets while page_out_at_least iterates over it is forced on "
              "the real code (it was a defect: fix 323e4ce) and is equal to `request; callback` in the model; other byte-code level races between the server thread and "
              "pool-thread callbacks are outside the model; "
              "the capacity the store works with is modelled (configCapacity = Manager.__init__: the configured bytes trimmed to what get_capacity() reports, all of it when "
              "nothing is configured; execCapacity = Executor.__init__'s shm_vol_gb GiB -> bytes) and tied: every history brings the store up through the REAL "
              "server.entrypoint -> LocalServer.__init__ -> Manager(prefix, capacity) and the model computes the capacity from (configured, available); an executor-level "
              "probe constructs the real Executor and calls the shm-server process target it would start. get_capacity() is stubbed in the histories (its value is the input 'bytes available') and probed separately with a fake "
              "subprocess.run (command asked, two-line findmnt output, findmnt missing); richer findmnt outputs (HPC) are outside; POSIX shm/file semantics are validated, not proved")
TECHNIQUE = "Lean 4 invariant proof (induction over op histories) + differential correspondence of the real shm Manager with harness-controlled disk jobs"
LEAN_PROPS = ["EkwVerif.Props.C08"]
LEAN_DRIVERS = ["C08"]
RULE = ("random histories of 5-80 ops (thorough: up to 120) over 1-5 keys (thorough 6), 1-4 clients; 95% with capacity 1-64 and sizes up to capacity+3 incl. size 0, 5% with "
        "capacity 4097-20480 and datasets of 4096, 4097, 8192, 8193 and random sizes above disk.py's chunk size (the chunk loop of _page_in iterates); ops: add (12% of them, 10% of the client.allocate calls and two requests at the start of every history: sizes 0, 1, capacity-1, capacity, capacity+1, 2^31-1, "
        "2^31, 2^32, 2^63-1, 2^63, 2^64-1 sent as the datagram api.ser(AllocateRequest) and decoded by the server whatever the history's mode), "
        "writer create+write (5% of the histories: with a size other than the granted one or after eviction -- counted, not reported), writer close, get (uuid candidates incl. "
        "collisions), reader close, purge, free-space request, I/O part of a pending disk job (ok / REAL failures: spill directory gone, segment cannot be created, file "
        "cannot be opened after the segment was created), a purge of the job's own or another key served from inside Disk._page_out, callback part, a callback run by a real "
        "second thread while add/page_in is between reading and writing free_space, two callbacks of one batch meeting at the STORE_ATTR of pageout_count or free_space "
        "(10% of the histories open with such a batch), the callback of a FAILED page-in run while page_out_at_least scans Manager.datasets (7% of the histories open so), "
        "bogus closes, the real client.allocate / client.get (default and short timeouts, "
        "other clients' disk-job steps during the sleeps), 'everybody finishes then every dataset still held must be readable and an allocation up to the capacity granted' "
        "scenario, 8% life-cycle histories (one key written, evicted, read back, purged, allocated again with the same size and other bytes, several times); clock "
        "advances 1-5 per op with jumps beyond / between the staleness windows; STALE_CREATE/STALE_READ = the source's values (35%) or small different values (65%); half "
        "of the histories go through LocalServer.start. Every history boots the store through server.entrypoint with (configured capacity, bytes available): plenty available 70%, around the configured "
        "value / not configured 30%; 8 executor-level probes (shm_vol_gb None, 0, 1, 2, 3, 64, random). A segment excess is put down to a non-conforming writer only if "
        "it disappears when THAT writer's segment is corrected (per allocation). Known-finding signatures describe the mechanism AT the failing op (the disk job orphaned by a purge, the allocation "
        "whose segment it consumed), not the history. non-trivial = history with a completed disk-job callback, a 'wait' answer or a granted get; distinct by content hash")
ASSUMPTIONS = [
    "request handlers and pool-thread callbacks are atomic steps, except the read-modify-writes of Manager.free_space and Manager.pageout_count (modelled, and forced on the real code, at micro-step granularity) and the scan of Manager.datasets in page_out_at_least (forced on the real code); a disk job is an I/O step plus a callback step; LocalServer.start handles one request at a time (single server thread)",
    "the writer creates its segment with the granted size while its dataset is still 'created' (client.allocate does so right after the grant; executed for real in the client ops)",
    "time.time_ns and uuid.uuid4 are replaced by deterministic fakes; get_capacity() is stubbed (no findmnt: its return value is the 'bytes available' input); the server's socket and signal modules are replaced by scripted ones; the per-process multiprocessing resource tracker is disabled in the harness process; STALE_CREATE/STALE_READ (module constants) are replaced by small values in most histories",
    "shmid is an injective function of the key (md5 prefix): segments/files are compared by key",
    "explicit client timeouts are those for which the loop's float arithmetic makes the same number of attempts as exact arithmetic (0.1, 0.25, 0.3, 0.35, 0.75 s; for e.g. 0.5 s rounding leaves 2.7e-17 s and one more attempt)",
]
KINDS = sim_shm.C08_KINDS


def correspond(ctx):
    n = ctx.budget(260, 4000)
    sim_shm.run_batch(ctx, KINDS, "c08", n, ctx.budget(80, 120), ctx.budget(5, 6), "C08_*.json")


def search(ctx, why):
    sim_shm.run_batch(ctx, KINDS, "c08", ctx.budget(600, 6000), 80, 5, "C08_none*.json")


def replay(payload):
    return sim_shm.replay_print(payload, KINDS)
