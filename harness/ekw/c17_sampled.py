"""C17, sampled part: round trips through the REAL code of

  exec      executor messages (cascade.executor.msg, every member of `Message`):
            serde.ser_message/des_message, and the real senders comms.callback /
            ReliableSender.send / send_data feeding the real Listener._recv_one (payload frames) -- over capturing
            sockets and (pipes zmq_send_data / zmq_reliable) over REAL zmq inproc sockets, with payloads handed over as
            bytes / memoryview (what the data server passes) / bytearray / str
  report    controller reports: controller.report.serialize / deserialize, and (pipe reporter) the real Reporter: report
            address built by gateway.router._spawn_local, split by Reporter, send_progress / send_result / shutdown -> _send
  gateway   request/response pairs: gateway.client.request_response (serialising half, parsing half)
            against parse_request / serialize_response, over a fake zmq REQ socket
  job       JobInstance -> orjson.dumps(job.dict()) -> file -> orjson.loads -> JobInstance(**d), through the
            real gateway.router._spawn_local (writer) and benchmarks.__main__.get_job (reader), with
            `open` / `subprocess` of those modules replaced by in-memory fakes

exec / report (pickle) are NOT proved; gateway / job are modelled by Model/Json.lean and this module also describes the real
messages to that model (`job_model_input`, `gw_model_input`, `py_to_model`, `doc_to_model`).

Values are generated from the type annotations of the real classes (typing.get_type_hints /
pydantic model_fields): a deterministic sweep (`sweep_cases`: every class x every leaf x every
boundary value, structured identifier and container shape, one change at a time -- identical for
every seed) and random values (`gen`), boundary-biased, in which identifiers with the separators
the code itself uses (`.`, `,`, `:`, `/`, `|`, blanks), empty components, ids whose reprs coincide
and mappings declared in non-sorted key order are frequent. A leaf of type `Any` takes what the annotation admits: JSON
values AND bytes, tuples, sets, frozensets, mappings with non-str keys, non-finite floats, complex, datetime, date, UUID,
Decimal, Path (`gen_non_json`, `SWEEP_ANY_NON_JSON`). A *spec* is a JSON-able description of
a value; `build` turns it into the real object, so a replay file is self-contained.

Comparison (`diffs`): field by field over dataclasses / pydantic models (never through repr, str or
a class's own __eq__ alone), strict about scalar types, ORDER-SENSITIVE for the mappings whose
order carries meaning (ORDERED_FIELDS), ALL differences of a case (a differing subtree once), each with the class of the
original and of what came back (`alter`) and the field it sits in.

Oracle (property text): decode(encode(m)) == m; an encoder may refuse a value only if the value is
outside what the encoding can carry (JSON: null, booleans, 64-bit integers, finite floats, well-formed unicode, lists,
str-keyed mappings; pickle: everything) -- refusing is fine, changing the value silently is not.
"""
from __future__ import annotations

import dataclasses
import io
import math
import types
import typing

INT_BOUNDS = [0, 1, -1, 255, 256, 2**31 - 1, 2**31, 2**32 - 1, 2**32, 2**32 + 1, 2**53, 2**53 + 1, 2**63 - 1, 2**63,
              2**64 - 1, 2**64, 2**64 + 1, -2**31, -2**63, -2**63 - 1, 2**100]
JSON_INT_MIN, JSON_INT_MAX = -2**63, 2**64 - 1


# --------------------------------------------------------------------------- registry of real classes

_reg = None


def registry():
    global _reg
    if _reg is None:
        import cascade.controller.report as report
        import cascade.executor.msg as msg
        import cascade.gateway.api as gapi
        import cascade.low.core as core
        r = {}
        for short, mod in (("msg", msg), ("core", core), ("report", report), ("gapi", gapi)):
            for n, o in vars(mod).items():
                if isinstance(o, type) and o.__module__ == mod.__name__:
                    r[f"{short}.{n}"] = o
        _reg = r
    return _reg


def cls_key(c):
    for k, v in registry().items():
        if v is c:
            return k
    raise KeyError(c)


def fields_of(c):
    """[(name, type)] of a dataclass or a pydantic model, declaration order"""
    if dataclasses.is_dataclass(c):
        hints = typing.get_type_hints(c)
        return [(f.name, hints[f.name]) for f in dataclasses.fields(c)]
    if hasattr(c, "model_fields"):
        return [(k, v.annotation) for k, v in c.model_fields.items()]
    raise TypeError(c)


# --------------------------------------------------------------------------- generation from types

class Profile:
    def __init__(self, kind, bad=False):
        self.kind = kind  # "pickle" | "json"
        self.bad = bad    # json only: may contain integers beyond 64 bit (the encoder must refuse them)
        self.pool = []    # short strings already used in this case (re-used / recombined by gen_str)
        self.exotic = 0.0 # probability that a node of an `Any` value is something JSON cannot carry (bytes, tuple, set, ...)


# Separators the code base itself uses when it builds or splits identifiers:
#   "."  WorkerId / DatasetId repr, WorkerId.from_repr (split at the first dot), socket paths <host>.<worker>.socket
#   ","  report address "<address>,<job_id>" (controller.report.Reporter)     ":" "/"  zmq addresses tcp://host:port, ipc paths
#   "|" " " "=" ";"  logging / tracing lines, envvar syntax
SEPARATORS = [".", ".", ".", ",", ":", "/", "|", " ", "-", "_", "=", ";", "@", "\t", "\n", "..", "://"]
_COMPONENTS = ["h0", "h1", "node017", "hpc", "example", "int", "localhost", "10", "0", "1", "127", "255", "w0", "w1", "w10", "gpu0",
               "task", "t", "o", "a", "b", "x", "__default__", "__NO_OUTPUT__", "0", "1", "2", "9", "10", "upper", "lower", "__aux",
               "tcp", "ipc", "5555", "é", "ß", "Ω", "名", "\U0001f600", "A", "Z", "_", "None", "null", "true", "-1", "1e3", "0.0"]

# Fixed shapes (used by the deterministic sweep and, with high weight, by the random generator)
STRUCT_STRS = [
    "", ".", "..", "a.b", "a.b.c", ".a", "a.", "a..b", "node017.hpc.example.int", "10.0.0.1", "::1", "fe80::1%eth0",
    "tcp://10.0.0.1:5555", "ipc:///tmp/h0.w0.socket", "h0,job-1", "a,b", "a:b", "a/b", "a|b", "a b", " a", "a ", "a\tb", "a\nb",
    "h0.w0", "w0", "w.0", "gpu.10", "t.o", "task.with.dots", "o.1", "__default__", "__NO_OUTPUT__", "0", "10", "-1", "None", "null",
    "é.ü", "名.前", "\U0001f600", "Ab", "aB", "a=b;c", "a@b", "'a'", "\"a\"", "{a}", "[a]", "a\\b", "%s", "{0}", "\x00", "a\x00b",
]


def gen_struct_str(rng, prof):
    """identifier-like string built from components joined by the separators the code itself uses; empty components allowed"""
    r = rng.random()
    if r < 0.35:
        return rng.choice(STRUCT_STRS)
    n = rng.choice([1, 2, 2, 2, 3, 3, 4, 5])
    comps = [("" if rng.random() < 0.12 else rng.choice(_COMPONENTS)) for _ in range(n)]
    if rng.random() < 0.6:
        sep = rng.choice(SEPARATORS)          # one separator throughout (a.b.c)
        return sep.join(comps)
    out = comps[0]
    for c in comps[1:]:
        out += rng.choice(SEPARATORS) + c     # mixed (tcp://h0.example:5555, h0.w0,job-1)
    return out


def gen_pool_str(rng, prof):
    """a string related to one already used in this case: the same, two of them joined the way a repr joins them, a part of one
    split the way from_repr splits, or a case / whitespace variant"""
    a = rng.choice(prof.pool)
    r = rng.random()
    if r < 0.25:
        return a
    if r < 0.55:
        return a + rng.choice([".", ".", ".", ",", ":", "/", " "]) + rng.choice(prof.pool)
    if r < 0.8:
        for sep in rng.sample([".", ",", ":", "/", "|", " "], 6):
            if sep in a:
                parts = a.split(sep)
                k = rng.randrange(1, len(parts))
                return sep.join(parts[:k]) if rng.random() < 0.5 else sep.join(parts[k:])
        return a + ".0"
    return rng.choice([a.upper(), a.lower(), a + " ", " " + a, a + ".", "." + a, a + "\x00", a[::-1]])


def gen_int(rng, prof):
    r = rng.random()
    if r < 0.45:
        v = rng.choice(INT_BOUNDS)
    elif r < 0.55:
        v = rng.choice(INT_BOUNDS) + rng.choice([-2, -1, 1, 2])
    else:
        v = rng.getrandbits(rng.choice([3, 8, 16, 31, 33, 62, 64, 70]))
        if rng.random() < 0.15:
            v = -v
    if prof.kind == "json" and not (JSON_INT_MIN <= v <= JSON_INT_MAX) and not (prof.bad and rng.random() < 0.5):
        v = rng.choice([JSON_INT_MIN, JSON_INT_MAX, v % 2**64, -(v % 2**63)])     # stay inside the 64-bit domain of orjson
    return v


_ALPHA = "abcdefghijklmnopqrstuvwxyzABCDEFGHIJKLMNOPQRSTUVWXYZ0123456789_.-:/"


def gen_str(rng, prof, ident=False):
    """`ident`: the string is an identifier of the protocol (host / worker / task / output / job id, address): structured
    shapes get most of the weight"""
    s = _gen_str(rng, prof, ident)
    if len(s) <= 40 and len(prof.pool) < 64:
        prof.pool.append(s)
    return s


def _gen_str(rng, prof, ident):
    r = rng.random()
    if prof.pool and r < (0.25 if ident else 0.12):
        return gen_pool_str(rng, prof)
    r = rng.random()
    if r < (0.65 if ident else 0.30):
        return gen_struct_str(rng, prof)
    r = rng.random()
    if r < 0.15:
        return ""
    if r < 0.65:
        return "".join(rng.choice(_ALPHA) for _ in range(rng.randint(1, 12)))
    if r < 0.75:
        return "".join(chr(rng.randrange(0, 128)) for _ in range(rng.randint(1, 8)))          # control characters, quotes
    if r < 0.90:
        return "".join(rng.choice(["é", "ß", "€", "\U0001f600", "\x00", "\"", "\\", "\x7f", "\x80", "\xff", "a"]) for _ in range(rng.randint(1, 6)))
    if r < 0.96 or prof.kind == "json":
        return rng.choice(_ALPHA) * rng.choice([255, 256, 1000, 4096, 70000])
    # lone surrogate (no valid UTF-8): pickle carries it; for the JSON encodings see the fixed probes
    return "x" + chr(rng.choice([0xD800, 0xDFFF])) + "y"


def gen_bytes(rng):
    r = rng.random()
    if r < 0.15:
        return b""
    if r < 0.6:
        return bytes(rng.randrange(256) for _ in range(rng.randint(1, 24)))
    if r < 0.9:
        return bytes([rng.choice([0, 0x80, 0xff])]) * rng.choice([255, 256, 65535, 65536, 65537, 2**20 + 1])
    import pickle
    return pickle.dumps(("payload", rng.randrange(1000)))   # bytes that are themselves a pickle


def gen_non_json(rng, prof, depth=0):
    """a value a field of type `Any` admits (the builders bind such values routinely) that JSON has no form for"""
    r = rng.random()
    if r < 0.16:
        return {"$b": rng.choice(["", "6162", "00", "fffe", "c3a9", "80"]) if rng.random() < 0.7 else gen_bytes(rng)[:64].hex()}
    if r < 0.36:
        return {"$t": [gen_json_any(rng, prof, depth + 1) for _ in range(rng.choice([0, 1, 2, 2, 3]))]}
    if r < 0.46:
        return {"$set": sorted({rng.choice([0, 1, 2, 3, 4, 7]) for _ in range(rng.randint(0, 3))})} if rng.random() < 0.6 else {"$set": sorted({rng.choice(["a", "b", "x.y"]) for _ in range(2)})}
    if r < 0.52:
        return {"$fs": sorted({rng.choice([1, 2, 3]) for _ in range(rng.randint(0, 2))})}
    if r < 0.72:
        # mapping with a key that is no string: int, bool, None, float, tuple -- alone or next to string keys
        k = rng.choice([1, 0, -1, 10, True, None, 1.5, {"$t": [1, 2]}, {"$t": ["a", "b"]}, {"$b": "6b"}])
        pairs = [[k, gen_json_any(rng, prof, depth + 1)]]
        if rng.random() < 0.4:
            pairs.insert(rng.randint(0, 1), [rng.choice(["1", "a", "True", "None"]), gen_json_any(rng, prof, depth + 1)])
        return {"$d": pairs}
    if r < 0.80:
        return {"$f": rng.choice(["inf", "-inf", "nan"])}
    if r < 0.84:
        return {"$cx": rng.choice([["1.0", "2.0"], ["0.0", "0.0"], ["0.0", "-1.5"]])}
    if r < 0.89:
        return {"$dt": rng.choice(["2020-01-02T03:04:05", "1999-12-31T23:59:59.999999", "2024-02-29T00:00:00+00:00", "2024-06-01T12:00:00+05:30"])}
    if r < 0.92:
        return {"$date": rng.choice(["2020-01-02", "0001-01-01", "9999-12-31"])}
    if r < 0.95:
        return {"$uuid": "%032x" % rng.getrandbits(128)}
    if r < 0.975:
        return {"$dec": rng.choice(["1.10", "0", "1E+3", "NaN"])}
    return {"$path": rng.choice(["/tmp/x", "a/b.grib", "."])}


def gen_json_any(rng, prof, depth=0):
    if prof.exotic and depth <= 3 and rng.random() < prof.exotic:
        return gen_non_json(rng, prof, depth)
    r = rng.random()
    if depth >= 2:
        r *= 0.7
    if r < 0.2:
        return gen_int(rng, prof)
    if r < 0.35:
        return gen_str(rng, prof)
    if r < 0.45:
        return rng.choice([0.0, -0.0, 0.5, 1e-320, 1.7976931348623157e308, -2.5e-7, 3.141592653589793, 1e22, 0.1 + 0.2,
                           1e15, 1e16, 123456789012345680.0, 1e-5, 0.0001, 1.5e-7, -1e21, 5e-324, 2.0**53, 1 / 3])
    if r < 0.55:
        return rng.choice([None, True, False])
    if r < 0.7:
        return {"$d": []} if rng.random() < 0.3 else []
    if r < 0.85:
        return [gen_json_any(rng, prof, depth + 1) for _ in range(rng.randint(1, 3))]
    ks = _keys(rng, prof, rng.randint(1, 3))
    return {"$d": [[k, gen_json_any(rng, prof, depth + 1)] for k in ks]}


def _keys(rng, prof, n, ident=True):
    """n distinct keys, in an order that is (mostly) NOT the sorted one"""
    if n >= 2 and rng.random() < 0.4:
        ks = list(rng.choice(ORDER_SETS))
        if len(ks) >= n:
            return ks[:n]
    out = []
    while len(out) < n:
        k = gen_str(rng, prof, ident)
        if k not in out:
            out.append(k)
    return out


def _is_union(tp):
    return typing.get_origin(tp) in (typing.Union, types.UnionType)


# str fields that carry identifiers / addresses of the protocol (HostId, TaskId, JobId, BackboneAddress are all plain `str`)
ID_FIELDS = {"host", "worker", "task", "tasks", "output", "source", "target", "origin", "sink_task", "sink_input_kw", "job_id", "job_ids",
             "maddress", "daddress", "addr", "confirm_address", "benchmark_name", "deser_fun", "entrypoint", "environment"}

# key sequences whose declaration order is not the sorted order (bytewise as orjson sorts, nor numeric, nor case-folded)
ORDER_SETS = [["b", "a"], ["10", "9", "2"], ["upper", "lower", "__aux"], ["1", "0"], ["B", "a", "A"], ["é", "z", "e"], ["o.1", "o", "o 1"],
              ["a.b", "a", "a,b"], ["_", "0", "-"], ["2", "10"], ["z", ""], ["x", "X"], ["\U0001f600", "~"], ["aa", "a", "b"]]


def twin_of(spec, rng):
    """For a WorkerId / DatasetId spec (a, b): another id (a', b') with the SAME repr "a.b" but different fields, or None."""
    if not (isinstance(spec, dict) and spec.get("$c") in ("core.WorkerId", "core.DatasetId")):
        return None
    k1, k2 = list(spec["f"])
    a, b = spec["f"][k1], spec["f"][k2]
    if not (isinstance(a, str) and isinstance(b, str)):
        return None
    joined = a + "." + b
    cuts = [i for i, c in enumerate(joined) if c == "." and i != len(a)]
    if not cuts:
        return None
    i = rng.choice(cuts)
    return {"$c": spec["$c"], "f": {k1: joined[:i], k2: joined[i + 1:]}}


def _with_twins(elems, rng):
    """sometimes adds to a collection of ids an id whose repr equals the repr of a member (only the fields tell them apart)"""
    if elems and rng.random() < 0.35:
        e = rng.choice(elems)
        if isinstance(e, dict) and e.get("$c") in ("core.WorkerId", "core.DatasetId") and "." not in "".join(map(str, e["f"].values())):
            k1 = list(e["f"])[0]
            e = {"$c": e["$c"], "f": dict(e["f"], **{k1: str(e["f"][k1]) + ".x"})}
            if e not in elems:
                elems.append(e)
        t = twin_of(e, rng)
        if t is not None and t not in elems:
            elems.append(t)
    return elems


def gen(tp, rng, prof, depth=0, name=None):
    """spec of a random value of type `tp` (`name`: the field it goes into)"""
    if tp is typing.Any:
        return gen_json_any(rng, prof)
    if tp is type(None):
        return None
    if tp is bool:
        return rng.random() < 0.5
    if tp is int:
        return gen_int(rng, prof)
    if tp is str:
        return gen_str(rng, prof, ident=name in ID_FIELDS)
    if tp is bytes:
        return {"$b": gen_bytes(rng).hex()}
    if _is_union(tp):
        return gen(rng.choice(list(typing.get_args(tp))), rng, prof, depth, name)
    org = typing.get_origin(tp)
    args = typing.get_args(tp)
    if org is list:
        return _with_twins([gen(args[0], rng, prof, depth + 1, name) for _ in range(rng.choice([0, 1, 1, 2, 3, 5]))], rng)
    if org in (set, frozenset):
        elems = []
        for _ in range(rng.choice([0, 1, 2, 3])):
            e = gen(args[0], rng, prof, depth + 1, name)
            if e not in elems:
                elems.append(e)
        return {"$set" if org is set else "$fs": _with_twins(elems, rng)}
    if org is tuple:
        return {"$t": [gen(a, rng, prof, depth + 1, name) for a in args]}
    if org is dict:
        n = rng.choice([0, 1, 2, 3])
        if args[0] is str and n >= 2 and rng.random() < 0.4:
            ks = list(rng.choice(ORDER_SETS))
        else:
            ks = []
            while len(ks) < n:
                k = gen(args[0], rng, prof, depth + 1, "task")      # dict keys are identifiers (task / job / envvar / parameter names)
                if k not in ks:
                    ks.append(k)
            ks = _with_twins(ks, rng)
        return {"$d": [[k, gen(args[1], rng, prof, depth + 1, name)] for k in ks]}
    if isinstance(tp, type) and (dataclasses.is_dataclass(tp) or hasattr(tp, "model_fields")):
        if cls_key(tp) == "core.JobInstance":
            return gen_job(rng, prof)
        if cls_key(tp) in ("core.WorkerId", "core.DatasetId"):
            return {"$c": cls_key(tp), "f": {n: gen_str(rng, prof, ident=True) for n, t in fields_of(tp)}}
        return {"$c": cls_key(tp), "f": {n: gen(t, rng, prof, depth + 1, n) for n, t in fields_of(tp)}}
    raise TypeError(f"no generator for {tp!r}")


def build(spec):
    if isinstance(spec, list):
        return [build(x) for x in spec]
    if isinstance(spec, dict):
        if "$b" in spec:
            return bytes.fromhex(spec["$b"])
        if "$set" in spec:
            return {build(x) for x in spec["$set"]}
        if "$t" in spec:
            return tuple(build(x) for x in spec["$t"])
        if "$d" in spec:
            return {build(k): build(v) for k, v in spec["$d"]}
        if "$f" in spec:
            return float(spec["$f"])
        if "$fs" in spec:
            return frozenset(build(x) for x in spec["$fs"])
        if "$cx" in spec:
            return complex(float(spec["$cx"][0]), float(spec["$cx"][1]))
        if "$dt" in spec:
            import datetime
            return datetime.datetime.fromisoformat(spec["$dt"])
        if "$date" in spec:
            import datetime
            return datetime.date.fromisoformat(spec["$date"])
        if "$uuid" in spec:
            import uuid
            return uuid.UUID(spec["$uuid"])
        if "$dec" in spec:
            import decimal
            return decimal.Decimal(spec["$dec"])
        if "$path" in spec:
            import pathlib
            return pathlib.PurePosixPath(spec["$path"])
        if "$brep" in spec:
            return bytes.fromhex(spec["$brep"][0]) * spec["$brep"][1]
        if "$ba" in spec:
            return bytearray.fromhex(spec["$ba"])
        if "$mv" in spec:
            return memoryview(bytes.fromhex(spec["$mv"]))
        if "$tb" in spec:
            return _build_taskbuilder(spec["$tb"])
        if "$c" in spec:
            c = registry()[spec["$c"]]
            return c(**{k: build(v) for k, v in spec["f"].items()})
        raise ValueError(f"bad spec {spec}")
    return spec


def build_raw(spec):
    """The case's VALUES, without running any constructor code of the message classes: dataclass instances are made with
    object.__new__ and their fields set one by one, pydantic models with model_construct (no validators). What the real
    constructors / __post_init__ / validators would change is therefore absent here: comparing a decoded message with this object
    compares it with what the CASE says went in, not with what the constructor made of it."""
    if isinstance(spec, list):
        return [build_raw(x) for x in spec]
    if isinstance(spec, dict):
        if "$set" in spec:
            return {build_raw(x) for x in spec["$set"]}
        if "$t" in spec:
            return tuple(build_raw(x) for x in spec["$t"])
        if "$d" in spec:
            return {build_raw(k): build_raw(v) for k, v in spec["$d"]}
        if "$fs" in spec:
            return frozenset(build_raw(x) for x in spec["$fs"])
        if "$c" in spec:
            c = registry()[spec["$c"]]
            vals = {k: build_raw(v) for k, v in spec["f"].items()}
            if hasattr(c, "model_construct"):
                return c.model_construct(**vals)
            o = object.__new__(c)
            for k, v in vals.items():
                object.__setattr__(o, k, v)
            return o
        return build(spec)
    return spec


def against_case(spec, d, what="decoded"):
    """'' if the object `d` (decoded message, or the constructed one) carries exactly the values of the case"""
    try:
        raw = build_raw(spec)
    except Exception as e:
        return ""           # the raw form cannot be made (unhashable member ...): nothing to compare with
    x = diff(raw, d)
    if x:
        return _d(f"{what} message differs from the values of the case: {x}", "case-value:" + (x.alter or "?"), x.field)
    return ""


NON_JSON_FORMS = {"$b": "bytes", "$set": "set", "$fs": "frozenset", "$t": "tuple", "$cx": "complex", "$dt": "datetime", "$date": "date",
                  "$uuid": "UUID", "$dec": "Decimal", "$path": "PurePosixPath", "$ba": "bytearray", "$mv": "memoryview"}


def json_domain_problems(spec, out=None, any_leaf=False):
    """why a spec is outside the JSON domain: list of reasons, empty = in the domain. The domain of the JSON encodings is what
    JSON can carry: null, booleans, integers of 64 bit, finite floats, well-formed unicode strings, lists, str-keyed mappings.
    Everything else a field of type `Any` may hold (bytes, tuple, set, frozenset, complex, datetime, non-str keys, ...) is
    OUTSIDE: the encoder may refuse it (that is what the property asks for) -- it may never hand back something else.
    `any_leaf`: inside a value of type Any (where a tuple has no declared type that would restore it on decoding)."""
    out = [] if out is None else out
    if isinstance(spec, bool) or spec is None:
        return out
    if isinstance(spec, int):
        if not (JSON_INT_MIN <= spec <= JSON_INT_MAX):
            out.append("int-beyond-64-bit")
    elif isinstance(spec, float):
        if not math.isfinite(spec):
            out.append("non-finite-float")
    elif isinstance(spec, str):
        try:
            spec.encode("utf-8")
        except UnicodeEncodeError:
            out.append("lone-surrogate")
    elif isinstance(spec, list):
        for x in spec:
            json_domain_problems(x, out, any_leaf)
    elif isinstance(spec, dict):
        if "$f" in spec:
            if not math.isfinite(float(spec["$f"])):
                out.append("non-finite-float")
            return out
        if "$d" in spec:
            for k, v in spec["$d"]:
                if any_leaf and not isinstance(k, str):
                    out.append("non-str-key")
                json_domain_problems(k, out, any_leaf)
                json_domain_problems(v, out, any_leaf)
            return out
        if "$c" in spec:
            try:
                types_ = dict(fields_of(registry()[spec["$c"]]))
            except Exception:
                types_ = {}
            for n, v in spec["f"].items():
                json_domain_problems(v, out, any_leaf or _has_any(types_.get(n)))
            return out
        if "$tb" in spec:
            json_domain_problems(spec["$tb"].get("kw"), out, True)
            return out
        for form, name in NON_JSON_FORMS.items():
            if form in spec:
                # a bytes / tuple / set value of a field DECLARED with that type is restored by the decoder (pydantic): in the domain
                if any_leaf or form not in ("$b", "$set", "$t", "$fs"):
                    out.append(name)
                if isinstance(spec[form], list):
                    json_domain_problems(spec[form], out, any_leaf)
                return out
        for v in spec.values():
            json_domain_problems(v, out, any_leaf)
    return out


def _has_any(tp):
    if tp is typing.Any:
        return True
    return any(_has_any(a) for a in typing.get_args(tp)) if tp is not None else False


# --------------------------------------------------------------------------- JobInstance generator

def sample_fn_a(x: int, y: str = "d") -> int:
    return x


def sample_fn_b(*args, k=3.5, **kw):
    return args


def _build_taskbuilder(d):
    from cascade.low.builders import TaskBuilder
    if d["mode"] == "entrypoint":
        t = TaskBuilder.from_entrypoint(d["entrypoint"], build(d["input_schema"]), d["output_class"], build(d["environment"]))
    else:
        t = TaskBuilder.from_callable({"a": sample_fn_a, "b": sample_fn_b}[d["fn"]], build(d["environment"]))
    kw = build(d["kw"])
    return t.with_values(**kw) if kw else t


def gen_job(rng, prof):
    """JobInstance spec with multi-output tasks and positional / keyword edges"""
    n = rng.randint(1, 5)
    names = _keys(rng, prof, n)
    tasks = []
    outs = {}
    for t in names:
        if rng.random() < 0.3:
            mode = rng.choice(["entrypoint", "callable"])
            ep = mode == "entrypoint"
            tb = {"mode": mode, "entrypoint": gen_str(rng, prof) if ep else "", "input_schema": gen(dict[str, str], rng, prof) if ep else {"$d": []},
                  "output_class": gen_str(rng, prof) if ep else "", "environment": gen(list[str], rng, prof), "fn": rng.choice(["a", "b"]),
                  "kw": {"$d": [[k, gen_json_any(rng, prof)] for k in (["y"] if rng.random() < 0.5 else [])]}}
            tasks.append([t, {"$tb": tb}])
            outs[t] = ["__default__"]
            continue
        onames = _keys(rng, prof, rng.choice([1, 1, 2, 2, 3, 3, 4]))
        outs[t] = onames
        td = {"$c": "core.TaskDefinition", "f": {
            "entrypoint": gen_str(rng, prof, True), "func": gen(str | None, rng, prof), "environment": gen(list[str], rng, prof, name="environment"),
            "input_schema": gen(dict[str, str], rng, prof), "output_schema": {"$d": [[o, gen_str(rng, prof)] for o in onames]},
            "needs_gpu": rng.random() < 0.3}}
        # positional static inputs: keys are the positions as strings -- "10" sorts before "2" as text; not necessarily given in order
        pos = [str(i) for i in range(rng.choice([0, 0, 1, 2, 3, 11]))]
        if rng.random() < 0.3:
            pos.reverse()
        ps = {"$d": [[k, gen_json_any(rng, prof)] for k in pos]}
        tasks.append([t, {"$c": "core.TaskInstance", "f": {"definition": td, "static_input_kw": gen(dict[str, typing.Any], rng, prof), "static_input_ps": ps}}])
    edges = []
    for i in range(1, n):
        for _ in range(rng.choice([0, 1, 2])):
            src = rng.choice(names[:i])
            kwedge = rng.random() < 0.5
            edges.append({"$c": "core.Task2TaskEdge", "f": {
                "source": {"$c": "core.DatasetId", "f": {"task": src, "output": rng.choice(outs[src])}},
                "sink_task": names[i],
                "sink_input_kw": gen_str(rng, prof, True) if kwedge else None,
                "sink_input_ps": None if kwedge else rng.choice([0, 1, 2, 7, gen_int(rng, prof)])}})
    ext = [{"$c": "core.DatasetId", "f": {"task": t, "output": o}} for t in names for o in outs[t] if rng.random() < 0.4]
    rng.shuffle(ext)
    ext = _with_twins(ext, rng)
    f = {"tasks": {"$d": tasks}, "edges": edges}
    if rng.random() < 0.7:
        f["serdes"] = gen(dict[str, tuple[str, str]], rng, prof)
    if rng.random() < 0.8:
        f["ext_outputs"] = ext
    return {"$c": "core.JobInstance", "f": f}


def _walk(spec, fn):
    """fn(spec) on every node of a spec"""
    fn(spec)
    if isinstance(spec, list):
        for x in spec:
            _walk(x, fn)
    elif isinstance(spec, dict):
        if "$d" in spec:
            for k, v in spec["$d"]:
                _walk(k, fn)
                _walk(v, fn)
        elif "$c" in spec:
            for v in spec["f"].values():
                _walk(v, fn)
        elif "$set" in spec or "$t" in spec or "$fs" in spec:
            for x in spec.get("$set", spec.get("$t", spec.get("$fs"))):
                _walk(x, fn)
        elif "$tb" in spec:
            for v in spec["$tb"].values():
                _walk(v, fn)


def shape_counts(case):
    """counters for the evidence (input distribution): multi-output tasks, positional / keyword edges, mappings whose keys are not
    in sorted order, ids with separators in a component, pairs of ids with equal repr"""
    out = {}

    def add(k, n=1):
        out[k] = out.get(k, 0) + n

    def visit(x):
        if isinstance(x, dict) and "$d" in x:
            ks = [k for k, _ in x["$d"]]
            if len(ks) > 1 and all(isinstance(k, str) for k in ks) and ks != sorted(ks, key=lambda k: k.encode("utf-8", "surrogatepass")):
                add("mappings_not_in_sorted_order")
        if isinstance(x, dict) and x.get("$c") in ("core.WorkerId", "core.DatasetId"):
            vals = list(x["f"].values())
            if any(isinstance(v, str) and "." in v for v in vals):
                add("ids_with_dot_in_component")
            if any(isinstance(v, str) and any(c in v for c in ",:/| ") for v in vals):
                add("ids_with_other_separator_in_component")
            if any(v == "" for v in vals):
                add("ids_with_empty_component")
            if any(isinstance(v, str) and not v.isascii() for v in vals):
                add("ids_with_non_ascii_component")
        if isinstance(x, (list, dict)):
            xs = x if isinstance(x, list) else x.get("$set") if "$set" in x else [k for k, _ in x["$d"]] if "$d" in x else []
            ids = [e for e in xs if isinstance(e, dict) and e.get("$c") in ("core.WorkerId", "core.DatasetId")]
            reprs = [".".join(map(str, e["f"].values())) for e in ids]
            if len(set(reprs)) < len(reprs) and len({json_key(e) for e in ids}) > len(set(reprs)):
                add("id_collections_with_equal_reprs")
    for part in ("spec", "rsp"):
        if part in case:
            _walk(case[part], visit)
    if case.get("family") == "job" and "probe" not in case:
        spec = case["spec"]
        tasks = spec["f"]["tasks"]["$d"]
        add("multi_output_tasks", sum(1 for _, t in tasks if "$c" in t and len(t["f"]["definition"]["f"]["output_schema"]["$d"]) > 1))
        add("keyword_edges", sum(1 for e in spec["f"]["edges"] if e["f"]["sink_input_kw"] is not None))
        add("positional_edges", sum(1 for e in spec["f"]["edges"] if e["f"]["sink_input_ps"] is not None))
    return out


def json_key(x):
    import json
    return json.dumps(x, sort_keys=True)


# --------------------------------------------------------------------------- comparison

# Mappings whose ORDER carries meaning in this code base (python dicts and JSON objects are ordered, `==` ignores the order):
#   TaskDefinition.output_schema  "declaration order corresponds to func output order": runner.run binds the values a generator
#                                 yields to the outputs in this order; controller.notify.is_last_output_of takes the last one
#   TaskDefinition.input_schema   parameter order of the callable (builders read it off inspect.signature)
#   TaskInstance.static_input_kw / static_input_ps   handed to the callable as **kwargs / *args (order observable by the callee)
#   JobInstance.tasks             iteration order of every scheduler / builder loop over the job
# (lists -- edges, ext_outputs, environment -- are compared in order anyway). Everything below such a field is compared in order
# too. Other mappings (serdes, envvars, progresses) are lookup tables: compared as mappings.
ORDERED_FIELDS = {("TaskDefinition", "output_schema"), ("TaskDefinition", "input_schema"), ("TaskInstance", "static_input_kw"),
                  ("TaskInstance", "static_input_ps"), ("JobInstance", "tasks")}


def _base_name(c):
    """TaskBuilder is a subclass of TaskInstance; after a round trip the class is the base class"""
    for k in c.__mro__:
        if k.__module__.startswith("cascade.") and k.__name__ in ("TaskInstance", "TaskDefinition", "JobInstance"):
            return k.__name__
    return c.__name__


def _show_val(x):
    return f"{x!r:.60} ({type(x).__name__})"


def vclass(x):
    """class of a value as it appears in signatures: the python type, refined where the encodings distinguish
    (non-finite floats, integers beyond 64 bit, strings with lone surrogates)"""
    if isinstance(x, float):
        if x != x:
            return "float:nan"
        if x in (math.inf, -math.inf):
            return "float:inf" if x > 0 else "float:-inf"
        return "float"
    if isinstance(x, bool):
        return "bool"
    if isinstance(x, int):
        return "int" if JSON_INT_MIN <= x <= JSON_INT_MAX else "int:beyond-64-bit"
    if isinstance(x, str):
        try:
            x.encode("utf-8")
            return "str"
        except UnicodeEncodeError:
            return "str:lone-surrogate"
    return type(x).__name__


class D(str):
    """a difference: the text, plus what a signature needs -- `alter` (class of the original -> class of what came back, or the
    kind of structural change) and `field` (the innermost named field of a dataclass / model on the path)"""
    alter = ""
    field = ""


def _d(text, alter, field):
    d = D(text)
    d.alter = alter
    d.field = field
    return d


def diffs(a, b, path="$", ordered=False, field="", out=None, limit=8):
    """ALL differences between two values (up to `limit`), [] if none. FIELD BY FIELD over dataclasses and pydantic models
    (never via repr / str / a class's own __eq__), strict about the types of scalars (True != 1, 1 != 1.0, tuple != list);
    mappings are compared with their order where the order carries meaning (ORDERED_FIELDS). A differing subtree is reported
    once (at its root); siblings are still compared, so that one known alteration does not hide another one in the same value."""
    out = [] if out is None else out
    if len(out) >= limit:
        return out
    pa, pb = hasattr(type(a), "model_fields"), hasattr(type(b), "model_fields")
    if pa or pb:
        if not (pa and pb) or _base_name(type(a)) != _base_name(type(b)):
            out.append(_d(f"{path}: {type(a).__name__} became {type(b).__name__}", f"{vclass(a)}->{vclass(b)}", field))
            return out
        cn = _base_name(type(a))
        fa, fb = list(type(a).model_fields), list(type(b).model_fields)
        if fa != fb:
            out.append(_d(f"{path}: fields {fa} became {fb}", "model-fields", field))
            return out
        for f in fa:
            diffs(getattr(a, f), getattr(b, f), f"{path}.{f}", (cn, f) in ORDERED_FIELDS, f, out, limit)
        return out
    if dataclasses.is_dataclass(a) and not isinstance(a, type):
        if type(a) is not type(b):
            out.append(_d(f"{path}: {_show_val(a)} became {_show_val(b)}", f"{vclass(a)}->{vclass(b)}", field))
            return out
        for f in dataclasses.fields(a):
            diffs(getattr(a, f.name), getattr(b, f.name), f"{path}.{f.name}", False, f.name, out, limit)
        return out
    if type(a) is not type(b):
        out.append(_d(f"{path}: {_show_val(a)} became {_show_val(b)}", f"{vclass(a)}->{vclass(b)}", field))
        return out
    if isinstance(a, dict):
        ka, kb = list(a), list(b)
        if _keyset(ka) != _keyset(kb) or len(ka) != len(kb):
            lost = [k for k in ka if not _has_key(b, k)]
            new = [k for k in kb if not _has_key(a, k)]
            alter = "key:" + (vclass(lost[0]) if lost else "none") + "->" + (vclass(new[0]) if new else "missing")
            out.append(_d(f"{path}: keys lost {lost!r:.80}, appeared {new!r:.80}", alter, field))
            return out
        if ordered and ka != kb:
            out.append(_d(f"{path}: key order {ka!r:.100} became {kb!r:.100}", "key-order", field))
        for k in ka:
            diffs(a[k], b[k], f"{path}[{k!r:.40}]", ordered, field, out, limit)
        return out
    if isinstance(a, (list, tuple)):
        if len(a) != len(b):
            out.append(_d(f"{path}: length {len(a)} became {len(b)}", f"{vclass(a)}-length", field))
            return out
        for i, (x, y) in enumerate(zip(a, b)):
            diffs(x, y, f"{path}[{i}]", ordered, field, out, limit)
        return out
    if isinstance(a, (set, frozenset)):
        if len(a) != len(b):
            out.append(_d(f"{path}: set of {len(a)} became set of {len(b)}", "set-size", field))
            return out
        rest = list(b)
        for x in a:
            for i, y in enumerate(rest):
                if not diffs(x, y, limit=1):
                    del rest[i]
                    break
            else:
                out.append(_d(f"{path}: member {_show_fields(x)} lost; not matched: {[_show_fields(y) for y in rest]!r:.160}", "set-member", field))
                return out
        return out
    if isinstance(a, float):
        ok = (a == b and math.copysign(1, a) == math.copysign(1, b)) or (a != a and b != b)
        if not ok:
            out.append(_d(f"{path}: {_show_val(a)} became {_show_val(b)}", f"{vclass(a)}-value" if vclass(a) == vclass(b) else f"{vclass(a)}->{vclass(b)}", field))
        return out
    try:
        eq = bool(a == b)
    except Exception:
        eq = False
    if not eq:
        out.append(_d(f"{path}: {_show_val(a)} became {_show_val(b)}", f"{vclass(a)}-value" if vclass(a) == vclass(b) else f"{vclass(a)}->{vclass(b)}", field))
    return out


def diff(a, b, path="$", ordered=False):
    """First difference between two values, '' if none (see `diffs`)."""
    ds = diffs(a, b, path, ordered, limit=1)
    return ds[0] if ds else ""


def _has_key(d, k):
    try:
        return k in d
    except TypeError:
        return False


def _keyset(ks):
    try:
        return set(ks)
    except TypeError:
        return sorted(map(repr, ks))


def _show_fields(x):
    if dataclasses.is_dataclass(x) and not isinstance(x, type):
        return type(x).__name__ + "(" + ", ".join(f"{f.name}={_show_fields(getattr(x, f.name))}" for f in dataclasses.fields(x)) + ")"
    return f"{x!r:.60}"


def same(a, b):
    return diff(a, b) == ""


def same_msg(d, m):
    """'' if the decoded message equals the original: field by field, and by the classes' own ==, hash (ids are keys of sets / dicts)"""
    x = diff(m, d)
    if x:
        return x
    try:
        if not (d == m and m == d):
            return "$: fields equal, but == says different"
        if dataclasses.is_dataclass(m) and getattr(type(m), "__hash__", None) is not None:
            try:
                hm = hash(m)
            except TypeError:
                return ""       # a frozen dataclass holding a list / set is not hashable: fine
            if hm != hash(d):
                return "$: fields equal, but the hash differs"
    except Exception as e:
        return f"$: comparing raised {_err(e)}"
    return ""


def _err(e):
    return f"{type(e).__name__}: {str(e)[:160]}"


# --------------------------------------------------------------------------- family: executor messages

class _CapSocket:
    def __init__(self):
        self.sent = []

    def send(self, b):
        self.sent.append([b])

    def send_multipart(self, frames):
        self.sent.append(list(frames))

    def set(self, *a):
        pass

    def connect(self, *a):
        pass


class _OneShotSocket:
    def __init__(self, frames):
        self.frames = frames

    def recv_multipart(self):
        return self.frames


class _Poller:
    def __init__(self, sock):
        self.sock = sock

    def poll(self, timeout=None):
        return [(self.sock, 1)]


def exec_message_classes():
    import cascade.executor.msg as msg
    return list(typing.get_args(msg.Message))


def gen_exec(rng):
    prof = Profile("pickle")
    classes = exec_message_classes()
    c = rng.choice(classes)
    if rng.random() < 0.2:
        c = next(x for x in classes if x.__name__ == "DatasetTransmitPayload")      # the only multi-frame message
    spec = gen(c, rng, prof)
    pipes = ["serde", "callback", "reliable", "zmq_reliable"]
    if c.__name__ == "DatasetTransmitPayload":
        pipes += ["send_data"] * 5 + ["zmq_send_data"] * 3
    if c.__name__ == "Syn":
        pipes = ["serde"]     # Syn is the envelope of the acknowledged channel, never its content (the listener refuses a bare Syn)
    pipe = rng.choice(pipes)
    if pipe == "zmq_send_data" and rng.random() < 0.5:
        # what the data server really passes is a memoryview of the shm buffer (data_server.py: value=buf.view()); a str is no payload
        h = gen_bytes(rng)[:4096].hex()
        spec["f"]["value"] = rng.choice([{"$mv": h}, {"$mv": h}, {"$ba": h}, "text-not-bytes"])
    return {"family": "exec", "cls": c.__name__, "pipe": pipe, "spec": spec,
            "syn_idx": gen_int(rng, prof), "addr": gen_str(rng, prof)}


def run_exec(case):
    """-> (status, detail). status: ok | rejected | mismatch | decode-error"""
    import cascade.executor.comms as comms
    import cascade.executor.msg as msg
    from cascade.executor.serde import des_message, ser_message
    m = build(case["spec"])
    pipe = case["pipe"]
    if pipe == "serde":
        try:
            b = ser_message(m)
        except Exception as e:
            return "rejected", _err(e)
        try:
            d = des_message(b)
        except Exception as e:
            return "decode-error", _err(e)
        x = same_msg(d, m) or against_case(case["spec"], d)
        return ("ok", "") if not x else ("mismatch", x)
    if pipe.startswith("zmq_"):
        return _run_exec_zmq(case, m)
    cap = _CapSocket()
    old_get_socket, old_callback = comms.get_socket, comms.callback
    acks = []
    try:
        comms.get_socket = lambda address: cap
        try:
            if pipe == "callback":
                comms.callback(case["addr"], m)
            elif pipe == "reliable":
                s = comms.ReliableSender(case["addr"], 1000)
                s.idx = case["syn_idx"]
                s.add_host("h", "tcp://peer")
                s.send("h", m)
            elif pipe == "send_data":
                comms.send_data("tcp://peer", m, msg.Syn(idx=case["syn_idx"], addr=case["addr"]))
            else:
                raise ValueError(pipe)
        except Exception as e:
            return "rejected", _err(e)
        frames = cap.sent.pop()
        cap.sent.clear()
        lst = object.__new__(comms.Listener)
        lst.address = "x"
        lst.socket = _OneShotSocket(frames)
        lst.poller = _Poller(lst.socket)
        lst.acked = set()
        try:
            d = lst._recv_one(0)
        except Exception as e:
            return "decode-error", _err(e)
        acks = [des_message(f[0]) for f in cap.sent]
    finally:
        comms.get_socket, comms.callback = old_get_socket, old_callback
    if pipe in ("reliable", "send_data"):
        want = msg.Ack(idx=case["syn_idx"])
        if len(acks) != 1 or diff(want, acks[0]):
            return "mismatch", f"ack {acks!r:.120} != {want!r}"
    if d is None:
        return "mismatch", "listener dropped the message"
    if pipe == "send_data" and not (type(d.value) is bytes and d.value == m.value):
        return "mismatch", "payload bytes differ"
    x = same_msg(d, m) or against_case(case["spec"], d)
    return ("ok", "") if not x else ("mismatch", x)


_zmq_n = [0]


def _run_exec_zmq(case, m):
    """the same senders and the same Listener._recv_one over REAL zmq sockets (inproc PUSH -> PULL): zmq's own frame handling
    (what may be a frame, large frames) is part of the pipe. The Ack goes to a capturing socket."""
    import zmq
    import cascade.executor.comms as comms
    import cascade.executor.msg as msg
    from cascade.executor.serde import des_message
    zctx = zmq.Context.instance()
    _zmq_n[0] += 1
    data_addr = f"inproc://c17-{_zmq_n[0]}"
    pull = zctx.socket(zmq.PULL)
    push = zctx.socket(zmq.PUSH)
    cap = _CapSocket()
    old_get_socket = comms.get_socket
    try:
        pull.bind(data_addr)
        push.connect(data_addr)
        comms.get_socket = lambda address: push if address == data_addr else cap
        try:
            if case["pipe"] == "zmq_reliable":
                s = comms.ReliableSender(case["addr"], 1000)
                s.idx = case["syn_idx"]
                s.add_host("h", data_addr)
                s.send("h", m)
            else:
                comms.send_data(data_addr, m, msg.Syn(idx=case["syn_idx"], addr=case["addr"]))
        except Exception as e:
            return "rejected", _err(e)
        lst = object.__new__(comms.Listener)
        lst.address = data_addr
        lst.socket = pull
        lst.poller = zmq.Poller()
        lst.poller.register(pull, flags=zmq.POLLIN)
        lst.acked = set()
        try:
            d = lst._recv_one(3000)
        except Exception as e:
            return "decode-error", _err(e)
        acks = [des_message(f[0]) for f in cap.sent]
    finally:
        comms.get_socket = old_get_socket
        push.close(0)
        pull.close(0)
    want = msg.Ack(idx=case["syn_idx"])
    if len(acks) != 1 or diff(want, acks[0]):
        return "mismatch", f"ack {acks!r:.120} != {want!r}"
    if d is None:
        return "mismatch", "listener dropped the message"
    if case["pipe"] == "zmq_send_data":
        if type(d) is not type(m):
            return "mismatch", _d(f"$: {type(m).__name__} became {type(d).__name__}", "message-class", "")
        x = same_msg(d.header, m.header)
        if x:
            return "mismatch", x
        # the receiving side always has bytes; a memoryview / bytearray payload (what the data server sends) must arrive with
        # the same content, a bytes payload as the very bytes
        if isinstance(m.value, (bytes, bytearray, memoryview)):
            if type(d.value) is bytes and d.value == bytes(m.value):
                return "ok", ""
            return "mismatch", _d(f"$.value: payload of {len(bytes(m.value))} bytes arrived as {_show_val(d.value)}", f"{vclass(m.value)}-content", "value")
        x = diff(m.value, d.value, "$.value")
        return ("ok", "") if not x else ("mismatch", x)
    x = same_msg(d, m) or against_case(case["spec"], d)
    return ("ok", "") if not x else ("mismatch", x)


# --------------------------------------------------------------------------- family: controller reports

def gen_report(rng):
    from cascade.controller.report import ControllerReport
    prof = Profile("pickle")
    spec = gen(ControllerReport, rng, prof)
    if rng.random() < 0.4:
        spec["f"]["current_status"] = rng.choice(["0.00", "99.99", "100.00", "Shutdown", None])
    if rng.random() < 0.35:
        # through the real Reporter: the job id travels inside the report address "<address>,<job_id>" built by the gateway
        addr = rng.choice(["tcp://127.0.0.1:5555", "tcp://gw.example.int:12345", "ipc:///tmp/gw.socket", "inproc://x", gen_str(rng, prof, True).replace(",", ".")])
        mode = rng.choice(["progress", "result", "shutdown"])
        return {"family": "report", "cls": "ControllerReport", "pipe": "reporter", "spec": spec, "addr": addr, "mode": mode,
                "remaining": rng.choice([0, 1, 2, 3, 7]), "total": rng.choice([7, 8, 9, 1000])}
    return {"family": "report", "cls": "ControllerReport", "pipe": "pickle", "spec": spec}


def _run_reporter(case, m):
    """gateway.router._spawn_local builds the report address "<addr>,<job_id>" (argv of the controller process), the controller's
    Reporter splits it, sends progress / result / shutdown reports through report._send, gateway side deserialize()s them: the
    job id, the address connected to and the payload must be the ones that went in."""
    import cascade.controller.report as report
    import cascade.gateway.api as gapi
    import cascade.gateway.router as router
    argv = []

    class FakeSub:
        @staticmethod
        def Popen(a, **k):
            argv.extend(a)
            return None
    old_port, old_sub = router.local_job_port, router.subprocess
    try:
        router.subprocess = FakeSub
        spec = gapi.JobSpec(benchmark_name="b", envvars={}, job_instance=None, workers_per_host=1, hosts=1, use_slurm=False)
        try:
            router._spawn_local(spec, case["addr"], m.job_id)
        except Exception as e:
            return "rejected", _err(e)
    finally:
        router.local_job_port, router.subprocess = old_port, old_sub
    if "--report_address" not in argv:
        return "mismatch", "no --report_address in the argv of the spawned controller"
    value = argv[argv.index("--report_address") + 1]
    cap = _CapSocket()
    connected = []
    cap.connect = lambda a: connected.append(a)

    class FakeCtx:
        def socket(self, kind):
            return cap
    old_ctx = report.get_context
    try:
        report.get_context = lambda: FakeCtx()
        try:
            rep = report.Reporter(value)
            if case["mode"] == "result":
                raw_results = build_raw(case["spec"]["f"]["results"])      # the case's values, not what the constructor kept of them
                ds, payload = raw_results[0] if raw_results else (build({"$c": "core.DatasetId", "f": {"task": "t", "output": "o"}}), b"\x00payload")
                rep.send_result(ds, payload)
                want = (None, [(ds, payload)])
            elif case["mode"] == "shutdown":
                rep.shutdown()
                want = ("Shutdown", [])
            else:
                st = types.SimpleNamespace(remaining=case["remaining"], total=case["total"])
                rep.send_progress(st)
                want = ("{:.2f}".format(100 * (1.0 - case["remaining"] / case["total"])), [])
        except Exception as e:
            return "rejected", _err(e)
    finally:
        report.get_context = old_ctx
    if len(cap.sent) != 1:
        return "mismatch", f"{len(cap.sent)} frames sent"
    try:
        d = report.deserialize(cap.sent[0][0])
    except Exception as e:
        return "decode-error", _err(e)
    if connected != [case["addr"]]:
        return "mismatch", _d(f"$.address: reporter connected to {connected!r}, the gateway listens on {case['addr']!r}", "report-address", "address")
    x = diff(build_raw(case["spec"]["f"]["job_id"]), d.job_id, "$.job_id") or diff(want[0], d.current_status, "$.current_status") or diff(want[1], d.results, "$.results")
    if x:
        return "mismatch", x
    if type(d.timestamp) is not int:
        return "mismatch", f"$.timestamp: {_show_val(d.timestamp)}"
    return "ok", ""


def run_report(case):
    from cascade.controller.report import deserialize, serialize
    m = build(case["spec"])
    if case["pipe"] == "reporter":
        return _run_reporter(case, m)
    try:
        b = serialize(m)
    except Exception as e:
        return "rejected", _err(e)
    try:
        d = deserialize(b)
    except Exception as e:
        return "decode-error", _err(e)
    x = same_msg(d, m) or against_case(case["spec"], d)
    return ("ok", "") if not x else ("mismatch", x)


# --------------------------------------------------------------------------- family: gateway

def gateway_pairs():
    import cascade.gateway.api as gapi
    out = []
    for n, o in vars(gapi).items():
        if isinstance(o, type) and n.endswith("Request") and hasattr(o, "model_fields"):
            rsp = getattr(gapi, n[: -len("Request")] + "Response", None)
            if rsp is not None:
                out.append((o, rsp))
    return sorted(out, key=lambda p: p[0].__name__)


def gen_gateway(rng):
    import base64
    prof = Profile("json", bad=rng.random() < 0.3)
    prof.exotic = rng.choice([0.0, 0.0, 0.0, 0.15, 0.35])
    pairs = gateway_pairs()
    req_c, rsp_c = rng.choice(pairs)
    if rng.random() < 0.3:      # the request that carries a whole job instance gets extra weight
        req_c, rsp_c = next((p for p in pairs if p[0].__name__ == "SubmitJobRequest"), (req_c, rsp_c))
    req = gen(req_c, rng, prof)
    rsp = gen(rsp_c, rng, prof)
    if req_c.__name__ == "SubmitJobRequest":
        js = req["f"]["job"]["f"]
        # a spec carries either a benchmark name or a job instance
        if rng.random() < 0.3:
            js["job_instance"] = None
            js["benchmark_name"] = gen_str(rng, prof)
        else:
            js["benchmark_name"] = None
            js["job_instance"] = gen_job(rng, prof)
    case = {"family": "gateway", "cls": req_c.__name__, "pipe": "request_response", "spec": req, "rsp": rsp}
    if rsp_c.__name__ == "ResultRetrievalResponse":
        r = rng.random()
        if r < 0.3:
            rsp["f"]["result"] = base64.b64encode(gen_bytes(rng)).decode("ascii")
        elif r < 0.85:
            # what the gateway really answers (server.handle_fe): base64 of the uploaded bytes, which are the cloudpickle stream of
            # the result VALUE; the frontend gets the value back with api.decoded_result
            import pickle
            vp = Profile("pickle")
            vs = gen_non_json(rng, vp) if rng.random() < 0.5 else gen_json_any(rng, vp)
            if '"$dec": "NaN"' in json_key(vs):
                vs = {"$dec": "1.10"}          # Decimal('NaN') != Decimal('NaN'): no equality to check a round trip with
            try:
                rsp["f"]["result"] = base64.b64encode(pickle.dumps(build(vs), protocol=rng.choice([2, 4, 5]))).decode("ascii")
                rsp["f"]["error"] = None
                case["result_value"] = vs
            except Exception:
                pass
    return case


class _FakeZmq:
    REQ, LINGER, POLLIN = 3, 17, 1

    def __init__(self, reply):
        self.reply = reply
        self.sent = []
        outer = self

        class Sock:
            def set(self, *a):
                pass

            def connect(self, url):
                pass

            def send(self, b):
                outer.sent.append(b)

            def poll(self, timeout, flags=None):
                return 1

            def recv(self):
                return outer.reply

        class Context:
            def socket(self, kind):
                return Sock()
        self.Context = Context


def run_gateway(case):
    """request: request_response (serialising half) -> parse_request ; response: serialize_response ->
    request_response (parsing half). Returns (status, detail, which)"""
    import cascade.gateway.client as client
    req = build(case["spec"])
    rsp = build(case["rsp"])
    # response encoder first (so that the reply we feed to the client is what the server would send)
    rsp_rejected = None
    LAST_GW_BYTES["req"] = LAST_GW_BYTES["rsp"] = None
    try:
        rb = client.serialize_response(rsp)
        LAST_GW_BYTES["rsp"] = rb
    except Exception as e:
        rsp_rejected = _err(e)
        # the reply fed to the client instead: the same class with empty fields (built without validation: a field may not admit None)
        rb = client.serialize_response(type(rsp).model_construct(**{k: None if k != "progresses" else {} for k in type(rsp).model_fields}))
    fake = _FakeZmq(rb)
    old = client.zmq
    try:
        client.zmq = fake
        try:
            got = client.request_response(req, "tcp://gw:1")
            rr_err = None
        except Exception as e:
            got, rr_err = None, _err(e)
    finally:
        client.zmq = old
    if not fake.sent:
        # refused while serialising the request
        return "rejected", rr_err, "request"
    LAST_GW_BYTES["req"] = fake.sent[0]
    try:
        preq = client.parse_request(fake.sent[0])
    except Exception as e:
        return "decode-error", _err(e), "request"
    xs = [_d(f"$: {type(req).__name__} became {type(preq).__name__}", "message-class", "")] if type(preq) is not type(req) else diffs(req, preq)
    if xs:
        return "mismatch", f"request parsed with {xs[0]}", "request", xs
    if rsp_rejected is not None:
        return "rejected", rsp_rejected, "response"
    if rr_err is not None:
        return "decode-error", rr_err, "response"
    xs = [_d(f"$: {type(rsp).__name__} became {type(got).__name__}", "message-class", "")] if type(got) is not type(rsp) else diffs(rsp, got)
    if xs:
        return "mismatch", f"response parsed with {xs[0]}", "response", xs
    if "result_value" in case and getattr(got, "result", None) is not None:
        # the client-side decode of a retrieved result (api.decoded_result: base64, then cloudpickle): the VALUE that was uploaded
        import cascade.gateway.api as gapi
        try:
            v = gapi.decoded_result(got, None)
        except Exception as e:
            return "decode-error", "decoded_result: " + _err(e), "result-value"
        xs = diffs(build(case["result_value"]), v)
        if xs:
            return "mismatch", f"decoded_result gives {xs[0]}", "result-value", xs
    return "ok", "", ""


# --------------------------------------------------------------------------- family: JobInstance file

def gen_jobfile(rng):
    prof = Profile("json", bad=rng.random() < 0.3)
    prof.exotic = rng.choice([0.0, 0.0, 0.0, 0.15, 0.35])
    return {"family": "job", "cls": "JobInstance", "pipe": rng.choice(["router-file", "dumps-loads"]), "spec": gen_job(rng, prof)}


LAST_JOB_BYTES = [None]     # what the real writer wrote for the last job case (for the Model/Json comparison)
LAST_GW_BYTES = {"req": None, "rsp": None}      # what request_response sent / serialize_response returned for the last gateway case


# ----- the model's input, read off the ATTRIBUTES of the real objects (never from their dump), order kept

class NotModelled(Exception):
    """the value has no counterpart in Model/Json.lean (a string that is not well-formed unicode)"""


def flt_parts(x):
    """finite float -> [neg, "<digits>", exp]: sign, shortest decimal digits that identify the double (Python's repr, an
    implementation independent of orjson's), exponent; digits without trailing zeros"""
    from decimal import Decimal
    neg = math.copysign(1, x) < 0
    t = Decimal(repr(abs(x))).as_tuple()
    digits = int("".join(map(str, t.digits)))
    exp = t.exponent
    if digits == 0:
        return [neg, "0", 0]
    while digits % 10 == 0:
        digits //= 10
        exp += 1
    return [neg, str(digits), exp]


def _mstr(x):
    try:
        x.encode("utf-8")
    except UnicodeEncodeError:
        raise NotModelled("lone surrogate")
    return x


def py_to_model(x):
    """a Python value as Model/Json.lean's `PyVal` (Drive/C17.lean: pyOfJson)"""
    import datetime
    import uuid
    if x is None or type(x) is bool:
        return x
    if type(x) is int:
        return {"i": str(x)}
    if type(x) is float:
        if x != x:
            return {"nf": "nan"}
        if x in (math.inf, -math.inf):
            return {"nf": "inf" if x > 0 else "ninf"}
        return {"f": flt_parts(x)}
    if type(x) is str:
        return {"s": _mstr(x)}
    if type(x) is bytes:
        return {"b": list(x[:8])}
    if type(x) is list:
        return {"l": [py_to_model(e) for e in x]}
    if type(x) is tuple:
        return {"t": [py_to_model(e) for e in x]}
    if type(x) is set:
        return {"set": [py_to_model(e) for e in x]}
    if type(x) is frozenset:
        return {"fs": [py_to_model(e) for e in x]}
    if type(x) is dict:
        return {"d": [[py_to_model(k), py_to_model(v)] for k, v in x.items()]}
    if type(x) in (datetime.datetime, datetime.date, datetime.time):
        return {"n": [type(x).__name__, x.isoformat()]}
    if type(x) is uuid.UUID:
        return {"n": ["UUID", str(x)]}
    return {"x": type(x).__name__}


def doc_to_model(text):
    """the bytes the real code wrote, parsed by Python's stdlib `json` (independent of orjson) into the model's token-level
    documents (Drive/C17.lean: docOfJson): key order and duplicates kept, integer and float tokens told apart"""
    import json

    class F(str):
        pass

    class I(str):
        pass

    def conv(x):
        if x is None or isinstance(x, bool):
            return x
        if isinstance(x, I):
            return {"i": str(int(x))}
        if isinstance(x, F):
            from decimal import Decimal
            d = Decimal(str(x))
            t = d.as_tuple()
            digits = int("".join(map(str, t.digits)))
            exp = t.exponent
            if digits == 0:
                return {"f": [bool(t.sign), "0", 0]}
            while digits % 10 == 0:
                digits //= 10
                exp += 1
            return {"f": [bool(t.sign), str(digits), exp]}
        if isinstance(x, str):
            return {"s": x}
        if isinstance(x, list):
            return {"a": [conv(e) for e in x]}
        if isinstance(x, P):
            return {"o": [[k, conv(v)] for k, v in x.pairs]}
        raise NotModelled(type(x).__name__)

    class P:
        def __init__(self, pairs):
            self.pairs = pairs

    def bad_const(c):
        raise NotModelled("constant " + c)
    return conv(json.loads(text, object_pairs_hook=P, parse_float=F, parse_int=I, parse_constant=bad_const))


def job_model_input(job):
    """The job instance as the Lean model takes it (Drive/C17.lean, jobOfJson): attributes of the real objects, in the
    order the real dicts have."""
    def pairs(d):
        return [[_mstr(k), _mstr(v)] for k, v in d.items()]
    tasks = []
    for name, t in job.tasks.items():
        d = t.definition
        tasks.append([_mstr(name), {"def": {"entrypoint": _mstr(d.entrypoint), "func": None if d.func is None else _mstr(d.func),
                                            "environment": [_mstr(e) for e in d.environment],
                                            "input_schema": pairs(d.input_schema), "output_schema": pairs(d.output_schema),
                                            "needs_gpu": d.needs_gpu},
                                    "kw": [[_mstr(k), py_to_model(v)] for k, v in t.static_input_kw.items()],
                                    "ps": [[_mstr(k), py_to_model(v)] for k, v in t.static_input_ps.items()]}])
    edges = [{"source": [_mstr(e.source.task), _mstr(e.source.output)], "sink_task": _mstr(e.sink_task),
              "kw": None if e.sink_input_kw is None else _mstr(e.sink_input_kw),
              "ps": None if e.sink_input_ps is None else str(e.sink_input_ps)} for e in job.edges]
    return {"tasks": tasks, "edges": edges, "serdes": [[_mstr(k), _mstr(v[0]), _mstr(v[1])] for k, v in job.serdes.items()],
            "ext": [[_mstr(d.task), _mstr(d.output)] for d in job.ext_outputs]}


def gw_model_input(m):
    """a gateway request / response as the Lean model takes it (reqOfJson / rspOfJson)"""
    n = type(m).__name__
    os_ = lambda x: None if x is None else _mstr(x)
    if n == "SubmitJobRequest":
        j = m.job
        return {"cls": n, "job": {"benchmark_name": os_(j.benchmark_name), "envvars": [[_mstr(k), _mstr(v)] for k, v in j.envvars.items()],
                                  "job_instance": None if j.job_instance is None else job_model_input(j.job_instance),
                                  "workers_per_host": str(j.workers_per_host), "hosts": str(j.hosts), "use_slurm": j.use_slurm}}
    if n == "JobProgressRequest":
        return {"cls": n, "job_ids": [_mstr(x) for x in m.job_ids]}
    if n == "ResultRetrievalRequest":
        return {"cls": n, "job_id": _mstr(m.job_id), "dataset_id": [_mstr(m.dataset_id.task), _mstr(m.dataset_id.output)]}
    if n == "ShutdownRequest":
        return {"cls": n}
    if n == "SubmitJobResponse":
        return {"cls": n, "job_id": os_(m.job_id), "error": os_(m.error)}
    if n == "JobProgressResponse":
        return {"cls": n, "progresses": [[_mstr(k), _mstr(v)] for k, v in m.progresses.items()], "error": os_(m.error)}
    if n == "ResultRetrievalResponse":
        return {"cls": n, "result": os_(m.result), "error": os_(m.error)}
    if n == "ShutdownResponse":
        return {"cls": n, "error": os_(m.error)}
    raise NotModelled(n)      # a message class the model does not know (added to gateway/api.py): the tie says so


def enc_err_kind(detail):
    """which of orjson's refusals a `rejected` detail is (by its message; every one of them is a TypeError)"""
    for frag, kind in (("Type is not", "type"), ("Dict key mu", "key"), ("Integer exc", "int-range"), ("str is not", "utf8"),
                       ("Recursion", "recursion")):
        if frag in (detail or ""):
            return kind
    return "other"


def json_same(a, b):
    """equality of parsed JSON, numbers by value (the Lean side prints 1e22 as an integer literal)"""
    if isinstance(a, bool) or isinstance(b, bool) or a is None or b is None:
        return type(a) is type(b) and a == b
    if isinstance(a, (int, float)) and isinstance(b, (int, float)):
        if isinstance(a, float) or isinstance(b, float):
            try:
                return float(a) == float(b)
            except OverflowError:
                return False
        return a == b
    if type(a) is not type(b):
        return False
    if isinstance(a, dict):
        return a.keys() == b.keys() and all(json_same(a[k], b[k]) for k in a)
    if isinstance(a, list):
        return len(a) == len(b) and all(json_same(x, y) for x, y in zip(a, b))
    return a == b


def run_jobfile(case):
    import orjson
    LAST_JOB_BYTES[0] = None

    from cascade.low.core import JobInstance
    job = build(case["spec"])
    if case["pipe"] == "dumps-loads":
        try:
            b = orjson.dumps(job.dict())
        except Exception as e:
            return "rejected", _err(e)
        LAST_JOB_BYTES[0] = b
        try:
            back = JobInstance(**orjson.loads(b))
        except Exception as e:
            return "decode-error", _err(e)
        return _job_verdict(job, back)
    # through the real writer (gateway.router._spawn_local) and the real reader (benchmarks get_job)
    import cascade.benchmarks.__main__ as bm
    import cascade.gateway.api as gapi
    import cascade.gateway.router as router
    files = {}

    class W(io.BytesIO):
        def __init__(self, path):
            super().__init__()
            self.path = path

        def close(self):
            files[self.path] = self.getvalue()
            super().close()

    def fake_open(path, mode="r"):
        if "w" in mode:
            return W(path)
        return io.BytesIO(files[path])

    class FakeSub:
        @staticmethod
        def Popen(*a, **k):
            return None
    spec = gapi.JobSpec(benchmark_name=None, envvars={}, job_instance=job, workers_per_host=1, hosts=1, use_slurm=False)
    old_port = router.local_job_port
    try:
        router.open = fake_open
        bm.open = fake_open
        old_sub = router.subprocess
        router.subprocess = FakeSub
        try:
            try:
                router._spawn_local(spec, "tcp://x:1", "c17job")
            except Exception as e:
                return "rejected", _err(e)
            if list(files) != ["/tmp/c17job.json"]:
                return "mismatch", f"files written: {sorted(files)}"
            LAST_JOB_BYTES[0] = files["/tmp/c17job.json"]
            try:
                back = bm.get_job(None, "/tmp/c17job.json")
            except Exception as e:
                return "decode-error", _err(e)
        finally:
            router.subprocess = old_sub
    finally:
        router.local_job_port = old_port
        for mod in (router, bm):
            if "open" in vars(mod):
                del mod.open
    return _job_verdict(job, back)


def _job_verdict(job, back):
    xs = diffs(job, back)
    if not xs:
        x = _first_diff(job.model_dump(), back.model_dump())
        xs = [_d(x, "model-dump-differs", "")] if x else []
    return ("ok", "") if not xs else ("mismatch", xs[0], "", xs)


def _first_diff(a, b, path="$", eq=None):
    eq = eq or same
    if isinstance(a, dict) and isinstance(b, dict):
        for k in a:
            if k not in b:
                return f"{path}.{k}: lost"
            d = _first_diff(a[k], b[k], f"{path}.{k}", eq)
            if d:
                return d
        for k in b:
            if k not in a:
                return f"{path}.{k}: appeared"
        return ""
    if isinstance(a, (list, tuple)) and type(a) is type(b):
        if len(a) != len(b):
            return f"{path}: length {len(a)} became {len(b)}"
        for i, (x, y) in enumerate(zip(a, b)):
            d = _first_diff(x, y, f"{path}[{i}]", eq)
            if d:
                return d
        return ""
    return "" if eq(a, b) else f"{path}: {a!r:.60} ({type(a).__name__}) became {b!r:.60} ({type(b).__name__})"


# --------------------------------------------------------------------------- deterministic sweep (same in every run / seed)

SWEEP_INTS = {"pickle": [0, 1, -1, 255, 2**31, 2**32, 2**53 + 1, 2**63 - 1, 2**63, 2**64 - 1, 2**64, -2**63, -2**63 - 1, 2**100],
              "json": [0, 1, -1, 255, 2**31, 2**32, 2**53 + 1, 2**63 - 1, 2**63, 2**64 - 1, -2**63, 2**64, -2**63 - 1]}
SWEEP_ANY = [None, True, False, 0, 1, -1, 2**53 + 1, 2**64 - 1, {"$f": "-0.0"}, {"$f": "1.0"}, 0.1, 1e22, 1.7976931348623157e308, 5e-324, "", "a.b", "1",
             [], {"$d": []}, [[]], [None], {"$d": [["b", 1], ["a", 2]]}, [{"$d": [["10", 1], ["9", 2], ["2", 3]]}],
             {"$d": [["z", {"$d": [["b", [1, "1", 1.5]], ["a", None]]}], ["", 0]]}]
SWEEP_ANY_NON_JSON = [{"$b": ""}, {"$b": "6162"}, {"$b": "fffe"}, {"$t": []}, {"$t": [1, 2]}, {"$t": [[1], {"$t": ["a"]}]}, [{"$t": [1]}],
                      {"$d": [["k", {"$t": [1, 2]}]]}, {"$set": []}, {"$set": [3, 4]}, {"$fs": [1]}, {"$d": [[1, "a"]]}, {"$d": [[0, "a"], ["0", "b"]]},
                      {"$d": [[True, 1]]}, {"$d": [[None, 1]]}, {"$d": [[1.5, 2]]}, {"$d": [[{"$t": [1, 2]}, 3]]}, {"$d": [[{"$b": "6b"}, 1]]},
                      {"$f": "inf"}, {"$f": "-inf"}, {"$f": "nan"}, [{"$f": "inf"}], {"$d": [["k", {"$f": "nan"}]]}, {"$cx": ["1.0", "2.0"]},
                      {"$dt": "2020-01-02T03:04:05"}, {"$dt": "2024-02-29T00:00:00+00:00"}, {"$date": "2020-01-02"},
                      {"$uuid": "12345678123456781234567812345678"}, {"$dec": "1.10"}, {"$path": "/tmp/x"}, 2**64, -2**63 - 1, "a\ud800"]
SWEEP_BYTES = ["", "00", "80", "ff" * 255, "00" * 65537]


def _is_id_class(tp):
    return isinstance(tp, type) and tp.__module__ == "cascade.low.core" and tp.__name__ in ("WorkerId", "DatasetId")


def sweep_values(tp, kind, name="v", idx=0):
    """-> (base spec, [variant specs]): the base carries distinct, harmless values (so that swapped / dropped fields show);
    every variant differs from the base in ONE leaf (or one container shape)."""
    if tp is typing.Any:
        return 7 + idx, list(SWEEP_ANY) + (list(SWEEP_ANY_NON_JSON) if kind == "json" else [])
    if tp is type(None):
        return None, []
    if tp is bool:
        return False, [True]
    if tp is int:
        base = 3 + idx
        return base, [v for v in SWEEP_INTS[kind] if v != base]
    if tp is str:
        base = f"{name}{idx}"
        return base, [v for v in STRUCT_STRS if v != base]
    if tp is bytes:
        return {"$b": "01fe"}, [{"$b": h} for h in SWEEP_BYTES]
    if _is_union(tp):
        args = list(typing.get_args(tp))
        first = next(a for a in args if a is not type(None))
        base, vs = sweep_values(first, kind, name, idx)
        vs = list(vs)
        for a in args:
            if a is not first:
                b2, v2 = sweep_values(a, kind, name, idx)
                vs += [b2] + list(v2)
        return base, vs
    org = typing.get_origin(tp)
    args = typing.get_args(tp)
    if org in (list, set, frozenset):
        b, vs = sweep_values(args[0], kind, name, idx)
        b2 = sweep_values(args[0], kind, name, idx + 1)[0]
        wrap = (lambda xs: xs) if org is list else (lambda xs: {"$set": xs}) if org is set else (lambda xs: {"$fs": xs})
        out = [wrap([])] + [wrap([v]) for v in vs] + [wrap([b2, b])]
        if org is list:
            out.append(wrap([b, b]))                 # a list keeps duplicates
        if _is_id_class(args[0]):
            k1, k2 = [n for n, _ in fields_of(args[0])]
            ck = cls_key(args[0])
            for (a1, a2), (c1, c2) in ((("a.b", "c"), ("a", "b.c")), (("a", ".b"), ("a.", "b")), (("", "a.b"), (".a", "b"))):
                out.append(wrap([{"$c": ck, "f": {k1: a1, k2: a2}}, {"$c": ck, "f": {k1: c1, k2: c2}}]))    # equal reprs
        return wrap([b]), out
    if org is tuple:
        bs = [sweep_values(a, kind, name, idx + i) for i, a in enumerate(args)]
        base = [b for b, _ in bs]
        out = []
        for i, (_, vs) in enumerate(bs):
            out += [{"$t": base[:i] + [v] + base[i + 1:]} for v in vs]
        return {"$t": base}, out
    if org is dict:
        bv, vvs = sweep_values(args[1], kind, name, idx)
        bv2 = sweep_values(args[1], kind, name, idx + 1)[0]
        if args[0] is str:
            # the base itself has two keys that are NOT in sorted order
            base = {"$d": [[f"z_{name}", bv], [f"a_{name}", bv2]]}
            out = [{"$d": []}, {"$d": [[f"z_{name}", bv]]}]
            out += [{"$d": [[k, bv]]} for k in STRUCT_STRS]
            out += [{"$d": [[f"z_{name}", v], [f"a_{name}", bv2]]} for v in vvs]
            out += [{"$d": [[k, (bv if i % 2 == 0 else bv2)] for i, k in enumerate(ks)]} for ks in ORDER_SETS]
            return base, out
        bk, kvs = sweep_values(args[0], kind, name, idx)
        return {"$d": [[bk, bv]]}, [{"$d": []}] + [{"$d": [[k, bv]]} for k in kvs] + [{"$d": [[bk, v]]} for v in vvs]
    if isinstance(tp, type) and (dataclasses.is_dataclass(tp) or hasattr(tp, "model_fields")):
        fl = fields_of(tp)
        subs = [(n, sweep_values(t, kind, n, i)) for i, (n, t) in enumerate(fl)]
        base = {n: b for n, (b, _) in subs}
        ck = cls_key(tp)
        out = []
        for n, (_, vs) in subs:
            out += [{"$c": ck, "f": dict(base, **{n: v})} for v in vs]
        return {"$c": ck, "f": base}, out
    raise TypeError(f"no sweep for {tp!r}")


_sweep_cache = {}


def sweep_cases(light=False):
    """Every message class x every leaf x every boundary value / structured string / container shape, one at a time.
    `light`: a fixed sub-list (every 7th variant of the large classes) for contexts with a very small budget."""
    if light in _sweep_cache:
        return _sweep_cache[light]
    out = []

    def thin(vs):
        return vs if not light or len(vs) < 40 else vs[::7]
    for c in exec_message_classes():
        base, vs = sweep_values(c, "pickle")
        name = c.__name__
        for k, spec in enumerate([base] + thin(vs)):
            pipes = ["serde"]
            if name != "Syn":
                pipes.append("reliable" if k % 4 else "callback")
            if name == "DatasetTransmitPayload":
                pipes.append("send_data")
            for p in pipes:
                out.append({"family": "exec", "cls": name, "pipe": p, "spec": spec, "syn_idx": 2**32 + k, "addr": "tcp://h0.example:5555", "sweep": k})
    # real zmq sockets: payload frames of every kind the senders are handed, a large frame, an acknowledged plain message
    pbase = sweep_values(next(c for c in exec_message_classes() if c.__name__ == "DatasetTransmitPayload"), "pickle")[0]
    for k, v in enumerate([{"$b": ""}, {"$b": "01fe"}, {"$b": "00" * 65537}, {"$b": "ab" * (2**20 + 1)}, {"$mv": "0102ff"}, {"$mv": ""}, {"$ba": "0102ff"}, "text-not-bytes"]):
        out.append({"family": "exec", "cls": "DatasetTransmitPayload", "pipe": "zmq_send_data", "spec": {"$c": pbase["$c"], "f": dict(pbase["f"], value=v)},
                    "syn_idx": 2**40 + k, "addr": "tcp://h0.example:5555", "sweep": 100000 + k})
    tbase = sweep_values(next(c for c in exec_message_classes() if c.__name__ == "TaskSequence"), "pickle")[0]
    out.append({"family": "exec", "cls": "TaskSequence", "pipe": "zmq_reliable", "spec": tbase, "syn_idx": 7, "addr": "tcp://h0.example:5555", "sweep": 100100})
    from cascade.controller.report import ControllerReport
    base, vs = sweep_values(ControllerReport, "pickle")
    for k, spec in enumerate([base] + thin(vs)):
        out.append({"family": "report", "cls": "ControllerReport", "pipe": "pickle", "spec": spec, "sweep": k})
    # through the real Reporter: job ids with the separator of the report address in them, addresses of every transport
    for k, (jid, addr, mode) in enumerate([("job-1", "tcp://127.0.0.1:5555", "progress"), ("a,b", "tcp://127.0.0.1:5555", "result"), (",", "ipc:///tmp/gw.socket", "shutdown"),
                                           ("", "tcp://gw.example.int:12345", "progress"), ("j,", "inproc://x", "result"), ("1,2,3", "tcp://[::1]:5555", "progress"),
                                           ("é,名", "tcp://10.0.0.1:5555", "shutdown"), ("job 1", "ipc:///tmp/a b/gw.socket", "result")]):
        out.append({"family": "report", "cls": "ControllerReport", "pipe": "reporter", "spec": {"$c": base["$c"], "f": dict(base["f"], job_id=jid)},
                    "addr": addr, "mode": mode, "remaining": k % 3, "total": 3 + k, "sweep": 100000 + k})
    for req_c, rsp_c in gateway_pairs():
        qb, qv = sweep_values(req_c, "json")
        rb, rv = sweep_values(rsp_c, "json")
        if req_c.__name__ == "SubmitJobRequest":
            # a spec carries either a benchmark name or a job instance
            def fix(q):
                js = q["f"]["job"]["f"]
                if js["job_instance"] is not None and js["benchmark_name"] == qb["f"]["job"]["f"]["benchmark_name"]:
                    q = json_copy(q)
                    q["f"]["job"]["f"]["benchmark_name"] = None
                return q
            qb2, qv = fix(qb), [fix(q) for q in qv]
        else:
            qb2 = qb
        k = 0
        for spec in [qb2] + thin(qv):
            out.append({"family": "gateway", "cls": req_c.__name__, "pipe": "request_response", "spec": spec, "rsp": rb, "sweep": k})
            k += 1
        for rsp in thin(rv):
            out.append({"family": "gateway", "cls": req_c.__name__, "pipe": "request_response", "spec": qb2, "rsp": rsp, "sweep": k})
            k += 1
    from cascade.low.core import JobInstance
    base, vs = sweep_values(JobInstance, "json")
    for k, spec in enumerate([base] + thin(vs)):
        out.append({"family": "job", "cls": "JobInstance", "pipe": "dumps-loads" if k % 5 == 1 else "router-file", "spec": spec, "sweep": k})
    _sweep_cache[light] = out
    return out


def large_payload_cases():
    """thorough tier: payload frames of 2^24+1 bytes through the capturing socket and through real zmq sockets"""
    pbase = sweep_values(next(c for c in exec_message_classes() if c.__name__ == "DatasetTransmitPayload"), "pickle")[0]
    spec = {"$c": pbase["$c"], "f": dict(pbase["f"], value={"$brep": ["5a", 2**24 + 1]})}
    return [{"family": "exec", "cls": "DatasetTransmitPayload", "pipe": p, "spec": spec, "syn_idx": 2**41 + k, "addr": "tcp://h0.example:5555", "sweep": 200000 + k}
            for k, p in enumerate(["send_data", "zmq_send_data", "serde"])]


def json_copy(x):
    import json
    return json.loads(json.dumps(x))


# --------------------------------------------------------------------------- shrinking of a failing case

def _smaller(spec):
    """one-step smaller variants of a spec (lazily)"""
    if isinstance(spec, list):
        for i in range(len(spec)):
            yield spec[:i] + spec[i + 1:]
        for i, x in enumerate(spec):
            for y in _smaller(x):
                yield spec[:i] + [y] + spec[i + 1:]
    elif isinstance(spec, dict):
        if "$d" in spec:
            ps = spec["$d"]
            for i in range(len(ps)):
                yield {"$d": ps[:i] + ps[i + 1:]}
            for i, (k, v) in enumerate(ps):
                for y in _smaller(v):
                    yield {"$d": ps[:i] + [[k, y]] + ps[i + 1:]}
                for y in _smaller(k):
                    if all(y != k2 for k2, _ in ps):
                        yield {"$d": ps[:i] + [[y, v]] + ps[i + 1:]}
        elif "$set" in spec or "$t" in spec or "$fs" in spec:
            tag = "$set" if "$set" in spec else "$t" if "$t" in spec else "$fs"
            xs = spec[tag]
            for i in range(len(xs)):       # (a tuple of a declared arity that gets too short is no value any more: evaluate says so)
                yield {tag: xs[:i] + xs[i + 1:]}
            for i, x in enumerate(xs):
                for y in _smaller(x):
                    yield {tag: xs[:i] + [y] + xs[i + 1:]}
        elif "$c" in spec:
            try:
                types_ = dict(fields_of(registry()[spec["$c"]]))
            except Exception:
                types_ = {}
            for n, v in spec["f"].items():
                tp = types_.get(n)
                if v is not None and tp is not None and _is_union(tp) and type(None) in typing.get_args(tp):
                    yield {"$c": spec["$c"], "f": dict(spec["f"], **{n: None})}      # only where the field's type admits None
                for y in _smaller(v):
                    yield {"$c": spec["$c"], "f": dict(spec["f"], **{n: y})}
        elif "$b" in spec:
            if len(spec["$b"]) > 2:
                yield {"$b": ""}
                yield {"$b": spec["$b"][:2]}
    elif isinstance(spec, str):
        if len(spec) > 12:
            yield spec[:4]
        elif len(spec) > 3 and spec.isalnum():
            yield spec[0]
    elif isinstance(spec, int) and not isinstance(spec, bool):
        if abs(spec) > 9:
            yield 1


def shrink(case, budget=400, sig=None):
    """Greedy reduction of a failing sampled case: a smaller case is taken if the oracle fails on it with the same signature
    (`sig`: which of the case's violations to keep; default the first)."""
    r0 = evaluate(case)
    if r0["violation"] is None:
        return case
    sig = sig or r0["violation"][0]
    if not any(v[0] == sig for v in r0["violations"]):
        return case
    cur = case
    used = 0
    progress = True
    while progress and used < budget:
        progress = False
        for part in ("spec", "rsp"):
            if part not in cur:
                continue
            for cand in _smaller(cur[part]):
                if used >= budget:
                    break
                c2 = dict(cur, **{part: cand})
                c2.pop("sweep", None)
                used += 1
                try:
                    r = evaluate(c2)
                except Exception:
                    continue
                if any(v[0] == sig for v in r["violations"]):
                    cur = c2
                    progress = True
                    break
            if progress:
                break
    return cur


# --------------------------------------------------------------------------- dispatch + oracle

FAMILIES = {
    "exec": (gen_exec, run_exec),
    "report": (gen_report, run_report),
    "gateway": (gen_gateway, run_gateway),
    "job": (gen_jobfile, run_jobfile),
}


def domain_problems(case):
    """reasons why the encoder is allowed to refuse this case (empty: it must be accepted)"""
    if case["family"] in ("exec", "report"):
        # pickle: every value of the message types is admitted; a payload FRAME must be bytes-like (annotation: bytes)
        if case["pipe"] in ("send_data", "zmq_send_data"):
            v = case["spec"].get("f", {}).get("value")
            if not (isinstance(v, dict) and ("$b" in v or "$mv" in v or "$ba" in v or "$brep" in v)):
                return ["payload-not-bytes"]
        if case["pipe"] == "reporter" and "," in case.get("addr", ""):
            return ["comma-in-report-address"]
        return []
    probs = json_domain_problems(case["spec"])
    if case["family"] == "gateway":
        probs = probs + json_domain_problems(case.get("rsp"))
    return sorted(set(probs))


def fixed_probes():
    """Values outside the JSON domain that random generation leaves out (so that their signatures stay exact)."""
    did = lambda t, o: {"$c": "core.DatasetId", "f": {"task": t, "output": o}}
    tdef = {"$c": "core.TaskDefinition", "f": {"entrypoint": "m.f", "func": None, "environment": [], "input_schema": {"$d": []},
                                               "output_schema": {"$d": [["o", "int"]]}, "needs_gpu": False}}
    job_inf = {"$c": "core.JobInstance", "f": {"tasks": {"$d": [["t", {"$c": "core.TaskInstance", "f": {
        "definition": tdef, "static_input_kw": {"$d": [["x", {"$f": "inf"}]]}, "static_input_ps": {"$d": []}}}]]}, "edges": []}}
    job_sur = {"$c": "core.JobInstance", "f": {"tasks": {"$d": [["t\ud800", {"$c": "core.TaskInstance", "f": {
        "definition": tdef, "static_input_kw": {"$d": []}, "static_input_ps": {"$d": []}}}]]}, "edges": [],
        "ext_outputs": [did("t\ud800", "o")]}}
    ok_rsp = {"$c": "gapi.JobProgressResponse", "f": {"progresses": {"$d": []}, "error": None}}
    return [
        {"family": "job", "cls": "JobInstance", "pipe": "router-file", "spec": job_inf, "probe": "non-finite-float"},
        {"family": "job", "cls": "JobInstance", "pipe": "router-file", "spec": job_sur, "probe": "lone-surrogate"},
        {"family": "gateway", "cls": "JobProgressRequest", "pipe": "request_response", "probe": "lone-surrogate",
         "spec": {"$c": "gapi.JobProgressRequest", "f": {"job_ids": ["x\ud800y"]}}, "rsp": ok_rsp},
        # os.environ decodes undecodable bytes with surrogateescape (U+DC80..U+DCFF): an envvars dict copied from it may carry them
        {"family": "gateway", "cls": "SubmitJobRequest", "pipe": "request_response", "probe": "lone-surrogate-in-dict-key",
         "spec": {"$c": "gapi.SubmitJobRequest", "f": {"job": {"$c": "gapi.JobSpec", "f": {
             "benchmark_name": "b", "envvars": {"$d": [["A\udc80", "v"]]}, "job_instance": None, "workers_per_host": 1, "hosts": 1, "use_slurm": False}}}},
         "rsp": {"$c": "gapi.SubmitJobResponse", "f": {"job_id": "j", "error": None}}},
        {"family": "gateway", "cls": "SubmitJobRequest", "pipe": "request_response", "probe": "lone-surrogate-in-dict-value",
         "spec": {"$c": "gapi.SubmitJobRequest", "f": {"job": {"$c": "gapi.JobSpec", "f": {
             "benchmark_name": "b", "envvars": {"$d": [["A", "v\udc80"]]}, "job_instance": None, "workers_per_host": 1, "hosts": 1, "use_slurm": False}}}},
         "rsp": {"$c": "gapi.SubmitJobResponse", "f": {"job_id": "j", "error": None}}},
        {"family": "gateway", "cls": "JobProgressRequest", "pipe": "request_response", "probe": "lone-surrogate-in-response",
         "spec": {"$c": "gapi.JobProgressRequest", "f": {"job_ids": []}},
         "rsp": {"$c": "gapi.JobProgressResponse", "f": {"progresses": {"$d": [["j", "0.00"]]}, "error": "x\ud800y"}}},
    ]


# What orjson (default options) does to three classes of values inside a field of type Any instead of refusing them. A signature
# gets the mechanism only if the OBSERVED alteration is exactly this one (class of the original -> class of what came back) and it
# sits in a field of type Any: anything else on the same input (inf coming back as 0, a tuple coming back as a str, a tuple of a
# field declared `tuple[...]` coming back as a list) has no mechanism and is matched by no known finding.
MECHANISMS = {
    "tuple->list": "json-array-for-tuple",
    "float:inf->NoneType": "json-null-for-non-finite-float", "float:-inf->NoneType": "json-null-for-non-finite-float",
    "float:nan->NoneType": "json-null-for-non-finite-float",
    "datetime->str": "json-string-for-orjson-native-scalar", "date->str": "json-string-for-orjson-native-scalar",
    "time->str": "json-string-for-orjson-native-scalar", "UUID->str": "json-string-for-orjson-native-scalar",
}
_any_fields = None


def any_fields():
    """names of the fields of the real classes whose annotation contains `Any`"""
    global _any_fields
    if _any_fields is None:
        out = set()
        for c in registry().values():
            try:
                out |= {n for n, t in fields_of(c) if _has_any(t)}
            except Exception:
                pass
        _any_fields = out
    return _any_fields


def evaluate(case):
    """Runs the real code on one case. -> dict(status, detail, part, violation: None | (signature, what), violations: [...]).
    A mismatch gives one violation per differing place (distinct signatures), each naming the class of the original value and
    of what came back (`alter`) and the field it sits in -- a known finding suppresses exactly that alteration in that family,
    nothing else on the same input."""
    try:
        build(case["spec"])
        if "rsp" in case:
            build(case["rsp"])
    except Exception as e:
        # the real constructors (pydantic validation) do not accept the generated value: not a message at all
        return {"status": "not-a-value", "detail": _err(e), "part": "", "domain_problems": [], "violation": None, "violations": []}
    try:
        res = FAMILIES[case["family"]][1](case)
    except Exception as e:    # the harness or the real code failed outside encode/decode: report, never crash
        res = ("crash", _err(e))
    status, detail = res[0], res[1]
    part = res[2] if len(res) > 2 else ""
    all_diffs = res[3] if len(res) > 3 else []
    probs = domain_problems(case)
    viols = []
    if status == "ok":
        pass
    elif status == "rejected":
        if not probs:
            viols.append(({"kind": "in-domain-value-rejected", "family": case["family"], "cls": case["cls"], "pipe": case["pipe"]},
                          f"{case['family']}/{case['cls']} via {case['pipe']}: encoder refused a value of the domain: {detail}"))
    else:
        base = {"kind": status, "family": case["family"], "cls": case["cls"], "pipe": case["pipe"]}
        if part:
            base["part"] = part
        seen = set()
        for d in (all_diffs or [detail]):
            sig = dict(base)
            if isinstance(d, D):
                sig["alter"] = d.alter
                sig["field"] = d.field
                if d.alter in MECHANISMS and d.field in any_fields() and case["family"] in ("job", "gateway"):
                    sig["mechanism"] = MECHANISMS[d.alter]
            key = (sig.get("alter"), sig.get("field"))
            if key in seen:
                continue
            seen.add(key)
            viols.append((sig, f"{case['family']}/{case['cls']} via {case['pipe']} {part}: {status}: {d}"))
    return {"status": status, "detail": detail, "part": part, "domain_problems": probs, "violation": viols[0] if viols else None,
            "violations": viols}
