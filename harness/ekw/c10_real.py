"""C10 helper: build graphs/jobs from JSON cases, lower them with the REAL graph2job and run every task
with the REAL runner (entrypoint.execute_sequence -> runner.run -> memory.Memory) in-process.

Replaced module globals (no hooks in the repo): cascade.executor.runner.memory.shm_client (fake shared
memory: a dict), cascade.executor.runner.memory.callback and cascade.executor.runner.entrypoint.callback
(recorders of DatasetPublished / TaskFailure).
"""
import inspect

# --------------------------------------------------------------------------- values

RECORD = {}      # Rec.key -> list of (args, kwargs) observed by the callable


class Tok:
    """An opaque, non-iterable, picklable value produced by a task."""

    def __init__(self, s):
        self.s = s

    def __eq__(self, other):
        return isinstance(other, Tok) and other.s == self.s

    def __hash__(self):
        return hash(("Tok", self.s))

    def __repr__(self):
        return "Tok(%s)" % self.s


def tok(key, k):
    return Tok("%s#%d" % (key, k))


def _argstr(a):
    if isinstance(a, Tok):
        return a.s
    if a is None or isinstance(a, (str, int)):
        return repr(a)
    return type(a).__name__


def fn_tok(key, args):
    return Tok("%s(%s)" % (key, ",".join(_argstr(a) for a in args)))


def enc(v):
    """python value -> canonical JSON value"""
    if v is None:
        return None
    if isinstance(v, bool):
        return {"o": "bool"}
    if isinstance(v, str):
        return {"s": v}
    if isinstance(v, int):
        return {"i": v}
    if isinstance(v, Tok):
        return {"t": v.s}
    if inspect.isgenerator(v):
        return {"o": "generator"}
    if isinstance(v, list):
        return {"o": "list"}
    return {"o": type(v).__name__}


def dec(j):
    if j is None:
        return None
    if "s" in j:
        return j["s"]
    if "i" in j:
        return j["i"]
    if "t" in j:
        return Tok(j["t"])
    raise ValueError(j)


def _gen(key, m):
    for k in range(m):
        yield tok(key, k)


class Rec:
    """Recording callable. Pickled by reference to this (importable) module, so the copy that
    func_dec creates records into the same RECORD."""

    def __init__(self, key, kind, m):
        self.key = key
        self.kind = kind
        self.m = m
        self.__name__ = "f_" + key

    def __call__(self, *args, **kwargs):
        RECORD.setdefault(self.key, []).append((list(args), dict(kwargs)))
        if self.kind == "ret":
            return tok(self.key, 0)
        if self.kind == "fn":          # the value names the callable and everything it was called with, in order
            return fn_tok(self.key, args)
        if self.kind == "gen":
            return _gen(self.key, self.m)
        if self.kind == "list":
            return [tok(self.key, k) for k in range(self.m)]
        if self.kind == "raise":
            raise RuntimeError("callable-raised")
        raise AssertionError(self.kind)

    def __repr__(self):
        return "Rec(%s)" % self.key


def result_json(key, beh, vals=None):
    """What the callable of behaviour `beh` returns, for the model."""
    kind, m = beh["kind"], beh.get("m", 0)
    if vals is not None:
        return {"kind": "value", "vals": [enc(vals[0])]}
    if kind == "ret":
        return {"kind": "value", "vals": [enc(tok(key, 0))]}
    if kind == "gen":
        return {"kind": "gen", "vals": [enc(tok(key, k)) for k in range(m)]}
    if kind == "list":
        return {"kind": "lst", "vals": [enc(tok(key, k)) for k in range(m)]}
    return {"kind": "raises", "vals": []}


# --------------------------------------------------------------------------- fakes

class FakeBuf:
    def __init__(self, store, shmid, l, deser_fun, data=None):
        self.store = store
        self.shmid = shmid
        self.deser_fun = deser_fun
        self.l = l
        self.writing = data is None
        self.ba = bytearray(l) if data is None else bytearray(data)

    def view(self):
        return memoryview(self.ba)

    def close(self):
        if self.writing:
            self.store[self.shmid] = (bytes(self.ba), self.deser_fun)
            self.writing = False


class FakeShm:
    AllocatedBuffer = FakeBuf

    def __init__(self):
        self.store = {}

    def allocate(self, key, l, deser_fun, timeout_sec=60.0):
        return FakeBuf(self.store, key, l, deser_fun)

    def get(self, key, timeout_sec=60.0):
        if key not in self.store:
            raise KeyError("missing-input " + key)
        data, deser_fun = self.store[key]
        return FakeBuf(self.store, key, len(data), deser_fun, data)


class FakePckg:
    def extend(self, packages):
        return None


def classify(detail):
    """TaskFailure.detail (repr of the exception) -> small enum"""
    d = detail or ""
    if "schema declared more outputs" in d or "is shorter than argument" in d:
        return "fewer-results"
    if "produced more results" in d or "is longer than argument" in d:
        return "more-results"
    if "callable-raised" in d:
        return "callable-raised"
    if "missing-input" in d:
        return "missing-input"
    if "no output key" in d:
        return "no-outputs"
    if "is not an iterator" in d:
        return "not-iterator"
    if "is not iterable" in d:
        return "not-iterable"
    if "pickle" in d:
        return "unpicklable"
    return "other:" + d.split("(")[0]


# --------------------------------------------------------------------------- building

def _ser_nodes(graph):
    """Serialised nodes (what node2task sees), as JSON for the model, in dict order."""
    from earthkit.workflows.graph import serialise
    out = []
    for name, node in serialise(graph).items():
        payload = node.get("payload")
        if isinstance(payload, tuple):
            pj = {"args": [enc(a) for a in payload[1]], "kwargs": [[k, enc(v)] for k, v in payload[2].items()]}
        else:
            pj = None
        inputs = []
        for p, other in node["inputs"].items():
            if isinstance(other, str):
                inputs.append([p, other, None])
            else:
                inputs.append([p, other[0], other[1]])
        out.append({"name": name, "payload": pj, "inputs": inputs, "outputs": list(node["outputs"])})
    return out


def build(case):
    """-> dict(graph | None, job | None, lower_error, ser, spec, keys, order, fluent_nodes)
    spec: name -> dict(args=[("static", v) | ("up", parent, out)], kwargs={k: ...same...}, outs=[...], beh, key, wellformed)
    """
    from cascade.low.core import DatasetId, JobInstance, Task2TaskEdge, TaskDefinition, TaskInstance
    from earthkit.workflows.graph import Graph
    from earthkit.workflows.graph import Node as BaseNode
    from earthkit.workflows.graph import Output
    kind = case["kind"]
    res = {"graph": None, "job": None, "lower_error": None, "ser": None, "spec": {}, "order": [], "fluent_nodes": [], "coords": []}
    spec = res["spec"]
    if kind == "job":
        tasks = {}
        names = [t["name"] for t in case["tasks"]]
        for t in case["tasks"]:
            beh = t["beh"]
            f = Rec(t["name"], beh["kind"], beh.get("m", 0))
            definition = TaskDefinition(func=TaskDefinition.func_enc(f), environment=[], entrypoint="", input_schema={},
                                        output_schema={o: "Any" for o in t["outs"]})
            tasks[t["name"]] = TaskInstance(definition=definition, static_input_kw={k: dec(v) for k, v in t["kw"]},
                                            static_input_ps={str(i): dec(v) for i, v in t["ps"]})
            spec[t["name"]] = {"ps": {i: ("static", dec(v)) for i, v in t["ps"]}, "kwargs": {k: ("static", dec(v)) for k, v in t["kw"]},
                               "outs": list(t["outs"]), "beh": beh, "key": t["name"], "wellformed": True, "parents": []}
        edges = []
        for s, o, d, ps, kw in case["edges"]:
            edges.append(Task2TaskEdge(source=DatasetId(names[s], o), sink_task=names[d], sink_input_ps=ps, sink_input_kw=kw))
            sp = spec[names[d]]
            sp["parents"].append(names[s])
            if ps is not None:
                if isinstance(sp["ps"].get(ps), tuple) and sp["ps"][ps][0] == "up":
                    sp["wellformed"] = False    # two edges into one parameter: no declared meaning
                sp["ps"][ps] = ("up", names[s], o)
            else:
                if kw in sp["kwargs"] and sp["kwargs"][kw][0] == "up":
                    sp["wellformed"] = False
                sp["kwargs"][kw] = ("up", names[s], o)
        for sp in spec.values():
            n = max(sp["ps"].keys(), default=-1) + 1
            sp["args"] = [sp["ps"].get(i, ("static", None)) for i in range(n)]
        res["job"] = JobInstance(tasks=tasks, edges=edges)
        res["order"] = names
        return res

    from cascade.low.into import graph2job
    nodes = []
    if kind == "hand":
        for nd in case["nodes"]:
            beh = nd["beh"]
            f = Rec(nd["name"], beh["kind"], beh.get("m", 0))
            args = [dec(a) for a in nd["args"]]
            kwargs = {k: dec(v) for k, v in nd["kwargs"]}
            payload = (f, args, kwargs) if nd["payload"] == "tuple" else {"func": "nope"}
            ins = {}
            for p, pi, o in nd["inputs"]:
                ins[p] = nodes[pi] if o is None else Output(nodes[pi], o)
            node = BaseNode(nd["name"], outputs=nd["outputs"], payload=payload, **ins)
            nodes.append(node)
            ph = {p: (nodes[pi].name, "0" if o is None else o) for p, pi, o in nd["inputs"]}
            wf = nd["payload"] == "tuple" and all(any(a == p for a in args) for p in ph)
            spec[node.name] = {"args": [("up",) + ph[a] if isinstance(a, str) and a in ph else ("static", a) for a in args],
                               "kwargs": {k: ("static", v) for k, v in kwargs.items()},
                               "outs": list(nd["outputs"]) if nd["outputs"] else ["0"], "beh": beh, "key": nd["name"], "wellformed": wf,
                               "parents": [x[0] for x in ph.values()]}
    elif kind == "fluent":
        from earthkit.workflows import fluent
        payload_objs, keys_of = [], []
        for nd in case["nodes"]:
            beh = nd["beh"]
            f = Rec(nd["name"], beh["kind"], beh.get("m", 0))
            args = [dec(a) for a in nd["args"]]
            kwargs = {k: dec(v) for k, v in nd["kwargs"]}
            ins = [nodes[pi] if o is None else nodes[pi].get_output(o) for pi, o in nd["inputs"]]
            arg_ins = ins[0] if (nd.get("single") and len(ins) == 1) else ins
            if nd.get("reuse") is not None:
                # the very Payload object an earlier node was built from (the case repeats its args/kwargs/beh):
                # what the constructor did for that node must not show here
                pobj = payload_objs[nd["reuse"]]
            else:
                pobj = fluent.Payload(f, list(args), dict(kwargs))
            payload_objs.append(pobj)
            keys_of.append(keys_of[nd["reuse"]] if nd.get("reuse") is not None else nd["name"])
            node = fluent.Node(pobj, arg_ins, num_outputs=nd["num_outputs"], name=nd["name"])
            nodes.append(node)
            # fluent semantics from its documentation/comment: "Insert inputs not already present in args"
            declared = list(args) + ["input%d" % i for i in range(len(ins)) if "input%d" % i not in args]
            ph = {"input%d" % i: (nodes[pi].name, "0" if o is None else o) for i, (pi, o) in enumerate(nd["inputs"])}
            spec[node.name] = {"args": [("up",) + ph[a] if isinstance(a, str) and a in ph else ("static", a) for a in declared],
                               "kwargs": {k: ("static", v) for k, v in kwargs.items()},
                               "outs": [str(i) for i in range(nd["num_outputs"])], "beh": beh, "key": keys_of[-1], "wellformed": True,
                               "parents": [x[0] for x in ph.values()]}
            res["fluent_nodes"].append({"name": node.name, "args": [enc(a) for a in args], "n_inputs": len(ins), "num_outputs": nd["num_outputs"]})
    elif kind == "prog":
        import numpy as np
        from earthkit.workflows import fluent
        s, coords, ms = case["srcs"], case["coords"], case["m"]
        n = len(coords)
        gens = np.empty((s,), dtype=object)
        for i in range(s):
            gens[i] = Rec("g%d" % i, "gen", ms[i])
        act = fluent.from_source(gens, yields=("y", list(coords)), dims=["x"], coords={"x": list(range(s))})
        cons = np.empty((s, n), dtype=object)
        for i in range(s):
            for j in range(n):
                cons[i, j] = Rec("c%d_%d" % (i, j), "ret", 1)
        act2 = act.map(cons)
        gnames = {}
        for i in range(s):
            outp = act.nodes.sel(x=i, y=coords[0]).item()
            gnames[i] = outp.parent.name
            spec[outp.parent.name] = {"args": [], "kwargs": {}, "outs": [str(k) for k in range(n)], "beh": {"kind": "gen", "m": ms[i]},
                                      "key": "g%d" % i, "wellformed": True, "parents": []}
        # the author declared: the k-th yielded value has coordinate coords[k]
        for i in range(s):
            for j in range(n):
                node = act2.nodes.sel(x=i, y=coords[j]).item()
                spec[node.name] = {"args": [("up", gnames[i], "@%d" % j)], "kwargs": {}, "outs": ["0"], "beh": {"kind": "ret", "m": 1},
                                   "key": node.payload[0].key, "wellformed": True, "parents": [gnames[i]]}
                res["coords"].append([i, coords[j], node.name])
        res["graph"] = act2.graph()
    elif kind == "fprog":
        try:
            _build_fprog(case, res)
        except Exception as e:      # the generator only writes programs the fluent documentation allows
            res["lower_error"] = "program:" + type(e).__name__
            res["spec"].clear()
            return res
    if kind in ("hand", "fluent"):
        consumed = set()
        for nd in nodes:
            for src in nd.inputs.values():
                consumed.add(src.parent.name)
        sinks = [nd for nd in nodes if nd.name not in consumed]
        res["graph"] = Graph(sinks)
    res["ser"] = _ser_nodes(res["graph"])
    try:
        res["job"] = graph2job(res["graph"])
    except KeyError:
        res["lower_error"] = "keyError"
    except NotImplementedError:
        res["lower_error"] = "notImplemented"
    except Exception as e:   # unexpected: a result to compare, not a crash
        res["lower_error"] = "other:" + type(e).__name__
    # topological order = declaration order for hand/fluent; sources first for prog
    if kind == "fprog":
        pass
    elif kind == "prog":
        res["order"] = [n for n in spec if spec[n]["beh"]["kind"] == "gen"] + [n for n in spec if spec[n]["beh"]["kind"] != "gen"]
    else:
        res["order"] = [nd.name for nd in nodes]
    return res


def _build_fprog(case, res):
    """A fluent program over an array of sources: map / reduce (optionally batched) steps that share Payload objects.

    case: dims [n] | [n1, n2]; payloads [{"wrap": "payload"|"callable"|"partial", "args": [...], "kwargs": [...]}];
          steps [{"op": "map", "p": i} | {"op": "reduce", "p": i, "dim": "x"|"y", "batch": b}]
    What is DECLARED for a node of the resulting graph: the inputs the node has in the graph, and the arguments the
    author wrote into the payload it was built from, completed by the inputs the author did not place ("Insert inputs
    not already present in args").  An 'inputK' string with K >= number of inputs is a string the author wrote.
    """
    import functools
    import graphlib

    import numpy as np
    from earthkit.workflows import fluent
    from earthkit.workflows.graph import serialise
    spec = res["spec"]
    dims = list(case["dims"])
    dnames = ["x", "y"][:len(dims)]
    srcs = np.empty(tuple(dims), dtype=object)
    for idx in np.ndindex(*dims):
        srcs[idx] = Rec("s" + "_".join(map(str, idx)), "ret", 1)
    act = fluent.from_source(srcs, dims=dnames, coords={d: list(range(n)) for d, n in zip(dnames, dims)})
    pobjs, user = [], {}
    for pi, p in enumerate(case["payloads"]):
        f = Rec("p%d" % pi, "fn", 1)
        f.batchable = True
        args = [dec(a) for a in p["args"]]
        kwargs = {k: dec(v) for k, v in p["kwargs"]}
        user["p%d" % pi] = (args, kwargs)
        if p["wrap"] == "payload":
            pobjs.append(fluent.Payload(f, list(args), dict(kwargs)))
        elif p["wrap"] == "partial":
            pobjs.append(functools.partial(f, *args, **kwargs))
        else:
            pobjs.append(f)
    for st in case["steps"]:
        if st["op"] == "map":
            act = act.map(pobjs[st["p"]])
        else:
            act = act.reduce(pobjs[st["p"]], dim=st["dim"], batch_size=st["batch"])
    graph = act.graph()
    res["graph"] = graph
    ser = serialise(graph)
    parents_of = {}
    for name, node in ser.items():
        ins = node["inputs"]
        k = len(ins)
        refs = []
        for i in range(k):
            other = ins.get("input%d" % i)
            if other is None:
                raise ValueError("node %s has %d inputs but none named input%d" % (name, k, i))
            refs.append((other, "0") if isinstance(other, str) else (other[0], other[1]))
        key = node["payload"][0].key
        args, kwargs = user.get(key, ([], {}))
        declared = list(args) + ["input%d" % i for i in range(k) if "input%d" % i not in args]
        ph = {"input%d" % i: refs[i] for i in range(k)}
        spec[name] = {"args": [("up",) + ph[a] if isinstance(a, str) and a in ph else ("static", a) for a in declared],
                      "kwargs": {kk: ("static", v) for kk, v in kwargs.items()}, "outs": ["0"], "beh": {"kind": "ret", "m": 1},
                      "key": key, "wellformed": True, "parents": [r[0] for r in refs]}
        parents_of[name] = sorted({r[0] for r in refs})
        res["fluent_nodes"].append({"name": name, "args": [enc(a) for a in args], "n_inputs": k, "num_outputs": 1})
    order = list(graphlib.TopologicalSorter({n: parents_of[n] for n in sorted(parents_of)}).static_order())
    res["order"] = order
    # the value each node denotes (a source: its token; otherwise the callable applied to the declared arguments)
    for name in order:
        sp = spec[name]
        if sp["key"] in user:
            vals = [spec[a[1]]["vals"][0] if a[0] == "up" else a[1] for a in sp["args"]]
            sp["vals"] = [fn_tok(sp["key"], vals)]
        else:
            sp["vals"] = [tok(sp["key"], 0)]
    # what the author of the program expects of each final node: every source of its coordinates, exactly once
    finals = []
    left = list(act.nodes.dims)
    for idx in np.ndindex(*act.nodes.shape):
        item = act.nodes.data[idx]
        fixed = {d: int(act.nodes.coords[d].values[i]) for d, i in zip(left, idx)}
        want = []
        for sidx in np.ndindex(*dims):
            if all(sidx[dnames.index(d)] == v for d, v in fixed.items()):
                want.append("s" + "_".join(map(str, sidx)) + "#0")
        finals.append([item.name if not hasattr(item, "parent") else item.parent.name, sorted(want)])
    res["finals"] = finals


def canon_job(job):
    tasks = []
    for name, t in job.tasks.items():
        tasks.append({"name": name,
                      "ps": [[int(k), enc(v)] for k, v in t.static_input_ps.items()],
                      "kw": [[k, enc(v)] for k, v in t.static_input_kw.items()],
                      "in_schema": list(t.definition.input_schema.keys()),
                      "out_schema": list(t.definition.output_schema.keys())})
    edges = [[e.source.task, e.source.output, e.sink_task, e.sink_input_ps, e.sink_input_kw] for e in job.edges]
    return {"tasks": tasks, "edges": edges}


# --------------------------------------------------------------------------- running

class Runner:
    """Runs tasks of a job one TaskSequence at a time through the real execute_sequence."""

    def __init__(self, job, mode):
        import cascade.executor.runner.entrypoint as entrypoint
        import cascade.executor.runner.memory as memory
        from cascade.low.core import WorkerId
        from cascade.low.views import param_source
        self.entrypoint = entrypoint
        self.memory = memory
        self.job = job
        self.mode = mode
        self.worker = WorkerId("h0", "w0")
        self.shm = FakeShm()
        self.events = []
        self.handled = []
        self._saved = (memory.shm_client, memory.callback, entrypoint.callback)
        memory.shm_client = self.shm
        memory.callback = lambda addr, msg: self.events.append(msg)
        entrypoint.callback = lambda addr, msg: self.events.append(msg)
        outer = self

        class RecMemory(memory.Memory):
            def handle(self, outputId, outputSchema, outputValue, isPublish):
                outer.handled.append([outputId.output, enc(outputValue), bool(isPublish)])
                return super().handle(outputId, outputSchema, outputValue, isPublish)

        self.RecMemory = RecMemory
        self.mem = RecMemory("cb", self.worker)
        self.ctx = entrypoint.RunnerContext(workerId=self.worker, job=job, callback="cb", param_source=param_source(job.edges))

    def close(self):
        self.memory.shm_client, self.memory.callback, self.entrypoint.callback = self._saved

    def available(self):
        """what Memory.provide can find: the worker's local dict, else the fake shared memory (decoded with the real
        des_output): [[task, out, val]]"""
        from cascade.low.core import DatasetId
        out = []
        local = {} if self.mode == "fresh" else self.mem.local
        for name, t in self.job.tasks.items():
            for o in t.definition.output_schema.keys():
                ds = DatasetId(name, o)
                v = local[ds] if ds in local else self.stored(name, o)
                if v is not _MISSING:
                    out.append([name, o, enc(v)])
        return out

    def stored(self, task, output):
        import cascade.executor.serde as serde
        from cascade.low.core import DatasetId
        sid = self.memory.ds2shmid(DatasetId(task, output))
        if sid not in self.shm.store:
            return _MISSING
        data, fun = self.shm.store[sid]
        return serde.des_output(data, "Any", fun)

    def run_task(self, tid, key, publish_outs):
        """-> dict(received, handled, error, events:[out...], completion:[bool...])"""
        from cascade.controller.notify import is_last_output_of
        from cascade.executor.msg import DatasetPublished, TaskFailure, TaskSequence
        from cascade.low.core import DatasetId
        if self.mode == "fresh":
            self.mem = self.RecMemory("cb", self.worker)
        RECORD.pop(key, None)
        self.events.clear()
        self.handled.clear()
        ts = TaskSequence(worker=self.worker, tasks=[tid], publish={DatasetId(tid, o) for o in publish_outs})
        crash = None
        try:
            self.entrypoint.execute_sequence(ts, self.mem, FakePckg(), self.ctx)
        except BaseException as e:   # execute_sequence must report, never raise
            crash = "crash:" + type(e).__name__
        calls = RECORD.get(key, [])
        received = None
        if calls:
            a, k = calls[0]
            received = {"args": [enc(x) for x in a], "kwargs": sorted([kk, enc(v)] for kk, v in k.items()), "calls": len(calls)}
        fails = [e for e in self.events if isinstance(e, TaskFailure)]
        pubs = [e for e in self.events if isinstance(e, DatasetPublished)]
        completion = []
        for e in pubs:
            try:
                completion.append(bool(is_last_output_of(e.ds, self.job)))
            except Exception as ex:
                completion.append("error:" + type(ex).__name__)
        error = crash or (classify(fails[0].detail) if fails else None)
        return {"received": received, "handled": [list(h) for h in self.handled], "error": error,
                "events": [[e.ds.task, e.ds.output] for e in pubs], "completion": completion,
                "failure_task": (fails[0].task if fails else None)}


_MISSING = object()


def is_last_real(job, task, out):
    from cascade.controller.notify import is_last_output_of
    from cascade.low.core import DatasetId
    try:
        return bool(is_last_output_of(DatasetId(task, out), job))
    except Exception as e:
        return "error:" + type(e).__name__
